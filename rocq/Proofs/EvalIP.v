(* Soundness of the interval evaluator: what [evalI] returns encloses [evalX].

   Main results
     I_of_dyadic_correct, isign_spec, inz_spec, iint_spec, R2Z_IZR,
     one soundness lemma per combinator (ibin_sound, iun_sound, ipowc_sound, isum_sound,
     iprod_sound, icondsum_sound, ilinutil_sound, ielem_sound, ilogit_den_sound,
     iloglogit_sound, ibelongs_sound, imean_sound),
     evalI_sound   (induction over [expr]),
     judge_agree_sound (the differ), PhiI_none_correct.

   The only thing assumed is the Section hypothesis [PhiI_correct] (the interval extension
   of the normal CDF encloses Phi); everything else is proved from the Interval library. *)
From Coq Require Import Reals ZArith List String Bool Lra Lia.
From Interval Require Import Xreal Specific_bigint Specific_ops Float_full Interval Basic.
From BV Require Import Model.Expr Model.EvalX Model.EvalI.
Import ListNotations.
Open Scope R_scope.

(* interval operations are never unfolded in this file *)
#[local] Opaque I.add I.sub I.mul I.div I.exp I.ln I.sin I.cos I.power_int I.fromZ I.abs I.neg
       I.sign_strict.

(* ------------------------------------------------------------------ strong induction on expr *)
Lemma expr_ind_strong (P : expr -> Prop) :
  (forall h kids, Forall P kids -> P (Node h kids)) -> forall e, P e.
Proof.
  intros H.
  fix IH 1.
  intros [h kids]. apply H.
  induction kids as [|k kids IHk].
  - constructor.
  - constructor; [apply IH | exact IHk].
Qed.

(* induction on lists two elements at a time *)
Lemma list_pair_ind {A} (P : list A -> Prop) :
  P [] -> (forall a, P [a]) -> (forall a b l, P l -> P (a :: b :: l)) -> forall l, P l.
Proof.
  intros H0 H1 H2 l.
  assert (H : P l /\ forall a, P (a :: l)).
  { induction l as [|x l [IH1 IH2]].
    - split; [exact H0 | exact H1].
    - split; [apply IH2 | intros a; apply H2; exact IH1]. }
  exact (proj1 H).
Qed.

(* ------------------------------------------------------------------ the statement *)
Definition cont (i : I.type) (r : R) : Prop := contains (I.convert i) (Xreal r).
Arguments cont : simpl never.

Definition look (l : dlookup) : lookup := fun n => option_map D2R (dfind n l).

Definition env_of (d : denv) : env :=
  mkEnv (look (d_beta d)) (look (d_var d)) (look (d_draw d)) (look (d_rv d))
        (map look (d_draws d)) (map look (d_rows d)).

Definition sound (v : ival) (x : xval) : Prop :=
  match v with
  | VI i => exists r, x = XR r /\ contains (I.convert i) (Xreal r)
  | VMInf => x = XmInf
  | VNaN => x = XNaN
  | VUnk => True
  end.

Lemma sound_VI i r : cont i r -> sound (VI i) (XR r).
Proof. intros H; exists r; split; [reflexivity | exact H]. Qed.

Lemma sound_VI_inv i x : sound (VI i) x -> exists r, x = XR r /\ cont i r.
Proof. intros H; exact H. Qed.

(* turn every hypothesis [sound <constructor> x] into its content *)
Ltac inv_sound :=
  repeat match goal with
  | H : sound (VI _) _ |- _ =>
      let r := fresh "r" in let E := fresh "E" in let C := fresh "C" in
      apply sound_VI_inv in H; destruct H as (r & E & C); try subst
  | H : sound VMInf _ |- _ => cbn [sound] in H; try subst
  | H : sound VNaN _ |- _ => cbn [sound] in H; try subst
  | H : sound VUnk _ |- _ => clear H
  end.

(* ------------------------------------------------------------------ interval operations on reals *)
Lemma add_c x y a b : cont x a -> cont y b -> cont (I.add prec x y) (a + b).
Proof. intros H1 H2; exact (I.add_correct prec x y (Xreal a) (Xreal b) H1 H2). Qed.
Lemma sub_c x y a b : cont x a -> cont y b -> cont (I.sub prec x y) (a - b).
Proof. intros H1 H2; exact (I.sub_correct prec x y (Xreal a) (Xreal b) H1 H2). Qed.
Lemma mul_c x y a b : cont x a -> cont y b -> cont (I.mul prec x y) (a * b).
Proof. intros H1 H2; exact (I.mul_correct prec x y (Xreal a) (Xreal b) H1 H2). Qed.
Lemma neg_c x a : cont x a -> cont (I.neg x) (- a).
Proof. intros H; exact (I.neg_correct x (Xreal a) H). Qed.
Lemma abs_c x a : cont x a -> cont (I.abs x) (Rabs a).
Proof. intros H; exact (I.abs_correct x (Xreal a) H). Qed.
Lemma exp_c x a : cont x a -> cont (I.exp prec x) (exp a).
Proof. intros H; exact (I.exp_correct prec x (Xreal a) H). Qed.
Lemma sin_c x a : cont x a -> cont (I.sin prec x) (sin a).
Proof. intros H; exact (I.sin_correct prec x (Xreal a) H). Qed.
Lemma cos_c x a : cont x a -> cont (I.cos prec x) (cos a).
Proof. intros H; exact (I.cos_correct prec x (Xreal a) H). Qed.
Lemma fromZ_c z : cont (I.fromZ prec z) (IZR z).
Proof. exact (I.fromZ_correct prec z). Qed.

Lemma div_c x y a b : b <> 0 -> cont x a -> cont y b -> cont (I.div prec x y) (a / b).
Proof.
  intros Hb H1 H2.
  generalize (I.div_correct prec x y (Xreal a) (Xreal b) H1 H2).
  cbn [Xbind2]. unfold Xdiv', is_zero. rewrite (Raux.Req_bool_false b 0 Hb). exact (fun H => H).
Qed.

Lemma ln_c x a : 0 < a -> cont x a -> cont (I.ln prec x) (ln a).
Proof.
  intros Ha H.
  generalize (I.ln_correct prec x (Xreal a) H).
  cbn [Xbind]. unfold Xln', is_positive. rewrite (Raux.Rlt_bool_true 0 a Ha). exact (fun H => H).
Qed.

Lemma powerRZ_Xpower_int a n :
  (0 <= n)%Z \/ a <> 0 -> Xpower_int' a n = Xreal (powerRZ a n).
Proof.
  intros H. destruct n as [|p|p]; cbn [Xpower_int' powerRZ]; try reflexivity.
  destruct H as [H|H]; [lia|].
  unfold is_zero. rewrite (Raux.Req_bool_false a 0 H). reflexivity.
Qed.

Lemma power_int_c x a n :
  (0 <= n)%Z \/ a <> 0 -> cont x a -> cont (I.power_int prec x n) (powerRZ a n).
Proof.
  intros Hn H.
  generalize (I.power_int_correct prec n x (Xreal a) H).
  cbv beta. unfold Xpower_int. cbn [Xbind]. rewrite (powerRZ_Xpower_int a n Hn). exact (fun H => H).
Qed.

Lemma ione_c : cont ione 1.
Proof. exact (fromZ_c 1). Qed.
Lemma izero_c : cont izero 0.
Proof. exact (fromZ_c 0). Qed.
Lemma ib_c b : cont (ib b) (b2R b).
Proof. destruct b; [exact ione_c | exact izero_c]. Qed.
Lemma I_of_Z_c z : cont (I_of_Z z) (IZR z).
Proof. exact (fromZ_c z). Qed.

Theorem I_of_dyadic_correct d : contains (I.convert (I_of_dyadic d)) (Xreal (D2R d)).
Proof.
  unfold I_of_dyadic, D2R. apply mul_c.
  - apply fromZ_c.
  - apply power_int_c; [right; lra | apply (fromZ_c 2)].
Qed.

(* ------------------------------------------------------------------ decisions *)
Definition sgn_ok (s : sgn) (r : R) : Prop :=
  match s with SNeg => r < 0 | SZero => r = 0 | SPos => 0 < r | SUnk => True end.

Theorem isign_spec i r : cont i r -> sgn_ok (isign i) r.
Proof.
  intros H. unfold isign.
  generalize (I.sign_strict_correct i).
  destruct (I.sign_strict i); intros Hs; cbn [sgn_ok]; try exact I.
  - specialize (Hs _ H). injection Hs as ->. reflexivity.
  - destruct (Hs _ H) as [_ Hlt]. exact Hlt.
  - destruct (Hs _ H) as [_ Hlt]. exact Hlt.
Qed.

Theorem inz_spec i r b : inz i = Some b -> cont i r -> Rnz r = b.
Proof.
  intros Hi H. pose proof (isign_spec i r H) as Hs. unfold inz in Hi. unfold Rnz.
  destruct (isign i); cbn [sgn_ok] in Hs; try discriminate; injection Hi as <-;
    destruct (Req_EM_T r 0); try reflexivity; lra.
Qed.

Theorem iint_spec i z r : iint i = Some z -> cont i r -> r = IZR z.
Proof.
  unfold iint. intros Hi H.
  destruct (Z_of_float (F.toF (I.lower i))) as [z'|]; [|discriminate].
  pose proof (isign_spec _ _ (sub_c _ _ _ _ H (I_of_Z_c z'))) as Hs.
  destruct (isign (I.sub prec i (I_of_Z z'))); try discriminate.
  injection Hi as <-. cbn [sgn_ok] in Hs. lra.
Qed.

Theorem R2Z_IZR z : R2Z (IZR z) = Some z.
Proof.
  unfold R2Z.
  assert (E : Int_part (IZR z) = z).
  { unfold Int_part.
    assert (Hu : (z + 1)%Z = up (IZR z)).
    { apply tech_up; rewrite plus_IZR; lra. }
    rewrite <- Hu. lia. }
  rewrite E. destruct (Req_EM_T (IZR z) (IZR z)) as [_|n]; [reflexivity | exfalso; apply n; reflexivity].
Qed.

(* ------------------------------------------------------------------ lifting *)
Lemma il1_sound f g :
  (forall x a, cont x a -> cont (f x) (g a)) ->
  forall v x, sound v x -> sound (il1 f v) (lift1 g x).
Proof.
  intros Hf v x H. destruct v; inv_sound; cbn [il1 lift1 sound]; auto.
  apply sound_VI, Hf, C.
Qed.

Lemma il2_sound f g :
  (forall x y a b, cont x a -> cont y b -> cont (f x y) (g a b)) ->
  forall va vb xa xb, sound va xa -> sound vb xb -> sound (il2 f va vb) (lift2 g xa xb).
Proof.
  intros Hf va vb xa xb Ha Hb.
  destruct va, vb; inv_sound; cbn [il2 lift2 sound]; auto;
    try (destruct xa; reflexivity).
  apply sound_VI, Hf; assumption.
Qed.

(* the sign of x - y, for the two enclosures appearing in the goal *)
Ltac sign_of_sub Hs :=
  match goal with
  | |- context [isign (I.sub prec ?x ?y)] =>
      match goal with
      | Hx : cont x ?a, Hy : cont y ?b |- _ =>
          pose proof (isign_spec _ _ (sub_c _ _ _ _ Hx Hy)) as Hs
      end
  end.

Ltac sign_of Hs :=
  match goal with
  | |- context [isign ?x] =>
      match goal with
      | Hx : cont x ?a |- _ => pose proof (isign_spec _ _ Hx) as Hs
      end
  end.

(* ------------------------------------------------------------------ binary operators *)
Lemma icmp_sound test f :
  (forall s x y b, sgn_ok s (x - y) -> test s = Some b -> f x y = b) ->
  forall va vb xa xb, sound va xa -> sound vb xb ->
  sound (icmp test va vb) (lift2 (fun x y => b2R (f x y)) xa xb).
Proof.
  intros Hf va vb xa xb Ha Hb.
  destruct va, vb; inv_sound; cbn [icmp lift2 sound]; auto; try (destruct xa; reflexivity).
  sign_of_sub Hs.
  match goal with |- context [test ?s] => destruct (test s) eqn:E; [|exact I] end.
  rewrite (Hf _ _ _ _ Hs E). apply sound_VI, ib_c.
Qed.

Lemma imin_sound va vb xa xb :
  sound va xa -> sound vb xb -> sound (imin va vb) (lift2 Rmin xa xb).
Proof.
  intros Ha Hb.
  destruct va, vb; inv_sound; cbn [imin lift2 sound]; auto; try (destruct xa; reflexivity).
  sign_of_sub Hs.
  match goal with |- context [isign ?s] => destruct (isign s) end; cbn [sgn_ok] in Hs; try exact I;
    unfold Rmin; match goal with |- context [Rle_dec ?a ?b] => destruct (Rle_dec a b) end;
    try (exfalso; lra); apply sound_VI; assumption.
Qed.

Lemma imax_sound va vb xa xb :
  sound va xa -> sound vb xb -> sound (imax va vb) (lift2 Rmax xa xb).
Proof.
  intros Ha Hb.
  destruct va, vb; inv_sound; cbn [imax lift2 sound]; auto; try (destruct xa; reflexivity).
  sign_of_sub Hs.
  match goal with |- context [isign ?s] => destruct (isign s) end; cbn [sgn_ok] in Hs; try exact I;
    unfold Rmax; match goal with |- context [Rle_dec ?a ?b] => destruct (Rle_dec a b) end;
    try (exfalso; lra); apply sound_VI; assumption.
Qed.

Lemma ipow_real_sound x y a b :
  cont x a -> cont y b ->
  sound (ipow_real x y) (if Rltb' 0 a then XR (Rpower a b) else XNaN).
Proof.
  intros Hx Hy. unfold ipow_real, Rltb'.
  sign_of Hs.
  destruct (isign x); cbn [sgn_ok] in Hs; destruct (Rlt_dec 0 a); try (exfalso; lra);
    cbn [sound]; auto.
  apply sound_VI. unfold Rpower. apply exp_c, mul_c; [assumption | apply ln_c; assumption].
Qed.

(* E : inz i = Some b, with an enclosure hypothesis for i: rewrite Rnz of the point *)
Ltac use_inz E :=
  match type of E with
  | inz ?i = Some _ =>
      match goal with
      | Hc : cont i ?r |- _ => rewrite (inz_spec _ _ _ E Hc)
      end
  end.

Lemma Rnz_true r : Rnz r = true -> r <> 0.
Proof. unfold Rnz. destruct (Req_EM_T r 0); [discriminate | auto]. Qed.

Lemma idiv_sound va vb xa xb :
  sound va xa -> sound vb xb -> sound (ibin Divide va vb) (xbin Divide xa xb).
Proof.
  intros Ha Hb.
  destruct va as [x| | |], vb as [y| | |]; inv_sound; cbn [ibin xbin sound]; auto;
    try (destruct xa; reflexivity).
  destruct (inz y) as [[|]|] eqn:E; [| |exact I]; use_inz E; cbn [sound]; [|reflexivity].
  match goal with Hy : cont y ?b |- _ =>
    pose proof (Rnz_true _ (inz_spec _ _ _ E Hy)) end.
  apply sound_VI, div_c; assumption.
Qed.

Lemma ipower_sound va vb xa xb :
  sound va xa -> sound vb xb -> sound (ibin Power va vb) (xbin Power xa xb).
Proof.
  intros Ha Hb.
  destruct va, vb; inv_sound; cbn [ibin xbin sound]; auto; try (destruct xa; reflexivity).
  apply ipow_real_sound; assumption.
Qed.

(* the truth value of an enclosure, when decided *)
Lemma itruth_sound v x :
  sound v x ->
  sound (match v with
         | VI y => match inz y with Some r => VI (ib r) | None => VUnk end
         | VUnk => VUnk
         | _ => VNaN end)
        (match x with XR y => XR (b2R (Rnz y)) | _ => XNaN end).
Proof.
  intros H. destruct v; inv_sound; cbn [sound]; auto.
  destruct (inz i) eqn:E; [|exact I].
  use_inz E. apply sound_VI, ib_c.
Qed.

Lemma iand_sound va vb xa xb :
  sound va xa -> sound vb xb -> sound (ibin And va vb) (xbin And xa xb).
Proof.
  intros Ha Hb. cbn [ibin xbin].
  destruct va; inv_sound; cbn [sound]; auto.
  destruct (inz i) as [[|]|] eqn:E; [| |exact I]; use_inz E.
  - apply itruth_sound, Hb.
  - apply sound_VI, izero_c.
Qed.

Lemma ior_sound va vb xa xb :
  sound va xa -> sound vb xb -> sound (ibin Or va vb) (xbin Or xa xb).
Proof.
  intros Ha Hb. cbn [ibin xbin].
  destruct va; inv_sound; cbn [sound]; auto.
  destruct (inz i) as [[|]|] eqn:E; [| |exact I]; use_inz E.
  - apply sound_VI, ione_c.
  - apply itruth_sound, Hb.
Qed.

Ltac cmp_tac :=
  let s := fresh "s" in let x := fresh "x" in let y := fresh "y" in let b := fresh "b" in
  let Hs := fresh "Hs" in let Ht := fresh "Ht" in
  intros s x y b Hs Ht;
  unfold Reqb', Rleb', Rltb';
  destruct s; cbn [sgn_ok] in Hs; try discriminate; injection Ht as <-;
  repeat match goal with
         | |- context [Req_EM_T ?a ?b] => destruct (Req_EM_T a b)
         | |- context [Rle_dec ?a ?b] => destruct (Rle_dec a b)
         | |- context [Rlt_dec ?a ?b] => destruct (Rlt_dec a b)
         end; cbn [negb]; try reflexivity; exfalso; lra.

Theorem ibin_sound op va vb xa xb :
  sound va xa -> sound vb xb -> sound (ibin op va vb) (xbin op xa xb).
Proof.
  intros Ha Hb. destruct op.
  - cbn [ibin xbin]. apply il2_sound; [exact add_c | assumption | assumption].
  - cbn [ibin xbin]. apply il2_sound; [exact sub_c | assumption | assumption].
  - cbn [ibin xbin]. apply il2_sound; [exact mul_c | assumption | assumption].
  - apply idiv_sound; assumption.
  - apply ipower_sound; assumption.
  - cbn [ibin xbin]. apply imin_sound; assumption.
  - cbn [ibin xbin]. apply imax_sound; assumption.
  - apply iand_sound; assumption.
  - apply ior_sound; assumption.
  - cbn [ibin xbin]. apply (icmp_sound t_eq Reqb'); [cmp_tac | assumption | assumption].
  - cbn [ibin xbin]. apply (icmp_sound t_ne (fun x y => negb (Reqb' x y))); [cmp_tac | assumption | assumption].
  - cbn [ibin xbin]. apply (icmp_sound t_le Rleb'); [cmp_tac | assumption | assumption].
  - cbn [ibin xbin]. apply (icmp_sound t_ge (fun x y => Rleb' y x)); [cmp_tac | assumption | assumption].
  - cbn [ibin xbin]. apply (icmp_sound t_lt Rltb'); [cmp_tac | assumption | assumption].
  - cbn [ibin xbin]. apply (icmp_sound t_gt (fun x y => Rltb' y x)); [cmp_tac | assumption | assumption].
Qed.

(* ------------------------------------------------------------------ unary operators *)
Lemma ilog_sound x a :
  cont x a -> sound (ilog x) (if Rltb' 0 a then XR (ln a) else XNaN).
Proof.
  intros Hx. unfold ilog, Rltb'. sign_of Hs.
  destruct (isign x); cbn [sgn_ok] in Hs; destruct (Rlt_dec 0 a); try (exfalso; lra);
    cbn [sound]; auto.
  apply sound_VI, ln_c; assumption.
Qed.

(* ------------------------------------------------------------------ PowerConstant *)
Theorem ipowc_sound c v x : sound v x -> sound (ipowc c v) (xpowc c x).
Proof.
  intros H. unfold ipowc, xpowc.
  destruct v as [y| | |]; inv_sound; cbn [sound]; auto.
  change (let '(m, e) := c in
          if (0 <=? e)%Z then Some (m * 2 ^ e)%Z
          else if (m mod 2 ^ (- e) =? 0)%Z then Some (m / 2 ^ (- e))%Z else None)
    with (dyadic_is_int c).
  destruct (dyadic_is_int c) as [n|].
  - destruct (0 <=? n)%Z eqn:En.
    + apply sound_VI, power_int_c; [left; apply Z.leb_le; exact En | assumption].
    + destruct (inz y) as [[|]|] eqn:E; [| |exact I]; use_inz E; cbn [sound]; [|reflexivity].
      apply sound_VI, power_int_c; [right | assumption].
      match goal with Hy : cont y ?b |- _ => exact (Rnz_true _ (inz_spec _ _ _ E Hy)) end.
  - apply ipow_real_sound; [assumption | exact (I_of_dyadic_correct c)].
Qed.

(* ------------------------------------------------------------------ lists of values *)
Definition sounds : list ival -> list xval -> Prop := Forall2 sound.

Lemma sounds_length l xl : sounds l xl -> List.length l = List.length xl.
Proof. induction 1; cbn [List.length]; congruence. Qed.

Lemma sounds_firstn n l xl : sounds l xl -> sounds (firstn n l) (firstn n xl).
Proof.
  unfold sounds. intros H. revert n. induction H; intros [|n]; cbn [firstn]; constructor; auto.
Qed.

Lemma sounds_skipn n l xl : sounds l xl -> sounds (skipn n l) (skipn n xl).
Proof.
  unfold sounds. intros H. revert n. induction H; intros [|n]; cbn [skipn]; try constructor; auto.
Qed.

Theorem isum_sound l xl : sounds l xl -> sound (isum l) (xsum xl).
Proof.
  unfold isum, xsum. induction 1; cbn [fold_right].
  - apply sound_VI, izero_c.
  - apply il2_sound; [exact add_c | assumption | assumption].
Qed.

Theorem iprod_sound l xl : sounds l xl -> sound (iprod l) (xprod xl).
Proof.
  unfold iprod, xprod. induction 1; cbn [fold_right].
  - apply sound_VI, ione_c.
  - apply il2_sound; [exact mul_c | assumption | assumption].
Qed.

Theorem icondsum_sound l : forall xl, sounds l xl -> sound (icondsum l) (xcondsum xl).
Proof.
  induction l as [| a | c t l IH] using list_pair_ind; intros xl H.
  - inversion H; subst. apply sound_VI, izero_c.
  - inversion H as [|? xa ? xr Ha Hr]; subst. inversion Hr; subst. reflexivity.
  - inversion H as [|? xc ? xr Hc Hr]; subst. inversion Hr as [|? xt ? xr' Ht Hr']; subst.
    cbn [icondsum xcondsum].
    destruct c as [y| | |]; inv_sound; cbn [sound]; auto.
    destruct (inz y) as [[|]|] eqn:E; [| |exact I]; use_inz E.
    + apply il2_sound; [exact add_c | assumption | apply IH; assumption].
    + apply IH; assumption.
Qed.

Theorem ilinutil_sound l : forall xl, sounds l xl -> sound (ilinutil l) (xlinutil xl).
Proof.
  induction l as [| a | b v l IH] using list_pair_ind; intros xl H.
  - inversion H; subst. apply sound_VI, izero_c.
  - inversion H as [|? xa ? xr Ha Hr]; subst. inversion Hr; subst. reflexivity.
  - inversion H as [|? xb ? xr Hb Hr]; subst. inversion Hr as [|? xv ? xr' Hv Hr']; subst.
    cbn [ilinutil xlinutil].
    apply il2_sound; [exact add_c | | apply IH; assumption].
    apply il2_sound; [exact mul_c | assumption | assumption].
Qed.

(* association lists: same keys, related values *)
Lemma iassoc_rel k keys : forall l xl, sounds l xl ->
  match iassoc k keys l, assoc_Z k keys xl with
  | Some v, Some x => sound v x
  | None, None => True
  | _, _ => False
  end.
Proof.
  induction keys as [|k' keys IH]; intros l xl H.
  - destruct H; exact I.
  - destruct H as [|v x l xl Hv Hl]; cbn [iassoc assoc_Z]; [exact I|].
    destruct (k =? k')%Z; [exact Hv | apply IH; exact Hl].
Qed.

Theorem ielem_sound keys l xl : sounds l xl -> sound (ielem keys l) (xelem keys xl).
Proof.
  intros H. unfold ielem, xelem.
  destruct H as [|k xk l xl Hk Hl]; [reflexivity|].
  destruct k as [ki| | |]; inv_sound; cbn [sound]; auto.
  destruct (iint ki) as [z|] eqn:E; [|exact I].
  match goal with Hc : cont ki ?r |- _ => rewrite (iint_spec _ _ _ E Hc) end.
  rewrite R2Z_IZR.
  pose proof (iassoc_rel z keys l xl Hl) as Hr.
  destruct (iassoc z keys l) as [v|], (assoc_Z z keys xl) as [x|]; try contradiction;
    [|reflexivity].
  destruct v; inv_sound; cbn [sound]; auto.
  apply sound_VI; assumption.
Qed.

Theorem ilogit_den_sound akeys avs xavs :
  sounds avs xavs ->
  forall ukeys us xus, sounds us xus ->
  sound (ilogit_den ukeys us akeys avs) (logit_denominator ukeys xus akeys xavs).
Proof.
  intros Hav. induction ukeys as [|k ks IH]; intros us xus Hus.
  - destruct Hus; cbn [ilogit_den logit_denominator sound]; [apply sound_VI, izero_c | reflexivity].
  - destruct Hus as [|u xu r xr Hu Hr]; cbn [ilogit_den logit_denominator]; [reflexivity|].
    pose proof (iassoc_rel k akeys avs xavs Hav) as Ha.
    destruct (iassoc k akeys avs) as [a|], (assoc_Z k akeys xavs) as [xa|]; try contradiction.
    + destruct a as [y| | |]; inv_sound; cbn [sound]; auto.
      destruct (inz y) as [[|]|] eqn:E; [| |exact I]; use_inz E.
      * apply il2_sound; [exact add_c | | apply IH; assumption].
        destruct u; inv_sound; cbn [lift1 sound]; auto. apply sound_VI, exp_c; assumption.
      * apply IH; assumption.
    + apply IH; assumption.
Qed.

Theorem iloglogit_sound ukeys akeys l xl :
  sounds l xl -> sound (iloglogit ukeys akeys l) (xloglogit ukeys akeys xl).
Proof.
  intros H. unfold iloglogit, xloglogit.
  destruct H as [|c xc rest xrest Hc Hrest]; [reflexivity|].
  destruct c as [ci| | |]; inv_sound; cbn [sound]; auto.
  cbv zeta.
  pose proof (sounds_firstn (List.length ukeys) _ _ Hrest) as Hus.
  pose proof (sounds_skipn (List.length ukeys) _ _ Hrest) as Havs.
  rewrite <- (sounds_length _ _ Havs).
  set (us := firstn (List.length ukeys) rest) in *.
  set (avs := skipn (List.length ukeys) rest) in *.
  set (xus := firstn (List.length ukeys) xrest) in *.
  set (xavs := skipn (List.length ukeys) xrest) in *.
  destruct (negb (Nat.eqb (List.length avs) (List.length akeys))); [reflexivity|].
  destruct (iint ci) as [z|] eqn:E; [|exact I].
  match goal with Hc : cont ci ?r |- _ => rewrite (iint_spec _ _ _ E Hc) end.
  rewrite R2Z_IZR.
  pose proof (iassoc_rel z akeys avs xavs Havs) as Ha.
  pose proof (iassoc_rel z ukeys us xus Hus) as Hu.
  pose proof (ilogit_den_sound akeys avs xavs Havs ukeys us xus Hus) as Hd.
  destruct (iassoc z akeys avs) as [a|], (assoc_Z z akeys xavs) as [xa|]; try contradiction;
    [|reflexivity].
  destruct (iassoc z ukeys us) as [vc|], (assoc_Z z ukeys xus) as [xvc|]; try contradiction.
  - destruct a as [y| | |]; inv_sound; cbn [sound]; auto.
    destruct (inz y) as [[|]|] eqn:Ey; [| |exact I]; use_inz Ey; [|reflexivity].
    destruct vc as [v| | |], (ilogit_den ukeys us akeys avs) as [d| | |]; inv_sound;
      cbn [sound]; auto;
      try (destruct xvc; reflexivity);
      try match goal with |- context [logit_denominator ?a ?b ?c ?d] =>
            destruct (logit_denominator a b c d); try discriminate; reflexivity end.
    match goal with Hd : logit_denominator _ _ _ _ = XR ?r |- _ => rewrite Hd end.
    unfold Rltb'. sign_of Hs.
    destruct (isign d); cbn [sgn_ok] in Hs;
      match goal with |- context [Rlt_dec ?a ?b] => destruct (Rlt_dec a b) end;
      try (exfalso; lra); cbn [sound]; auto.
    apply sound_VI, sub_c; [assumption | apply ln_c; assumption].
  - destruct a; inv_sound; cbn [sound]; auto. destruct xa; reflexivity.
Qed.

(* ------------------------------------------------------------------ BelongsTo, mean *)
Lemma ibelongs_aux_sound x a set b :
  cont x a -> ibelongs_aux x set = Some b -> existsb (fun d => Reqb' a (D2R d)) set = b.
Proof.
  intros Hx. induction set as [|d set IH]; cbn [ibelongs_aux existsb]; intros H.
  - injection H as <-. reflexivity.
  - pose proof (isign_spec _ _ (sub_c _ _ _ _ Hx (I_of_dyadic_correct d))) as Hs.
    unfold Reqb' at 1.
    destruct (isign (I.sub prec x (I_of_dyadic d))); cbn [sgn_ok] in Hs; try discriminate;
      destruct (Req_EM_T a (D2R d)); try (exfalso; lra); cbn [orb].
    + apply IH, H.
    + injection H as <-. reflexivity.
    + apply IH, H.
Qed.

Theorem ibelongs_sound set v x : sound v x -> sound (ibelongs set v) (xbelongs set x).
Proof.
  intros H. unfold ibelongs, xbelongs.
  destruct v as [y| | |]; inv_sound; cbn [sound]; auto.
  destruct (ibelongs_aux y set) as [b|] eqn:E; [|exact I].
  match goal with Hy : cont y ?a |- _ => rewrite (ibelongs_aux_sound _ _ _ _ Hy E) end.
  apply sound_VI, ib_c.
Qed.

Theorem imean_sound l xl : sounds l xl -> sound (imean l) (xmean xl).
Proof.
  intros H. unfold imean, xmean.
  pose proof (sounds_length _ _ H) as Hlen.
  pose proof (isum_sound _ _ H) as Hs.
  destruct H as [|v x l xl Hv Hl]; [reflexivity|].
  set (L := v :: l) in *. set (XL := x :: xl) in *.
  assert (Hn : INR (List.length XL) <> 0).
  { unfold XL. cbn [List.length]. apply not_0_INR. discriminate. }
  rewrite <- Hlen in *. clearbody L XL.
  destruct (isum L) as [s| | |]; inv_sound; cbn [il2 lift2 sound]; auto;
    try match goal with H : xsum _ = _ |- _ => rewrite H end; cbn [lift2]; auto.
  apply sound_VI, div_c; [exact Hn | assumption |].
  rewrite INR_IZR_INZ. apply I_of_Z_c.
Qed.

Section Sound.
  Variable Phi : R -> R.
  Variable PhiI : I.type -> I.type.
  Hypothesis PhiI_correct :
    forall i r, contains (I.convert i) (Xreal r) -> contains (I.convert (PhiI i)) (Xreal (Phi r)).

  Theorem iun_sound op v x : sound v x -> sound (iun PhiI op v) (xun Phi op x).
  Proof.
    intros H. destruct op; cbn [iun xun].
    - apply il1_sound; [exact neg_c | exact H].
    - destruct v; inv_sound; cbn [sound]; auto.
      + apply sound_VI, exp_c; assumption.
      + apply sound_VI, izero_c.
    - destruct v; inv_sound; cbn [sound]; auto. apply ilog_sound; assumption.
    - destruct v as [y| | |]; inv_sound; cbn [sound]; auto.
      destruct (inz y) as [[|]|] eqn:E; [| |exact I]; use_inz E.
      + apply ilog_sound; assumption.
      + apply sound_VI, izero_c.
    - apply il1_sound; [exact sin_c | exact H].
    - apply il1_sound; [exact cos_c | exact H].
    - apply il1_sound; [exact PhiI_correct | exact H].
    - destruct x; try reflexivity.
      (* xun on MonteCarlo / PanelTraj is XNaN whatever the argument *)
    - destruct x; reflexivity.
  Qed.

  (* unfolding equations *)
  Lemma evalI_eq h kids en :
    evalI PhiI (Node h kids) en =
    let vs := map (fun k => evalI PhiI k en) kids in
    match h, vs with
    | HNum d, [] => VI (I_of_dyadic d)
    | HBeta n _, [] => ilook n (d_beta en)
    | HVar n, [] => ilook n (d_var en)
    | HDraws n _, [] => ilook n (d_draw en)
    | HRV n, [] => ilook n (d_rv en)
    | HBin op, [a; b] => ibin op a b
    | HUn MonteCarlo, [_] =>
        match kids with
        | [k] => imean (map (fun d => evalI PhiI k (dwith_draw en d)) (d_draws en))
        | _ => VNaN
        end
    | HUn PanelTraj, [_] =>
        match kids with
        | [k] => match d_rows en with
                 | [] => VNaN
                 | rows => iprod (map (fun r => evalI PhiI k (dwith_row en r)) rows)
                 end
        | _ => VNaN
        end
    | HUn op, [a] => iun PhiI op a
    | HPowC c, [a] => ipowc c a
    | HBelongs s, [a] => ibelongs s a
    | HMultSum, _ => isum vs
    | HCondSum, _ => icondsum vs
    | HElem keys, _ => ielem keys vs
    | HLinUtil, _ => ilinutil vs
    | HLogLogit uk ak, _ => iloglogit uk ak vs
    | _, _ => VNaN
    end.
  Proof. reflexivity. Qed.

  Lemma evalX_eq h kids en :
    evalX Phi (Node h kids) en =
    let vs := map (fun k => evalX Phi k en) kids in
    match h, vs with
    | HNum d, [] => XR (D2R d)
    | HBeta n _, [] => of_opt (e_beta en n)
    | HVar n, [] => of_opt (e_var en n)
    | HDraws n _, [] => of_opt (e_draw en n)
    | HRV n, [] => of_opt (e_rv en n)
    | HBin op, [a; b] => xbin op a b
    | HUn MonteCarlo, [_] =>
        match kids with
        | [k] => xmean (map (fun d => evalX Phi k (with_draw en d)) (e_draws en))
        | _ => XNaN
        end
    | HUn PanelTraj, [_] =>
        match kids with
        | [k] => match e_rows en with
                 | [] => XNaN
                 | rows => xprod (map (fun r => evalX Phi k (with_row en r)) rows)
                 end
        | _ => XNaN
        end
    | HUn op, [a] => xun Phi op a
    | HPowC c, [a] => xpowc c a
    | HBelongs s, [a] => xbelongs s a
    | HMultSum, _ => xsum vs
    | HCondSum, _ => xcondsum vs
    | HElem keys, _ => xelem keys vs
    | HLinUtil, _ => xlinutil vs
    | HLogLogit uk ak, _ => xloglogit uk ak vs
    | _, _ => XNaN
    end.
  Proof. reflexivity. Qed.

  Lemma ilook_sound n l : sound (ilook n l) (of_opt (look l n)).
  Proof.
    unfold ilook, look. destruct (dfind n l) as [d|]; cbn [option_map of_opt sound].
    - apply sound_VI. exact (I_of_dyadic_correct d).
    - reflexivity.
  Qed.

  Lemma env_of_with_draw d x : env_of (dwith_draw d x) = with_draw (env_of d) (look x).
  Proof. reflexivity. Qed.
  Lemma env_of_with_row d x : env_of (dwith_row d x) = with_row (env_of d) (look x).
  Proof. reflexivity. Qed.

  Definition esound (e : expr) : Prop :=
    forall d, sound (evalI PhiI e d) (evalX Phi e (env_of d)).

  Lemma kids_sounds kids d :
    Forall esound kids ->
    sounds (map (fun k => evalI PhiI k d) kids) (map (fun k => evalX Phi k (env_of d)) kids).
  Proof.
    unfold sounds. induction 1; cbn [map]; constructor; auto.
  Qed.

  Lemma draws_sounds k d (l : list dlookup) :
    esound k ->
    sounds (map (fun x => evalI PhiI k (dwith_draw d x)) l)
           (map (fun x => evalX Phi k (with_draw (env_of d) x)) (map look l)).
  Proof.
    intros Hk. unfold sounds. induction l as [|x l IH]; cbn [map]; constructor; [|exact IH].
    rewrite <- env_of_with_draw. apply Hk.
  Qed.

  Lemma rows_sounds k d (l : list dlookup) :
    esound k ->
    sounds (map (fun x => evalI PhiI k (dwith_row d x)) l)
           (map (fun x => evalX Phi k (with_row (env_of d) x)) (map look l)).
  Proof.
    intros Hk. unfold sounds. induction l as [|x l IH]; cbn [map]; constructor; [|exact IH].
    rewrite <- env_of_with_row. apply Hk.
  Qed.

  Theorem evalI_sound : forall e d, sound (evalI PhiI e d) (evalX Phi e (env_of d)).
  Proof.
    induction e as [h kids IH] using expr_ind_strong. intros d.
    rewrite evalI_eq, evalX_eq. cbv zeta.
    pose proof (kids_sounds kids d IH) as Hvs.
    destruct h.
    - (* HNum *) destruct kids; cbn [map]; [apply sound_VI; exact (I_of_dyadic_correct d0) | reflexivity].
    - destruct kids; cbn [map]; [apply ilook_sound | reflexivity].
    - destruct kids; cbn [map]; [apply ilook_sound | reflexivity].
    - destruct kids; cbn [map]; [apply ilook_sound | reflexivity].
    - destruct kids; cbn [map]; [apply ilook_sound | reflexivity].
    - (* HBin *)
      destruct kids as [|a [|b [|c kids]]]; cbn [map] in *; try reflexivity.
      inversion Hvs as [|? ? ? ? Ha Hr]; subst. inversion Hr as [|? ? ? ? Hb Hr']; subst.
      apply ibin_sound; assumption.
    - (* HUn *)
      destruct kids as [|a [|b kids]]; cbn [map] in *; try (destruct op; reflexivity).
      inversion Hvs as [|? ? ? ? Ha Hr]; subst.
      inversion IH as [|? ? Hk _]; subst.
      destruct op; try (apply iun_sound; assumption).
      + (* MonteCarlo *)
        apply imean_sound. cbn [env_of e_draws]. apply draws_sounds; exact Hk.
      + (* PanelTraj *)
        cbn [env_of e_rows].
        destruct (d_rows d) as [|r0 rows]; [reflexivity|].
        cbn [map]. apply iprod_sound. exact (rows_sounds a d (r0 :: rows) Hk).
    - (* HPowC *)
      destruct kids as [|a [|b kids]]; cbn [map] in *; try reflexivity.
      inversion Hvs as [|? ? ? ? Ha Hr]; subst. apply ipowc_sound; assumption.
    - (* HDerive *) destruct kids as [|a [|b kids]]; reflexivity.
    - (* HIntegrate *) destruct kids as [|a [|b kids]]; reflexivity.
    - (* HBelongs *)
      destruct kids as [|a [|b kids]]; cbn [map] in *; try reflexivity.
      inversion Hvs as [|? ? ? ? Ha Hr]; subst. apply ibelongs_sound; assumption.
    - apply isum_sound, Hvs.
    - apply icondsum_sound, Hvs.
    - apply ielem_sound, Hvs.
    - apply ilinutil_sound, Hvs.
    - apply iloglogit_sound, Hvs.
  Qed.
End Sound.

(* ------------------------------------------------------------------ the differ *)
Lemma in_tol_sound i y relbits r :
  in_tol i y relbits = true -> cont i r ->
  Rabs (D2R y - r) <= (Rabs (D2R y) + 1) * powerRZ 2 relbits.
Proof.
  unfold in_tol. cbv zeta. intros H Hi.
  assert (Ht : cont (I.mul prec (I.add prec (I.abs (I_of_dyadic y)) ione)
                            (I.power_int prec (I.fromZ prec 2) relbits))
                     ((Rabs (D2R y) + 1) * powerRZ 2 relbits)).
  { apply mul_c.
    - apply add_c; [apply abs_c; exact (I_of_dyadic_correct y) | exact ione_c].
    - apply power_int_c; [right; lra | exact (fromZ_c 2)]. }
  assert (Hd : cont (I.abs (I.sub prec (I_of_dyadic y) i)) (Rabs (D2R y - r))).
  { apply abs_c, sub_c; [exact (I_of_dyadic_correct y) | assumption]. }
  pose proof (isign_spec _ _ (sub_c _ _ _ _ Ht Hd)) as Hs.
  match type of H with context [isign ?s] => destruct (isign s) end;
    cbn [sgn_ok] in Hs; try discriminate; lra.
Qed.

Theorem judge_agree_sound v y relbits x :
  judge v y relbits = Agree -> sound v x ->
  exists r, x = XR r /\ Rabs (D2R y - r) <= (Rabs (D2R y) + 1) * powerRZ 2 relbits.
Proof.
  unfold judge. destruct v as [i| | |]; try discriminate.
  destruct i as [|l u]; try discriminate.
  destruct (is_huge (Float.Ibnd l u)); try discriminate.
  destruct (in_tol (Float.Ibnd l u) y relbits) eqn:E; try discriminate.
  intros _ Hs. apply sound_VI_inv in Hs. destruct Hs as (r & -> & C).
  exists r. split; [reflexivity | exact (in_tol_sound _ _ _ _ E C)].
Qed.

(* the trivial extension of the normal CDF is correct for every Phi *)
Theorem PhiI_none_correct (Phi : R -> R) :
  forall i r, contains (I.convert i) (Xreal r) ->
              contains (I.convert (PhiI_none i)) (Xreal (Phi r)).
Proof. intros i r _. exact Logic.I. Qed.

Corollary evalI_none_sound (Phi : R -> R) :
  forall e d, sound (evalI PhiI_none e d) (evalX Phi e (env_of d)).
Proof. exact (evalI_sound Phi PhiI_none (PhiI_none_correct Phi)). Qed.

(* end to end: an Agree verdict bounds the distance between the double and the value of evalX *)
Corollary judge_evalI_sound (Phi : R -> R) (PhiI : I.type -> I.type) :
  (forall i r, contains (I.convert i) (Xreal r) -> contains (I.convert (PhiI i)) (Xreal (Phi r))) ->
  forall e d y relbits,
    judge (evalI PhiI e d) y relbits = Agree ->
    exists r, evalX Phi e (env_of d) = XR r /\
              Rabs (D2R y - r) <= (Rabs (D2R y) + 1) * powerRZ 2 relbits.
Proof.
  intros HP e d y relbits H.
  exact (judge_agree_sound _ _ _ _ H (evalI_sound Phi PhiI HP e d)).
Qed.

(* non-vacuity: the differ does answer Agree (1 + 2 against the double 3.0, 2^-30), and
   Differ on a wrong double *)
Example judge_demo :
  judge (evalI PhiI_none (EBin Plus (ENumZ 1) (ENumZ 2)) (mkDenv [] [] [] [] [] []))
        (3, 0)%Z (-30) = Agree
  /\ judge (evalI PhiI_none (EBin Plus (ENumZ 1) (ENumZ 2)) (mkDenv [] [] [] [] [] []))
        (25, -3)%Z (-30) = Differ.
Proof. split; vm_compute; reflexivity. Qed.

Print Assumptions evalI_sound.
Print Assumptions judge_evalI_sound.
