(* The engine rebuilds from the signature the formula Python holds (Model/Sig.v).

   Main results
     decode_signature        (T01a)  wf_dag l -> cond_ids_distinct l -> signature t l = Some ls ->
                                     exists r, resolve t (erase l) = Some r /\ decode ls = Some r
     condsum_shared_refuted  (T01 refuted without cond_ids_distinct: one condition OBJECT used by
                                     two terms of a ConditionalSum -- the engine drops a term)
     signature_defined_erase         whether get_signature succeeds depends on the erased tree only
     sharing_irrelevant      (T01c)  two object graphs of the same formula give the same engine tree

   No axiom. *)
From Coq Require Import Lia.
From BV Require Import Model.PyBase Model.Sig.
Open Scope Z_scope.

Ltac inv H := inversion H; subst; clear H.

(* ================================================================== induction principles *)
Lemma lexpr_ind_strong (P : lexpr -> Prop) :
  (forall i h kids, Forall P kids -> P (LNode i h kids)) -> forall e, P e.
Proof.
  intros H. fix IH 1. intros [i h kids]. apply H.
  induction kids as [|k kids IHk]; constructor; [apply IH | exact IHk].
Qed.

(* ================================================================== evens / odds / pairs *)
Lemma evens_odds_eq {A} (l : list A) :
  (forall x, odds (x :: l) = evens l) /\ (forall a, evens (a :: l) = a :: odds l).
Proof.
  induction l as [|y r [IH1 IH2]]; [split; reflexivity|].
  split; intros z.
  - change (odds (z :: y :: r)) with (y :: odds r). rewrite IH2. reflexivity.
  - change (evens (z :: y :: r)) with (z :: evens r). rewrite IH1. reflexivity.
Qed.

Lemma odds_cons {A} (x : A) l : odds (x :: l) = evens l.
Proof. apply evens_odds_eq. Qed.
Lemma evens_cons {A} (a : A) l : evens (a :: l) = a :: odds l.
Proof. apply evens_odds_eq. Qed.

Lemma Forall2_evens_odds {A B} (P : A -> B -> Prop) l l' :
  Forall2 P l l' -> Forall2 P (evens l) (evens l') /\ Forall2 P (odds l) (odds l').
Proof.
  induction 1 as [|x y l l' Hxy _ [IH1 IH2]]; [split; constructor|].
  rewrite !evens_cons, !odds_cons. split; [constructor; assumption | assumption].
Qed.

Lemma Forall_evens_odds {A} (P : A -> Prop) l :
  Forall P l -> Forall P (evens l) /\ Forall P (odds l).
Proof.
  induction 1 as [|x l Hx _ [IH1 IH2]]; [split; constructor|].
  rewrite evens_cons, odds_cons. split; [constructor; assumption | assumption].
Qed.

Lemma In_evens_odds {A} (k : A) l : In k (evens l ++ odds l) <-> In k l.
Proof.
  induction l as [|x l IH]; [reflexivity|].
  rewrite evens_cons, odds_cons. cbn [app In]. rewrite <- IH, !in_app_iff. tauto.
Qed.

Fixpoint unpairs {A} (p : list (A * A)) : list A :=
  match p with [] => [] | (a, b) :: r => a :: b :: unpairs r end.

Lemma pairs_of_inv {A} (l : list A) p : pairs_of l = Some p -> l = unpairs p.
Proof.
  revert l; induction p as [|[x y] p IH]; intros [|a [|b r]]; cbn [pairs_of]; try discriminate.
  - reflexivity.
  - destruct (pairs_of r); discriminate.
  - destruct (pairs_of r) as [q|] eqn:E; [|discriminate].
    intros [= -> -> ->]. cbn [unpairs]. rewrite (IH r E). reflexivity.
Qed.

Lemma pairs_of_unpairs {A} (p : list (A * A)) : pairs_of (unpairs p) = Some p.
Proof. induction p as [|[x y] p IH]; cbn; [reflexivity | rewrite IH; reflexivity]. Qed.

Lemma flat2_unpairs p : flat2 p = unpairs p.
Proof. induction p as [|[a b] p IH]; cbn; [reflexivity | rewrite IH; reflexivity]. Qed.

Lemma cond_labels_pairs ks p : map lid ks = unpairs p -> cond_labels ks = map fst p.
Proof.
  revert ks; induction p as [|[c t] p IH]; intros ks H.
  - destruct ks; [reflexivity | discriminate].
  - destruct ks as [|a [|b r]]; try discriminate.
    cbn in H. injection H as <- <- H. cbn [cond_labels map fst]. rewrite (IH r H). reflexivity.
Qed.

Lemma dedup_last_id ps : NoDup (map fst ps) -> dedup_last ps = ps.
Proof.
  induction ps as [|[c t] r IH]; cbn [map fst dedup_last]; [reflexivity|].
  intros H. inv H.
  destruct (existsb (fun q => Pos.eqb (fst q) c) r) eqn:E.
  - exfalso. apply existsb_exists in E. destruct E as (q & Hq & E). apply Pos.eqb_eq in E.
    apply H2. rewrite <- E. apply in_map. exact Hq.
  - rewrite IH by assumption. reflexivity.
Qed.

Lemma map_snd_combine {A B} (a : list A) (b : list B) :
  List.length a = List.length b -> map snd (combine a b) = b.
Proof.
  revert b; induction a as [|x a IH]; intros [|y b]; cbn; try discriminate; [reflexivity|].
  intros [= H]. rewrite IH by exact H. reflexivity.
Qed.

Lemma map_fst_combine {A B} (a : list A) (b : list B) :
  List.length a = List.length b -> map fst (combine a b) = a.
Proof.
  revert b; induction a as [|x a IH]; intros [|y b]; cbn; try discriminate; [reflexivity|].
  intros [= H]. rewrite IH by exact H. reflexivity.
Qed.

Lemma Forall2_firstn {A B} (P : A -> B -> Prop) n l l' :
  Forall2 P l l' -> Forall2 P (firstn n l) (firstn n l').
Proof.
  intros H; revert n; induction H; intros [|n]; cbn; constructor; auto.
Qed.

Lemma Forall2_skipn {A B} (P : A -> B -> Prop) n l l' :
  Forall2 P l l' -> Forall2 P (skipn n l) (skipn n l').
Proof.
  intros H; revert n; induction H; intros [|n]; cbn; try constructor; auto.
Qed.

Lemma Forall2_length {A B} (P : A -> B -> Prop) l l' : Forall2 P l l' -> List.length l = List.length l'.
Proof. induction 1; cbn; congruence. Qed.

(* ================================================================== unfolding the nested fixpoints *)
Definition sig_list (t : idtable) : list lexpr -> option (list (list line)) :=
  fix go (l : list lexpr) : option (list (list line)) :=
    match l with
    | [] => Some []
    | k :: r => match signature t k, go r with
                | Some a, Some b => Some (a :: b)
                | _, _ => None
                end
    end.

Definition res_list (t : idtable) : list expr -> option (list expr) :=
  fix go (l : list expr) : option (list expr) :=
    match l with
    | [] => Some []
    | k :: r => match resolve t k, go r with
                | Some a, Some b => Some (a :: b)
                | _, _ => None
                end
    end.

Lemma signature_node t i h ks :
  signature t (LNode i h ks) =
  match sig_list t ks, own_line t (LNode i h ks) with
  | Some per_kid, Some own =>
      Some (List.concat (match h with HLinUtil => evens per_kid ++ odds per_kid | _ => per_kid end)
            ++ [own])
  | _, _ => None
  end.
Proof. reflexivity. Qed.

Lemma resolve_node t h ks :
  resolve t (Node h ks) =
  match resolve_head t h, res_list t ks with
  | Some h', Some ks' => canon_logit h' ks'
  | _, _ => None
  end.
Proof. reflexivity. Qed.

Lemma sig_list_Forall2 t ks pk :
  sig_list t ks = Some pk <-> Forall2 (fun k ls => signature t k = Some ls) ks pk.
Proof.
  revert pk; induction ks as [|k ks IH]; intros pk; cbn [sig_list].
  - split; [intros [= <-]; constructor | intros H; inv H; reflexivity].
  - fold (sig_list t ks). split.
    + destruct (signature t k) as [a|] eqn:Ea; [|discriminate].
      destruct (sig_list t ks) as [b|]; [|discriminate].
      intros [= <-]. constructor; [exact Ea | apply IH; reflexivity].
    + intros H. inv H. rewrite H2. apply IH in H4. rewrite H4. reflexivity.
Qed.

Lemma res_list_Forall2 t ks rs :
  res_list t ks = Some rs <-> Forall2 (fun k r => resolve t k = Some r) ks rs.
Proof.
  revert rs; induction ks as [|k ks IH]; intros rs; cbn [res_list].
  - split; [intros [= <-]; constructor | intros H; inv H; reflexivity].
  - fold (res_list t ks). split.
    + destruct (resolve t k) as [a|] eqn:Ea; [|discriminate].
      destruct (res_list t ks) as [b|]; [|discriminate].
      intros [= <-]. constructor; [exact Ea | apply IH; reflexivity].
    + intros H. inv H. rewrite H2. apply IH in H4. rewrite H4. reflexivity.
Qed.

(* ================================================================== the reader *)
Lemma read_lines_app s l1 l2 last :
  read_lines s (l1 ++ l2) last =
  match read_lines s l1 last with
  | Some (s', last') => read_lines s' l2 last'
  | None => None
  end.
Proof.
  revert s last; induction l1 as [|l l1 IH]; intros s last; cbn [app read_lines]; [reflexivity|].
  destruct (sfind (line_id l) s); [apply IH|].
  destruct (read_line s l); [apply IH | reflexivity].
Qed.

Lemma own_line_id t e ln : own_line t e = Some ln -> line_id ln = lid e.
Proof.
  destruct e as [i h ks]. cbn [lid]. unfold own_line.
  destruct h; repeat match goal with
    | |- context [match ?x with _ => _ end] => destruct x; try discriminate
    end; intros [= <-]; reflexivity.
Qed.

Lemma lsubterms_self e : In e (lsubterms e).
Proof. destruct e; left; reflexivity. Qed.

Lemma lsubterms_kid i h ks k : In k ks -> In k (lsubterms (LNode i h ks)).
Proof.
  intros H. right. apply in_flat_map. exists k. split; [exact H | apply lsubterms_self].
Qed.

Lemma lsubterms_trans a b c : In a (lsubterms b) -> In b (lsubterms c) -> In a (lsubterms c).
Proof.
  intros Hab. induction c as [i h ks IH] using lexpr_ind_strong.
  intros [<-|Hb]; [exact Hab|].
  apply in_flat_map in Hb. destruct Hb as (k & Hk & Hb).
  right. apply in_flat_map. exists k. split; [exact Hk|].
  rewrite Forall_forall in IH. apply IH; assumption.
Qed.

Lemma sfind_all_F2 {A} (f : A -> positive) s ks rs :
  Forall2 (fun k r => sfind (f k) s = Some r) ks rs -> sfind_all (map f ks) s = Some rs.
Proof.
  induction 1 as [|k r ks rs Hk _ IH]; cbn [map sfind_all]; [reflexivity|].
  rewrite Hk, IH. reflexivity.
Qed.

Section Decode.
  Variable t : idtable.

  Definition Rk (k : lexpr) (r : expr) : Prop := resolve t (erase k) = Some r.

  Lemma F2_res s ks rs :
    Forall2 (fun k r => Rk k r /\ sfind (lid k) s = Some r) ks rs ->
    res_list t (map erase ks) = Some rs.
  Proof.
    intros H. apply res_list_Forall2.
    induction H as [|k r ks rs [Hk _] _ IH]; cbn [map]; constructor; assumption.
  Qed.

  Lemma F2_all s ks rs :
    Forall2 (fun k r => Rk k r /\ sfind (lid k) s = Some r) ks rs ->
    sfind_all (map lid ks) s = Some rs.
  Proof.
    intros H. apply sfind_all_F2.
    induction H as [|k r ks rs [_ Hk] _ IH]; constructor; assumption.
  Qed.

  Lemma lit_ids_id b x : lit_ids t b = Some x -> fst (fst x) = lid b.
  Proof.
    unfold lit_ids. destruct (kind_of_head (lhead b)) as [[k n]|]; [|discriminate].
    destruct (ids_of t k n) as [[u c]|]; [|discriminate]. intros [= <-]. reflexivity.
  Qed.

  Lemma lin_terms_ids ps ts : lin_terms t ps = Some ts ->
    flat2 (map (fun x => (fst (fst (fst x)), fst (fst (snd x)))) ts) = map lid (unpairs ps).
  Proof.
    revert ts; induction ps as [|[b v] ps IH]; intros ts; cbn [lin_terms].
    - intros [= <-]. reflexivity.
    - destruct (lit_ids t b) as [x|] eqn:Eb; [|discriminate].
      destruct (lit_ids t v) as [y|] eqn:Ev; [|discriminate].
      destruct (lin_terms t ps) as [rest|]; [|discriminate].
      intros [= <-]. cbn [map flat2 unpairs fst snd].
      rewrite (lit_ids_id _ _ Eb), (lit_ids_id _ _ Ev), (IH rest eq_refl). reflexivity.
  Qed.

  Section Store.
    Variable s : store.
    Let P (k : lexpr) (r : expr) : Prop := Rk k r /\ sfind (lid k) s = Some r.

    Lemma find_key_F2 k ak avs ravs av :
      Forall2 P avs ravs -> find_key k ak avs = Some av ->
      exists rav, find_key k ak ravs = Some rav /\ P av rav.
    Proof.
      intros H; revert ak; induction H as [|a r avs ravs Har _ IH]; intros [|x ak]; cbn [find_key];
        try discriminate.
      destruct (k =? x); [intros [= <-]; eauto | apply IH].
    Qed.

    Lemma logit_alts_spec ak avs ravs : Forall2 P avs ravs ->
      forall uk us rus alts, Forall2 P us rus -> logit_alts uk us ak avs = Some alts ->
      map (fun a => fst (fst a)) alts = uk /\
      sfind_all (map (fun a => snd (fst a)) alts) s = Some rus /\
      exists ravs', pick_all uk ak ravs = Some ravs' /\ sfind_all (map snd alts) s = Some ravs'.
    Proof.
      intros Hav. induction uk as [|k uk IH]; intros us rus alts Hus; cbn [logit_alts pick_all].
      - destruct us; [|discriminate]. inv Hus. intros [= <-]. cbn. eauto.
      - destruct us as [|e us]; [discriminate|].
        inversion Hus as [|? re ? rus' [_ He] Hus']; subst.
        destruct (find_key k ak avs) as [av|] eqn:Ek; [|discriminate].
        destruct (logit_alts uk us ak avs) as [r|] eqn:Er; [|discriminate].
        intros [= <-].
        destruct (find_key_F2 _ _ _ _ _ Hav Ek) as (rav & Ek' & _ & Hrav).
        destruct (IH us rus' r Hus' Er) as (Q1 & Q2 & ravs' & Hp & Hs).
        cbn [map fst snd sfind_all]. rewrite Q1, He, Q2, Ek', Hp, Hrav, Hs. eauto.
    Qed.

    (* the node's own line, read in a store holding its children, denotes the resolved node *)
    Lemma own_line_read i h ks rs ln :
      Forall2 P ks rs ->
      (h = HCondSum -> NoDup (cond_labels ks)) ->
      own_line t (LNode i h ks) = Some ln ->
      exists r, read_line s ln = Some r /\ Rk (LNode i h ks) r.
    Proof.
      intros HF Hc Hown.
      pose proof (F2_res _ _ _ HF) as Hres. pose proof (F2_all _ _ _ HF) as Hall.
      unfold Rk. cbn [erase]. rewrite resolve_node, Hres.
      destruct h; cbn [own_line resolve_head] in *.
      - (* HNum *) destruct ks; [|discriminate]. inv HF. injection Hown as <-.
        eexists; split; reflexivity.
      - (* HBeta *) destruct ks; [|discriminate]. inv HF.
        destruct (ids_of t (if fixed then KFixedBeta else KFreeBeta) name) as [[u c]|]; [|discriminate].
        injection Hown as <-. destruct fixed; eexists; split; reflexivity.
      - (* HVar *) destruct ks; [|discriminate]. inv HF.
        destruct (ids_of t KVar name) as [[u c]|]; [|discriminate].
        injection Hown as <-. eexists; split; reflexivity.
      - (* HDraws *) destruct ks; [|discriminate]. inv HF.
        destruct (ids_of t KDraws name) as [[u c]|]; [|discriminate].
        injection Hown as <-. eexists; split; reflexivity.
      - (* HRV *) destruct ks; [|discriminate]. inv HF.
        destruct (ids_of t KRV name) as [[u c]|]; [|discriminate].
        injection Hown as <-. eexists; split; reflexivity.
      - (* HBin *) destruct ks as [|a [|b [|c ks]]]; try discriminate.
        injection Hown as <-. cbn [read_line map] in Hall |- *. rewrite Hall. eexists; split; reflexivity.
      - (* HUn *) destruct ks as [|a [|b ks]]; try discriminate.
        injection Hown as <-. cbn [read_line map] in Hall |- *. rewrite Hall. eexists; split; reflexivity.
      - (* HPowC *) destruct ks as [|a [|b ks]]; try discriminate.
        injection Hown as <-. inv HF. inv H3. destruct H1 as [_ Ha].
        cbn [read_line]. rewrite Ha. eexists; split; reflexivity.
      - (* HDerive *) destruct ks as [|a [|b ks]]; try discriminate.
        destruct (index_of name (all_names t)) as [u|]; [|discriminate].
        injection Hown as <-. inv HF. inv H3. destruct H1 as [_ Ha].
        cbn [read_line]. rewrite Ha. eexists; split; reflexivity.
      - (* HIntegrate *) destruct ks as [|a [|b ks]]; try discriminate.
        destruct (index_of name (t_rv t)) as [u|]; [|discriminate].
        injection Hown as <-. inv HF. inv H3. destruct H1 as [_ Ha].
        cbn [read_line]. rewrite Ha. eexists; split; reflexivity.
      - (* HBelongs *) destruct ks as [|a [|b ks]]; try discriminate.
        injection Hown as <-. inv HF. inv H3. destruct H1 as [_ Ha].
        cbn [read_line]. rewrite Ha. eexists; split; reflexivity.
      - (* HMultSum *)
        assert (E : ln = LGen i HMultSum (map lid ks)) by (destruct ks; congruence).
        subst ln. cbn [read_line]. rewrite Hall. eexists; split; reflexivity.
      - (* HCondSum *)
        assert (E : match pairs_of (map lid ks) with Some p => Some (LCond i p) | None => None end = Some ln)
          by (destruct ks; exact Hown).
        clear Hown. destruct (pairs_of (map lid ks)) as [p|] eqn:Ep; [|discriminate].
        injection E as <-. apply pairs_of_inv in Ep.
        cbn [read_line]. rewrite dedup_last_id.
        + rewrite flat2_unpairs, <- Ep, Hall. eexists; split; reflexivity.
        + rewrite <- (cond_labels_pairs _ _ Ep). apply Hc. reflexivity.
      - (* HElem *)
        destruct ks as [|key entries]; [discriminate|].
        destruct (Nat.eqb (List.length keys) (List.length entries)) eqn:El; [|discriminate].
        apply Nat.eqb_eq in El. injection Hown as <-.
        inv HF. destruct H1 as [_ Hk]. cbn [map] in Hall.
        cbn [read_line]. rewrite Hk.
        rewrite map_snd_combine, map_fst_combine by (rewrite ?map_length; exact El).
        cbn [sfind_all] in Hall. rewrite Hk in Hall.
        destruct (sfind_all (map lid entries) s) as [es|]; [|discriminate].
        injection Hall as <-. eexists; split; reflexivity.
      - (* HLinUtil *)
        assert (E : match pairs_of ks with
                    | Some ps => match lin_terms t ps with Some ts => Some (LLin i ts) | None => None end
                    | None => None end = Some ln) by (destruct ks; exact Hown).
        clear Hown. destruct (pairs_of ks) as [ps|] eqn:Ep; [|discriminate].
        destruct (lin_terms t ps) as [ts|] eqn:Et; [|discriminate].
        injection E as <-. apply pairs_of_inv in Ep.
        cbn [read_line]. rewrite (lin_terms_ids _ _ Et), <- Ep, Hall. eexists; split; reflexivity.
      - (* HLogLogit *)
        destruct ks as [|choice rest]; [discriminate|].
        destruct (negb (Nat.eqb (List.length (firstn (List.length ukeys) rest)) (List.length ukeys))
                  || negb (Nat.eqb (List.length (skipn (List.length ukeys) rest)) (List.length akeys)));
          [discriminate|].
        destruct (logit_alts ukeys (firstn (List.length ukeys) rest) akeys
                             (skipn (List.length ukeys) rest)) as [alts|] eqn:Ea; [|discriminate].
        injection Hown as <-. inv HF. destruct H1 as [_ Hc'].
        pose proof (Forall2_firstn P (List.length ukeys) _ _ H3) as Hus.
        pose proof (Forall2_skipn P (List.length ukeys) _ _ H3) as Hav.
        destruct (logit_alts_spec _ _ _ Hav _ _ _ _ Hus Ea) as (H1 & H2 & ravs' & Hp & Hs).
        cbn [read_line]. rewrite Hc', H2, Hs, H1.
        cbn [canon_logit]. rewrite Hp. eexists; split; reflexivity.
    Qed.
  End Store.

  (* ================================================================ the store invariant *)
  Section Root.
    Variable root : lexpr.
    Hypothesis Hwf : wf_dag root.
    Hypothesis Hcond : cond_ids_distinct root.

    (* labels already in the store denote the right sub-tree *)
    Definition good (s : store) : Prop :=
      forall i e, sfind i s = Some e ->
      forall sub, In sub (lsubterms root) -> lid sub = i -> Rk sub e.

    Definition ext (s s' : store) : Prop := forall i e, sfind i s = Some e -> sfind i s' = Some e.

    Definition node_ok (sub : lexpr) : Prop :=
      In sub (lsubterms root) ->
      forall s ls last, good s -> signature t sub = Some ls ->
      exists s' r, read_lines s ls last = Some (s', Some r) /\ Rk sub r /\
                   good s' /\ ext s s' /\ sfind (lid sub) s' = Some r.

    Lemma kids_ok ks pk :
      Forall node_ok ks -> (forall k, In k ks -> In k (lsubterms root)) ->
      Forall2 (fun k ls => signature t k = Some ls) ks pk ->
      forall s last, good s ->
      exists s' last', read_lines s (List.concat pk) last = Some (s', last') /\ good s' /\ ext s s' /\
        forall k, In k ks -> exists r, Rk k r /\ sfind (lid k) s' = Some r.
    Proof.
      intros Hok Hin HF. induction HF as [|k ls ks pk Hk _ IH]; intros s last Hg.
      - exists s, last. cbn. repeat split; [exact Hg | intros ? ? H; exact H | intros ? []].
      - inv Hok. cbn [List.concat]. rewrite read_lines_app.
        destruct (H1 (Hin k (or_introl eq_refl)) s ls last Hg Hk) as (s1 & r1 & E1 & Hr1 & Hg1 & Hx1 & Hf1).
        rewrite E1.
        destruct (IH H2 (fun k' H' => Hin k' (or_intror H')) s1 (Some r1) Hg1)
          as (s2 & last2 & E2 & Hg2 & Hx2 & Hall).
        exists s2, last2. repeat split; [exact E2 | exact Hg2 | |].
        + intros j e H. apply Hx2, Hx1, H.
        + intros k' [<-|Hk']; [|apply Hall; exact Hk'].
          exists r1. split; [exact Hr1 | apply Hx2; exact Hf1].
    Qed.

    Lemma collect_F2 (s : store) ks :
      (forall k, In k ks -> exists r, Rk k r /\ sfind (lid k) s = Some r) ->
      exists rs, Forall2 (fun k r => Rk k r /\ sfind (lid k) s = Some r) ks rs.
    Proof.
      induction ks as [|k ks IH]; intros H; [exists []; constructor|].
      destruct (H k (or_introl eq_refl)) as (r & Hr).
      destruct (IH (fun k' H' => H k' (or_intror H'))) as (rs & Hrs).
      exists (r :: rs). constructor; assumption.
    Qed.

    Lemma node_ok_all sub : node_ok sub.
    Proof.
      induction sub as [i h ks IH] using lexpr_ind_strong.
      intros Hin s ls last Hg Hsig.
      rewrite signature_node in Hsig.
      destruct (sig_list t ks) as [pk|] eqn:Epk; [|discriminate].
      destruct (own_line t (LNode i h ks)) as [own|] eqn:Eown; [|discriminate].
      injection Hsig as <-. apply sig_list_Forall2 in Epk.
      assert (Hkin : forall k, In k ks -> In k (lsubterms root)).
      { intros k Hk. eapply lsubterms_trans; [|exact Hin]. apply lsubterms_kid. exact Hk. }
      (* the children, in the order their signatures are concatenated *)
      assert (Hkids : exists s1 last1,
                 read_lines s (List.concat (match h with HLinUtil => evens pk ++ odds pk | _ => pk end)) last
                 = Some (s1, last1) /\ good s1 /\ ext s s1 /\
                 forall k, In k ks -> exists r, Rk k r /\ sfind (lid k) s1 = Some r).
      { assert (Hlin : exists s1 last1,
                 read_lines s (List.concat (evens pk ++ odds pk)) last = Some (s1, last1) /\ good s1 /\
                 ext s s1 /\ forall k, In k ks -> exists r, Rk k r /\ sfind (lid k) s1 = Some r).
        { destruct (Forall2_evens_odds _ _ _ Epk) as [He Ho].
          destruct (Forall_evens_odds _ _ IH) as [Ie Io].
          destruct (kids_ok (evens ks ++ odds ks) (evens pk ++ odds pk)) with (s := s) (last := last)
            as (s1 & last1 & E1 & Hg1 & Hx1 & Hall).
          - apply Forall_app. split; assumption.
          - intros k Hk. apply Hkin. apply In_evens_odds. exact Hk.
          - apply Forall2_app; assumption.
          - exact Hg.
          - exists s1, last1. repeat split; try assumption.
            intros k Hk. apply Hall. apply In_evens_odds. exact Hk. }
        destruct h; try exact (kids_ok ks pk IH Hkin Epk s last Hg). exact Hlin. }
      destruct Hkids as (s1 & last1 & E1 & Hg1 & Hx1 & Hall).
      destruct (collect_F2 s1 ks Hall) as (rs & HF).
      rewrite read_lines_app, E1.
      destruct (own_line_read s1 i h ks rs own HF) as (r & Hread & Hr).
      { intros ->. apply (Hcond (LNode i HCondSum ks) Hin). reflexivity. }
      { exact Eown. }
      cbn [read_lines]. rewrite (own_line_id _ _ _ Eown). cbn [lid].
      destruct (sfind i s1) as [e|] eqn:Ei.
      - (* the node was already met: first definition wins, and it is the right one *)
        pose proof (Hg1 i e Ei (LNode i h ks) Hin eq_refl) as He. unfold Rk in He, Hr.
        assert (e = r) by congruence. subst e.
        exists s1, r. repeat split; assumption.
      - rewrite Hread. exists ((i, r) :: s1), r. repeat split.
        + exact Hr.
        + intros j e Hj sub' Hsub' Hl. cbn [sfind] in Hj.
          destruct (Pos.eqb_spec j i) as [->|Hne].
          * injection Hj as <-.
            assert (sub' = LNode i h ks) as -> by (apply Hwf; [exact Hsub' | exact Hin | exact Hl]).
            exact Hr.
          * exact (Hg1 j e Hj sub' Hsub' Hl).
        + intros j e Hj. apply Hx1 in Hj. cbn [sfind].
          destruct (Pos.eqb_spec j i) as [->|Hne]; [congruence | exact Hj].
        + cbn [sfind]. rewrite Pos.eqb_refl. reflexivity.
    Qed.
  End Root.

  (* T01a decode_signature *)
  Theorem decode_signature l ls :
    wf_dag l -> cond_ids_distinct l -> signature t l = Some ls ->
    exists r, resolve t (erase l) = Some r /\ decode ls = Some r.
  Proof.
    intros Hwf Hc Hs.
    destruct (node_ok_all l Hwf Hc l (lsubterms_self l) [] ls None) as (s' & r & E & Hr & _).
    - intros i e H. discriminate.
    - exact Hs.
    - exists r. split; [exact Hr|]. unfold decode. rewrite E. reflexivity.
  Qed.

  (* ================================================================ success depends on the erased tree *)
  Definition same_head (a b : lexpr) : Prop := lhead a = lhead b.

  Lemma erase_same_head a b : erase a = erase b -> same_head a b.
  Proof. destruct a, b; cbn. intros [= -> _]. reflexivity. Qed.

  Lemma pairs_of_some_len {A B} (l : list A) (l' : list B) p :
    List.length l = List.length l' -> pairs_of l = Some p -> exists p', pairs_of l' = Some p'.
  Proof.
    intros Hl Hp. apply pairs_of_inv in Hp. subst l. revert l' Hl.
    induction p as [|[x y] p IH]; intros l' Hl.
    - destruct l'; [exists []; reflexivity | discriminate].
    - destruct l' as [|a [|b r]]; try discriminate. cbn in Hl.
      destruct (IH r) as [q Hq]; [lia|]. cbn [pairs_of]. rewrite Hq. eauto.
  Qed.

  Lemma lit_ids_same a b x : same_head a b -> lit_ids t a = Some x -> exists y, lit_ids t b = Some y.
  Proof.
    unfold lit_ids, same_head. intros <-.
    destruct (kind_of_head (lhead a)) as [[k n]|]; [|discriminate].
    destruct (ids_of t k n) as [[u c]|]; [|discriminate]. eauto.
  Qed.

  Lemma lin_terms_same ps ps' ts :
    Forall2 same_head (unpairs ps) (unpairs ps') -> lin_terms t ps = Some ts ->
    exists ts', lin_terms t ps' = Some ts'.
  Proof.
    revert ps' ts; induction ps as [|[b v] ps IH]; intros [|[b' v'] ps'] ts H; cbn [unpairs] in H;
      try (inv H; fail).
    - eauto.
    - inversion H as [|? ? ? ? Hb H']; subst. inversion H' as [|? ? ? ? Hv H'']; subst. cbn [lin_terms].
      destruct (lit_ids t b) as [x|] eqn:Eb; [|discriminate].
      destruct (lit_ids t v) as [y|] eqn:Ev; [|discriminate].
      destruct (lin_terms t ps) as [rest|] eqn:Er; [|discriminate]. intros _.
      destruct (lit_ids_same _ _ _ Hb Eb) as [x' ->].
      destruct (lit_ids_same _ _ _ Hv Ev) as [y' ->].
      destruct (IH ps' rest H'' eq_refl) as [r' ->]. eauto.
  Qed.

  Lemma find_key_some_len {A B} k keys (vals : list A) (vals' : list B) v :
    List.length vals = List.length vals' -> find_key k keys vals = Some v ->
    exists v', find_key k keys vals' = Some v'.
  Proof.
    revert vals vals'; induction keys as [|a keys IH]; intros [|x vals] [|x' vals'] Hl;
      cbn [find_key]; try discriminate.
    destruct (k =? a); [eauto|]. apply IH. cbn in Hl. lia.
  Qed.

  Lemma logit_alts_some_len uk ak (us us' avs avs' : list lexpr) alts :
    List.length us = List.length us' -> List.length avs = List.length avs' ->
    logit_alts uk us ak avs = Some alts -> exists alts', logit_alts uk us' ak avs' = Some alts'.
  Proof.
    intros Hu Ha. revert us us' Hu alts. induction uk as [|k uk IH]; intros [|e us] [|e' us'] Hu alts;
      cbn [logit_alts]; try discriminate; [eauto|].
    destruct (find_key k ak avs) as [av|] eqn:Ek; [|discriminate].
    destruct (logit_alts uk us ak avs) as [r|] eqn:Er; [|discriminate]. intros _.
    destruct (find_key_some_len _ _ _ avs' _ Ha Ek) as [av' ->].
    destruct (IH us us' ltac:(cbn in Hu; lia) r Er) as [r' ->]. eauto.
  Qed.

  Lemma own_line_some_erase i j h ks ks' ln :
    Forall2 same_head ks ks' ->
    own_line t (LNode i h ks) = Some ln -> exists ln', own_line t (LNode j h ks') = Some ln'.
  Proof.
    intros HF Hown. pose proof (Forall2_length _ _ _ HF) as Hlen.
    destruct h; cbn [own_line] in *.
    - destruct ks; [|discriminate]. inv HF. eauto.
    - destruct ks; [|discriminate]. inv HF.
      destruct (ids_of t _ name) as [[u c]|]; [eauto | discriminate].
    - destruct ks; [|discriminate]. inv HF.
      destruct (ids_of t _ name) as [[u c]|]; [eauto | discriminate].
    - destruct ks; [|discriminate]. inv HF.
      destruct (ids_of t _ name) as [[u c]|]; [eauto | discriminate].
    - destruct ks; [|discriminate]. inv HF.
      destruct (ids_of t _ name) as [[u c]|]; [eauto | discriminate].
    - destruct ks as [|a [|b [|c ks]]]; try discriminate. inv HF. inv H3. inv H5. eauto.
    - destruct ks as [|a [|b ks]]; try discriminate. inv HF. inv H3. eauto.
    - destruct ks as [|a [|b ks]]; try discriminate. inv HF. inv H3. eauto.
    - destruct ks as [|a [|b ks]]; try discriminate. inv HF. inv H3.
      destruct (index_of name (all_names t)); [eauto | discriminate].
    - destruct ks as [|a [|b ks]]; try discriminate. inv HF. inv H3.
      destruct (index_of name (t_rv t)); [eauto | discriminate].
    - destruct ks as [|a [|b ks]]; try discriminate. inv HF. inv H3. eauto.
    - destruct ks'; eauto.
    - assert (E : exists p, pairs_of (map lid ks) = Some p).
      { destruct (pairs_of (map lid ks)) as [p|]; [eauto | destruct ks; discriminate]. }
      destruct E as [p Ep].
      assert (Hl2 : List.length (map lid ks) = List.length (map lid ks')) by (rewrite !map_length; exact Hlen).
      destruct (pairs_of_some_len (map lid ks) (map lid ks') p Hl2 Ep) as [p' Ep'].
      exists (LCond j p'). destruct ks'; cbn [map] in *; rewrite Ep'; reflexivity.
    - destruct ks as [|key entries]; [discriminate|]. inv HF.
      destruct (Nat.eqb (List.length keys) (List.length entries)) eqn:El; [|discriminate].
      apply Forall2_length in H3. rewrite H3 in El. rewrite El. eauto.
    - assert (E : exists ps ts, pairs_of ks = Some ps /\ lin_terms t ps = Some ts).
      { destruct (pairs_of ks) as [ps|] eqn:Ep; [|destruct ks; discriminate].
        destruct (lin_terms t ps) as [ts|] eqn:Et; [exists ps, ts; split; [reflexivity | exact Et] | destruct ks; discriminate]. }
      destruct E as (ps & ts & Ep & Et).
      destruct (pairs_of_some_len _ ks' _ Hlen Ep) as [ps' Ep'].
      pose proof (pairs_of_inv _ _ Ep) as E1. pose proof (pairs_of_inv _ _ Ep') as E2.
      rewrite E1, E2 in HF.
      destruct (lin_terms_same _ _ _ HF Et) as [ts' Et'].
      exists (LLin j ts'). destruct ks'; rewrite Ep', Et'; reflexivity.
    - destruct ks as [|choice rest]; [discriminate|]. inv HF.
      pose proof (Forall2_length _ _ _ (Forall2_firstn _ (List.length ukeys) _ _ H3)) as L1.
      pose proof (Forall2_length _ _ _ (Forall2_skipn _ (List.length ukeys) _ _ H3)) as L2.
      rewrite <- L1, <- L2.
      destruct (_ || _); [discriminate|].
      destruct (logit_alts ukeys _ akeys _) as [alts|] eqn:Ea; [|discriminate].
      destruct (logit_alts_some_len _ _ _ _ _ _ _ L1 L2 Ea) as [alts' ->]. eauto.
  Qed.

  Lemma signature_some_erase l1 : forall l2 ls1,
    erase l1 = erase l2 -> signature t l1 = Some ls1 -> exists ls2, signature t l2 = Some ls2.
  Proof.
    induction l1 as [i h ks IH] using lexpr_ind_strong. intros [j h' ks'] ls1 He Hs.
    cbn [erase] in He. injection He as <- Hk.
    rewrite signature_node in *.
    destruct (sig_list t ks) as [pk|] eqn:Epk; [|discriminate].
    destruct (own_line t (LNode i h ks)) as [own|] eqn:Eown; [|discriminate].
    assert (HF : Forall2 (fun a b => erase a = erase b) ks ks').
    { clear -Hk. revert ks' Hk; induction ks as [|a ks IHk]; intros [|b ks'] H; try discriminate;
        constructor; cbn in H; [congruence | apply IHk; congruence]. }
    assert (Hpk : exists pk', sig_list t ks' = Some pk').
    { apply sig_list_Forall2 in Epk. clear -IH HF Epk. revert pk Epk.
      induction HF as [|a b ks ks' Hab _ IHF]; intros pk Epk.
      - exists []. reflexivity.
      - inv Epk. inv IH. destruct (H2 b _ Hab H1) as [lb Hb].
        destruct (IHF H4 _ H3) as [pk' Hpk']. exists (lb :: pk').
        cbn [sig_list]. fold (sig_list t ks'). rewrite Hb, Hpk'. reflexivity. }
    destruct Hpk as [pk' ->].
    destruct (own_line_some_erase i j h ks ks' own) as [own' ->]; [|exact Eown | eauto].
    clear -HF. induction HF; constructor; [apply erase_same_head; assumption | assumption].
  Qed.

  (* whether get_signature raises depends on the formula, not on the sharing *)
  Theorem signature_defined_erase l1 l2 :
    erase l1 = erase l2 -> (signature t l1 = None <-> signature t l2 = None).
  Proof.
    intros He. split; intros H.
    - destruct (signature t l2) as [ls|] eqn:E; [|reflexivity].
      destruct (signature_some_erase l2 l1 ls (eq_sym He) E) as [? ?]. congruence.
    - destruct (signature t l1) as [ls|] eqn:E; [|reflexivity].
      destruct (signature_some_erase l1 l2 ls He E) as [? ?]. congruence.
  Qed.

  (* what the engine holds after reading the signature of an object graph *)
  Definition engine_tree (l : lexpr) : option expr :=
    match signature t l with Some ls => decode ls | None => None end.

  Theorem engine_tree_resolve l : wf_dag l -> cond_ids_distinct l ->
    engine_tree l = match signature t l with Some _ => resolve t (erase l) | None => None end.
  Proof.
    intros Hw Hc. unfold engine_tree. destruct (signature t l) as [ls|] eqn:E; [|reflexivity].
    destruct (decode_signature l ls Hw Hc E) as (r & -> & ->). reflexivity.
  Qed.

  (* T01c sharing_irrelevant: two object graphs of one formula (whatever is shared between the
     parents) are the same formula for the engine *)
  Theorem sharing_irrelevant l1 l2 :
    erase l1 = erase l2 ->
    wf_dag l1 -> cond_ids_distinct l1 -> wf_dag l2 -> cond_ids_distinct l2 ->
    engine_tree l1 = engine_tree l2.
  Proof.
    intros He W1 C1 W2 C2. rewrite !engine_tree_resolve by assumption.
    pose proof (signature_defined_erase l1 l2 He) as Hd. rewrite He.
    destruct (signature t l1), (signature t l2); try reflexivity.
    - discriminate (proj2 Hd eq_refl).
    - discriminate (proj1 Hd eq_refl).
  Qed.
End Decode.

(* ================================================================== the hypothesis is necessary *)
(* ConditionalSum [(c, 2); (c, 3)] where the two terms use the SAME condition object c (label 1):
   Python's formula has two terms, the engine keeps only the last one. *)
Definition shared_cond_example : lexpr :=
  let c := LNode 1 (HNum (1, 0)) [] in
  LNode 4 HCondSum [c; LNode 2 (HNum (2, 0)) []; c; LNode 3 (HNum (3, 0)) []].

Definition empty_table : idtable := mkId [] [] [] [] [].

Lemma shared_cond_example_wf : wf_dag shared_cond_example.
Proof.
  unfold wf_dag. cbn. intros a b Ha Hb.
  repeat (destruct Ha as [<-|Ha]; [|]); try contradiction;
  repeat (destruct Hb as [<-|Hb]; [|]); try contradiction; cbn; intros H; try reflexivity; discriminate.
Qed.

Theorem condsum_shared_refuted :
  exists t l ls, wf_dag l /\ signature t l = Some ls /\
    resolve t (erase l) =
      Some (Node HCondSum [ENumZ 1; ENumZ 2; ENumZ 1; ENumZ 3]) /\
    decode ls = Some (Node HCondSum [ENumZ 1; ENumZ 3]).
Proof.
  exists empty_table, shared_cond_example.
  eexists. split; [exact shared_cond_example_wf|].
  split; [vm_compute; reflexivity|]. split; vm_compute; reflexivity.
Qed.

Corollary decode_signature_needs_cond_ids_distinct :
  ~ (forall t l ls, wf_dag l -> signature t l = Some ls ->
       exists r, resolve t (erase l) = Some r /\ decode ls = Some r).
Proof.
  intros H. destruct condsum_shared_refuted as (t & l & ls & Hw & Hs & Hr & Hd).
  destruct (H t l ls Hw Hs) as (r & E1 & E2). rewrite Hr in E1. rewrite Hd in E2.
  injection E1 as <-. discriminate.
Qed.

(* non-vacuity of T01a/T01c: a DAG sharing one sub-formula between two parents *)
Example sharing_example :
  let t := mkId ["b"%string] [] [] [] ["x"%string] in
  let sh := LNode 1 (HBin Times) [LNode 2 (HBeta "b" false) []; LNode 3 (HVar "x") []] in
  let shared := LNode 5 (HBin Plus) [sh; LNode 4 (HUn Exp) [sh]] in
  let sh' := LNode 11 (HBin Times) [LNode 12 (HBeta "b" false) []; LNode 13 (HVar "x") []] in
  let unshared := LNode 5 (HBin Plus) [sh; LNode 4 (HUn Exp) [sh']] in
  erase shared = erase unshared /\
  engine_tree t shared = engine_tree t unshared /\
  engine_tree t shared <> None.
Proof. vm_compute. repeat split. discriminate. Qed.

(* ------------------------------------------------------------------ assumptions *)
Print Assumptions decode_signature.
Print Assumptions condsum_shared_refuted.
Print Assumptions decode_signature_needs_cond_ids_distinct.
Print Assumptions signature_defined_erase.
Print Assumptions sharing_irrelevant.
