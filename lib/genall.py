"""Regenerate all Gen/*.v files (tie A) without building or checking."""
import importlib, pkgutil, sys, traceback
sys.path.insert(0, '/verif/lib')
from common import Ctx
import props
for m in sorted(x.name for x in pkgutil.iter_modules(props.__path__)):
    mod = importlib.import_module(f'props.{m}')
    g = getattr(mod, 'gen_all', None)
    if g is None:
        continue
    ctx = Ctx(m, 'quick', 0)
    try:
        g(ctx)
        print(f'gen {m}: ok')
    except Exception as e:  # reported properly by ./check <id>
        print(f'gen {m}: {type(e).__name__}: {e}')
    finally:
        import shutil
        shutil.rmtree(ctx.scratch, ignore_errors=True)
