"""check_values: compare doubles produced by the implementation with proved interval enclosures of the
mathematical value [evalX] computed inside Coq by [evalI] (rocq/Model/EvalI.v, soundness in
rocq/Proofs/EvalIP.v).  Floats never meet floats: the observed double is sent as an exact dyadic
and the membership test (with a relative tolerance 2^relbits * max(|y|, 1)) runs in Coq.

    verdicts = check_values(ctx, 'stream', cases, relbits=-30)

    case = {'expr': <json rose tree from impl/bio_bridge.expr_to_json>,
            'env': {'beta': {name: float}, 'var': {name: float}, 'draw': {...}, 'rv': {...},
                    'draws': [ {name: float}, ... ], 'rows': [ {name: float}, ... ]},
            'observed': float | 'minf' | 'error'}

    verdict in {'agree', 'differ', 'undecided'}  with detail in the second component:
      ('agree', ...)      the double lies in the enclosure (or both sides say -inf / error)
      ('differ', info)    it does not; info has the model's enclosure
      ('undecided', why)  the interval evaluator could not decide (comparison of overlapping
                          enclosures, domain test not settled, normal CDF) -- not counted as a check
"""
import math
import re

from bridge import json_to_coq, cz
from common import coq_string


def dyadic(x):
    x = float(x)
    if x == 0:
        return (0, 0)
    n, d = x.as_integer_ratio()
    e = -(d.bit_length() - 1)
    while n % 2 == 0:
        n //= 2
        e += 1
    return (n, e)


def coq_dy(x):
    m, e = dyadic(x)
    return f'({cz(m)}, {cz(e)})'


def coq_lookup(d):
    return '[' + '; '.join(f'({coq_string(k)}, {coq_dy(v)})' for k, v in (d or {}).items()) + ']'


def coq_env(env):
    env = env or {}
    return ('(mkDenv ' + coq_lookup(env.get('beta')) + ' ' + coq_lookup(env.get('var')) + ' '
            + coq_lookup(env.get('draw')) + ' ' + coq_lookup(env.get('rv')) + ' ['
            + '; '.join(coq_lookup(x) for x in env.get('draws') or []) + '] ['
            + '; '.join(coq_lookup(x) for x in env.get('rows') or []) + '])')


HEADER = ('From BV Require Import Model.Expr Model.EvalI Model.PhiI.\n'
          'Open Scope Z_scope. Open Scope string_scope.\n')


def _finite(x):
    return isinstance(x, (int, float)) and math.isfinite(x)


def check_values(ctx, stream, cases, relbits=-30, batch=150, phi='PhiI_series', strict_nan=False):
    """strict_nan: when the model says 'outside the domain', demand that the implementation failed too
    (used for the missing-data rule); otherwise nothing is claimed about such cases."""
    files = {}
    for b in range(0, len(cases), batch):
        items = []
        for c in cases[b:b + batch]:
            y = c['observed'] if _finite(c['observed']) else 0.0
            items.append(f'(judge (evalI {phi} {json_to_coq(c["expr"])} {coq_env(c.get("env"))}) {coq_dy(y)} ({relbits}))')
        files[f'{stream}_v{b // batch}'] = HEADER + 'Eval vm_compute in [\n' + ';\n'.join(items) + '].\n'
    outs = ctx.coq_eval_many(files)
    verdicts = []
    for b in range(0, len(cases), batch):
        ok, out = outs[f'{stream}_v{b // batch}']
        n = len(cases[b:b + batch])
        toks = re.findall(r'\b(Agree|Differ|Undecided|ModelNaN|ModelMInf|Huge)\b', out) if ok else []
        if len(toks) != n:
            raise RuntimeError(f'check_values: model evaluation failed for {stream} batch {b // batch}: {out[-800:]}')
        for c, t in zip(cases[b:b + batch], toks):
            obs = c['observed']
            if t == 'Undecided':
                verdicts.append(('undecided', 'interval evaluator undecided'))
            elif t == 'Huge':
                verdicts.append(('undecided', 'value beyond 2^200 (overflow range)'))
            elif t == 'ModelMInf':
                verdicts.append(('agree', 'both -inf') if (obs == 'minf' or obs == float('-inf')) else
                                ('differ', {'model': '-inf', 'observed': obs}))
            elif t == 'ModelNaN':
                if obs == 'error' or (isinstance(obs, float) and math.isnan(obs)):
                    verdicts.append(('agree', 'both outside the domain'))
                elif strict_nan:
                    verdicts.append(('differ', {'model': 'outside the domain (NaN)', 'observed': obs}))
                else:
                    verdicts.append(('undecided', 'outside the regular domain according to the model: nothing claimed'))
            elif not _finite(obs):
                verdicts.append(('differ', {'model': 'a finite real', 'observed': obs}))
            elif t == 'Agree':
                verdicts.append(('agree', ''))
            else:
                verdicts.append(('differ', {'model': None, 'observed': obs}))
    # second pass: enclosures of the differing cases (for the report)
    bad = [i for i, v in enumerate(verdicts) if v[0] == 'differ' and isinstance(v[1], dict) and v[1].get('model') is None]
    if bad:
        items = [f'(match evalI {phi} {json_to_coq(cases[i]["expr"])} {coq_env(cases[i].get("env"))} with '
                 f'VI i => Some (F.toF (I.lower i), F.toF (I.upper i)) | _ => None end)' for i in bad[:20]]
        ok, out = ctx.coq_eval(f'{stream}_encl', HEADER + 'Set Printing Width 100000.\n' + ''.join(
            f'Eval vm_compute in {it}.\n' for it in items))
        encl = re.findall(r'= (Some\s*\(.*?\)|None)\s*:\s*option', ' '.join(out.split()))
        for i, e in zip(bad[:20], encl):
            verdicts[i] = ('differ', {'model_enclosure': parse_encl(e), 'observed': cases[i]['observed']})
    return verdicts


def parse_encl(s):
    fl = re.findall(r'Basic\.Float (true|false) (\d+) \(?(-?\d+)\)?|(Fzero)', s)
    out = []
    for neg, m, e, z in fl:
        if z:
            out.append(0.0)
        else:
            try:
                out.append((-1 if neg == 'true' else 1) * math.ldexp(int(m), int(e)))
            except OverflowError:
                out.append(float('inf'))
    return out
