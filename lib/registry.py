"""Which properties are claimed, with the level text shown in MANIFEST.json."""
KERNEL = ('Trusted: Coq 8.16.1 kernel (full .vo build, vm_compute, no native_compute); axioms as reported by Print '
          'Assumptions in the evidence file; ')

CLAIMED = {
    'C14': {
        'technique': 'Rocq proof over a model regenerated from source (tie A) + correspondence (tie B)',
        'text': ('Theorems in Rocq, for every directory content / every history of output generation: '
                 'get_new_file_name (translated from filenames.py on every run) terminates and returns the least free '
                 'candidate name, hence a name that does not exist; no history of writes through it ever changes an '
                 'existing file. The translated definition is validated against the implementation on generated '
                 'directories (vm_compute vs real calls).'),
        'note': KERNEL + 'the py2v translator; directory modelled as a list of regular-file names; TOCTOU between is_file() '
                'and open(), pickle/tomlkit round trips are outside the model (partial).',
    },
}

_NOT_YET = 'check not built yet in this session (framework under construction); no claim made'
NOT_APPLICABLE = {p: _NOT_YET for p in
                  ['C01', 'C02', 'C03', 'C04', 'C05', 'C06', 'C07', 'C08', 'C09', 'C10', 'C11', 'C12', 'C13',
                   'C15', 'C16', 'C17', 'C18', 'C19', 'C20'] if p not in CLAIMED}
