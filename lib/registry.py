"""Which properties are claimed, with the level text shown in MANIFEST.json."""
KERNEL = ('Trusted: Coq 8.16.1 kernel (full .vo build, vm_compute, no native_compute); axioms as reported by Print '
          'Assumptions in the evidence file; ')

CLAIMED = {
    'C14': {
        'technique': 'Rocq proof over models regenerated from source (tie A: py2v + specialised fail-closed extractors) + correspondence and property oracles on real runs (tie B)',
        'text': ('Proved for all inputs, axiom-free: get_new_file_name (translated every run) terminates and returns the least free name.ext, name~00.ext, ...; every '
                 'history of writes through it leaves every earlier file intact; create_backup (translated) picks the least free base_k.ext and the renamed or copied '
                 'file holds the original content with nothing else touched; parse_boolean (translated) accepts exactly the listed spellings and reads back the '
                 'coding written by generate_document; every admissible well-typed parameter set survives generate_document/import_document (branches extracted '
                 'from source) given tomlkit preserves entries; every attribute of a re-loaded results record equals the saved one given pickle loads.dumps = id; '
                 'the DataFrame of get_estimated_parameters, the HTML rows, the F12 lines and the printed form have one row per parameter, in order, with name and '
                 'estimate (loop skeletons, columns and formats extracted from source); a static scan shows every writer of results.py, biogeme.py and database.py '
                 'takes its name from get_new_file_name. Tied and checked by seven streams: names, backup, boolean, history (directory snapshots by sha256 and mtime '
                 'after every real writer call), toml (bit-exact values), reports (parsed back to printed precision), pickle. PARTIAL: TOCTOU between is_file() and '
                 'open(); LaTeX row rendering is pandas\'. For every history of read_file (existing or missing file), set_value and dump_file on ONE Parameters object (plain or held by a BIOGEME object, including the property setters) every file written reads back in a fresh object as the values held at that moment: dump_file (translated every run) regenerates its document whatever document the object already held (T14d_dump_file_regenerates, T14d_history_roundtrip; stream params compares every dump exactly and with the Coq run of the generated definitions).'),
        'note': KERNEL + 'Section hypotheses: tomlkit parse/dumps, pickle load/dump; py2v and the extractors in lib/props/C14.py; OS rename/copy/open semantics; '
                'Parameters.dump_file, the default biogeme.toml, sample_and_merge and __*.iter (C15) are not counted as result/report/data-dump files.',
    },
}

CLAIMED['C01'] = {
    'technique': 'Rocq proof (interval-evaluator soundness incl. the normal CDF, serialisation/decoding, pure-Python evaluator regenerated from source: tie A) + correspondence (tie B)',
    'text': ('Deep embedding of the expression language with mathematical semantics evalX (Coq reals). Proved in Rocq for all trees, '
             'environments and sharings: the executable interval evaluator encloses evalX (T01f) with no hypothesis left on the normal CDF (Phi defined as 1/2 + RInt npdf 0 x; its series enclosure PhiI_series proved, T01f_PhiI_series_correct / T01f_evalI_sound_concrete), the differ is sound, and (Proofs/SigP.v) '
             'decoding the emitted signature yields the index-resolved tree whatever the sharing. Tied to the code on every run by streams: '
             'engine value per row and pure-Python value vs proved enclosures (exact dyadic exchange, membership decided in Coq), '
             'get_signature bytes and IdManager tables vs the models, 1-3 formulas side by side, shared sub-formulas, a history of a '
             'failing then a valid evaluation, histories of several BIOGEME objects / separate evaluations / a function created once that share one sub-formula object (stream history_models: simulate, get_value_c with and without a dictionary, create_function, calculate_likelihood, two value sets), constants with long mantissas and the constants -1 / -2 side by side, LogLogit through the pure-Python evaluator with unavailable alternatives. LogLogit.get_value is tied by a statement-by-statement template (fail-closed) to its Gallina transcription, proved equal to the reference semantics of the logit node wherever the method returns (T01e_python_evaluator_loglogit). Histories also store identifiers once (prepare) and evaluate with prepare_ids=False while other formulas sharing the object (directly under the root or two levels below it) are prepared, built into models or evaluated; ConditionalSum conditions include truth values that are not 0/1.'),
    'note': KERNEL + 'the compiled engine is external: its operator semantics are MODELLED (Model/EvalX.v) and only sampled; IEEE rounding is '
            'covered by the 2^-30 relative tolerance; normal CDF: the enclosure is proved (Proofs/PhiP.v) without the Gaussian integral, so 0 <= Phi <= 1 is not proved and enclosures are not clipped to [0,1]; that the normal CDF of the engine and of scipy is this Phi is sampled (stream phi_grid); real-number axioms of the standard '
            'library, classic, functional extensionality, primitive 63-bit integers (Interval/Bignums).',
}
CLAIMED['C03'] = {
    'technique': 'Rocq proof over the numbering model + correspondence (tie B)',
    'text': ('Model of IdManager.prepare (sorted names per class, duplicates merged, refusal of a name used for two kinds) and of the '
             'signature; theorems (Proofs/IdMgrP.v): numbering is a canonical sorted bijection independent of the order in which parameters '
             'are met, equivariant under injective renamings, values follow names; evalX invariant under renaming. Streams on every run: '
             'IdManager tables and signatures vs the model, and every formula under identity / random / order-reversing renamings with bounds '
             'and partial dictionaries (values by name, likelihood by position, bounds by name, change_init_values, fixed untouched). Values follow names also over histories of models sharing a sub-formula (stream history_models, shared with C01).'),
    'note': KERNEL + 'IdManager modelled by hand and tied by behaviour; the clause about estimates up to optimiser tolerance is partial (external optimiser).',
}

CLAIMED['C08'] = {
    'technique': 'Rocq proof over definitions regenerated from source (tie A) + exact-arithmetic correspondence on synthetic and real estimation outcomes (tie B)',
    'text': ('Theorems in Rocq over the reals, about Gallina definitions translated on every run from results.py and tools/likelihood_ratio.py '
             '(calc_p_value; Beta.set_std_err / set_robust_std_err / set_bootstrap_std_err; is_bound_active; _calculate_test; the scalar block and the '
             'standard-error loops of _calculate_stats; varCovar = -pinv(H); robust_varCovar = V.dot(B.dot(V)); the non-formatted rows of '
             'compile_estimation_results; likelihood_ratio_test): LR = -2(L0-L), rho2 = 1-L/L0, rhobar2 = 1-(L-K)/L0, AIC = 2K-2L, BIC = -2L+K ln N; in each of '
             'the classical, robust and bootstrap families se = sqrt(diagonal of that family\'s matrix), t = value/se, p = 2(1-Phi|t|) of that family\'s own t; '
             'pairwise test = (b_i-b_j)/sqrt(v_ii+v_jj-2v_ij); p in [0,1] and decreasing in |t|; V symmetric and B PSD imply V.B.V symmetric PSD; -pinv(H) is '
             'the Moore-Penrose inverse of -H whenever pinv satisfies the Penrose equations; compiled-table rows hold the quantity their label names; '
             'LR-test statistic, df and roles. Stream stats runs bioResults on synthetic raw outcomes (K = 1..8; Hessian negative definite / singular / '
             'indefinite / absent; PSD BHHH; with and without null likelihood, bounds, bootstrap) and on real estimations and checks EVERY reported number '
             'against its defining formula in exact rational arithmetic. The same oracle is applied to HISTORIES of one raw-outcome object (stream history): the object is reported, then its raw inputs are replaced (Hessian, BHHH, bootstrap sample, likelihoods, sizes, estimates; matrices may appear or disappear) and it is reported again through every entry point of results.py (same object, deep copy, write_pickle + pickle_file before / after the update, plain pickle); every report of the history must follow from the inputs held at that step (sampled, not proved). T08i: with the attribute list generated from _clear_stats (called first by _calculate_stats, checked by the extractor), after any history of re-processing one raw-results object a derived statistic or matrix is present iff the matrix of its family is held now.'),
    'note': KERNEL + 'py2v and the specialised extractors in lib/props/C08.py; Section variables for numpy/scipy (fmax, Phi, pinv with the Penrose equations '
            'as hypothesis, chi2_ppf); nan_to_num = identity on finite input; scipy.linalg.pinv/eigh/svd, np.cov, pandas exact-checked on samples, not '
            'verified; HTML/LaTeX/F12 renderings are C14\'s.',
}

CLAIMED['C13'] = {
    'technique': 'Rocq proof over a hand-written executable model (tie B) + step-by-step correspondence on random operation histories, checked inside Coq',
    'text': ('Thirty axiom-free theorems over Model/DB.v, for all tables, all formulas (arbitrary functions of the row), all RNG outcomes and all '
             'histories: remove exact for any labels (unsorted, gaps, duplicates) with count and no leftover column; add/define pointwise; scale of exactly '
             'one column; split a multiset partition with complements and unseparated groups; bootstrap within rows / individuals; extract positional also '
             'after removals; count; flatten; well-formedness, panel-state and label-uniqueness invariants over arbitrary histories; raising calls and a '
             'refused panel declaration leave the state untouched; stable sort keeps each individual\'s observation order; remove rebuilds the panel map; '
             'check_split / check_subset equivalent to their specs; dyadic arithmetic exact. Bound to the code by stream ops (histories of <= 12 calls on '
             '1-12 row tables with shifted, gapped, unsorted or duplicated labels; full state compared exactly after every call inside Coq) and by a direct '
             'Fraction oracle.'),
    'note': KERNEL + 'pandas/numpy primitives as modelled (iloc, column append, stable sort_values, array_split, unique, groupby order); numpy RNG replayed by '
            'seeding; formulas restricted to an exact-in-double family; mdcev_* helpers and int64 overflow not modelled.',
}
CLAIMED['C18'] = {
    'technique': 'Rocq proof over closed forms + definitions regenerated from source (tie A), correspondence streams (tie B)',
    'text': ('Proved over Coq reals (Coquelicot) for GammaProfile, Translated, Generalized and NonMonotonic, with and without outside good, prices and scale: '
             'the twelve numeric one-alternative methods, re-translated from /repo on every run, equal the closed forms on their domain; the marginal utility '
             'is the derivative of the utility; the closed-form optimal consumption inverts it; the marginal utility is non-increasing; KKT sufficiency (with an '
             'eps/delta version) over lists of concave goods with prices, so a forecast satisfying the checked conditions is at least as good as any feasible '
             'point, brute force included; the outside good has unbounded marginal utility at 0; the symbolic validation utility evaluates (evalX) to the numeric '
             'closed form; relabelling by any injective map commutes with the marginal-utility and consumption tables; the rational checker kkt_checkQ is sound. '
             'The three defects found (label/position test, comparison ordering, stale dual after the budget stop) are repaired in /repo; their witnesses remain in corpus/C18. Tied by streams pieces, trees (structural expr_eqb) and forecast (bisection output, public API, brute force and relabelings; every forecast '
             're-checked by kkt_checkQ in Coq on exact rationals). lower_bound_dual_variable of the four variants is translated on every run and proved to be exactly the infimum of the admissible dual variables of the chosen set (T18j); the forecast stream covers NonMonotonic in both dual-sign regimes (budgets beyond the satiation point give a negative dual variable), with an asserted coverage floor.'),
    'note': KERNEL + 'PARTIAL: convergence of the bisection to its tolerance, the greedy chosen-set identification and SLSQP are numerical and only sampled; '
            'floating-point rounding outside the theorems; the specialised extractor in lib/props/C18.py; CPython set order modelled as an arbitrary duplicate-free list.',
}

CLAIMED['C11'] = {
    'technique': 'Rocq proof over a hand-written executable model (tie B) + catalogue and branch table regenerated from source on every run (tie A)',
    'text': ('Proved in Rocq for all sizes and all bases >= 2, over exact rationals, axiom-free: the doubling construction of get_halton_draws delivers the '
             'radical inverse of i+skip+1 (skip law, support (0,1)); MLHS puts exactly one point per stratum for all random numbers in [0,1) and every shuffle; '
             'antithetic rows are a first half followed by its mirror; symmetric = 2u-1 in [-1,1]; shape; the 21-entry catalogue extracted from native_draws.py '
             '(ast, fail-closed) advertises in description and key exactly the base, skip, symmetric, antithetic and normal flags its helper implements '
             '(vm_compute over the generated table); entries with different bases yield different sequences. Tied to the code by Coq-side comparison of '
             'implementation doubles with the model on observed RNG output for all 21 types and direct generator calls. PARTIAL: the accuracy of the normal '
             'quantile is not proved: AS241 as published is the specification, the implementation is swept against it and against Phi(z) = u; the branch '
             'structure of the code (generated from source) is proved to differ from AS241 (T11i_wichura_branches_refuted) and to coincide exactly on '
             '[0.075, 0.45] U (0.925, 1): reported as a KNOWN-FINDING (cannot be repaired: an existing test pins numbers computed with it). Sizes include the boundaries of the Halton doubling construction (size + skip = base^t), more than 100000 generated points, histories of several calls in one process, and tables built by Database.generate_draws with dict order different from names order.'),
    'note': KERNEL + 'the C11 ast extractor; RNG observation by wrapping np.random.uniform / shuffle; numpy RNG an arbitrary input; libm erfc, log, sqrt; binary64 '
            'rounding bounded by the stated per-stream tolerances.',
}

CLAIMED['C20'] = {
    'technique': 'Rocq proof over tables and a wrapper program regenerated from source on every run (tie A, whole-package ast extraction) + run-time correspondence and side-by-side calls (tie B)',
    'text': ('Axiom-free theorems over the extracted tables (120 @deprecated aliases, 118 classes, 19 keyword maps): declared parameters equal those of the '
             'replacement (3 reviewed entries); the replacement is the function the old name designates (camelCase/snake_case folding, 3 reviewed renamings); on '
             'every package class exposing the alias (624 class x alias pairs, 47 with a redefining subclass) calling it reaches exactly the function obtained by '
             'resolving the new name on that class (C3 MRO computed in Coq; the wrapper of deprecated.py translated statement by statement and interpreted; the '
             'statement is proved false for the pre-repair captured-function wrapper); module-level and static aliases; keyword maps well formed; the wrapper adds '
             'exactly one DeprecationWarning and forwards all arguments; the keyword-renaming loop characterised by induction for all maps and calls. Ties: the '
             'extraction compared on every run with Python\'s own __deprecated__ objects, closures, __mro__ and with the function actually entered on every exposing '
             'class; old and new names called side by side (all 120 aliases, all instantiable overriding pairs, all renamed keywords) comparing results, exceptions, '
             'state, files, logs and warnings. PARTIAL: bodies of replacements are not modelled (sameness of results observed, not proved).'),
    'note': KERNEL + 'the fail-closed extractor in lib/props/C20.py; reviewed exception tables in Model/Alias.v; argument recipes of the dynamic stream; doubles '
            'from the multithreaded engine compared within 1e-9 relative.',
}

CLAIMED['C09'] = {
    'technique': 'Rocq proof over a hand-written model (tie B) + correspondence streams',
    'text': ('Theorems in Rocq for every identifier column and table: the contiguity test of Database.panel accepts exactly the columns where each identifier\'s '
             'occurrences are contiguous; build_panel_map\'s blocks are non-empty ranges that tile [0,n); every row lies in exactly one block; a block holds exactly '
             'the rows of its individual; sample size = rows of the draws table = number of individuals. Over the reals, for every admissible outcome of the sort: '
             'the trajectory value is the product over exactly the individual\'s rows; Monte-Carlo inside is the average over the draws of that individual with one '
             'draw shared by all rows of the block; per-individual values and the total are invariant under any reordering of the table and follow an injective '
             'renaming of individuals. Tied by streams panel_map (refusal, map, row permutation, sample size compared exactly inside Coq, including remove '
             'histories) and panel_ll (simulate, calculate_likelihood, get_value_c per-individual values vs the model over Q at relative 1e-12 with a '
             'deterministic tagged draw generator, permuted individuals and rows, 1-4 threads). Also for histories of one Database object (state machine Model/Panel.v, T09g-T09i, axiom-free): a declaration on any column (including a second one on another column) is accepted exactly on contiguous columns and a refusal leaves the state unchanged; after any sequence of declarations, direct edits of database.data, removals and earlier evaluations, an evaluation uses the map of the current table on the current column with one series of draws per individual of that table. Stream panel_ll replays such histories step by step against the Coq state machine, with every one-expression entry point and BIOGEME simulate / likelihood as first evaluation after an edit or a declaration; the scaled value, gradient, Hessian and BHHH are checked to equal unscaled / number of individuals. A BIOGEME object built before its database table changed (Database.remove, direct edits): proved for the model (T09j) and checked on generated histories that every likelihood, derivative and simulation is the value on ONE consistent table, the table copied at construction or the current one, never rows of one with the ranges of the other; simulate follows the current table. Not claimed: that the object follows the current table for likelihoods before the next simulate. Open known findings: the scaled likelihood divides the construction-table likelihood by the current number of individuals; after whole individuals left the table, simulate followed by a likelihood with 4 threads crashes the engine (thread layout of the old number of individuals).'),
    'note': KERNEL + 'pandas primitives as modelled (sort_values = some sorted permutation, unique = first appearance); the C++ engine loop and draw indexing are '
            'sampled, not verified; the rule "variables inside PanelLikelihoodTrajectory" is C12\'s.',
}

CLAIMED['C17'] = {
    'technique': 'Rocq proof about hand-written Gallina tree builders (tie B, structural) + definitions regenerated from source (tie A); engine values vs proved enclosures and exact closed forms',
    'text': ('Theorems over the reals, for all arguments: the piecewise variables of every valid sorted threshold list sum to the clipped distance from the '
             'first threshold (and the open-end variants); the piecewise_formula tree evaluates to what piecewise_function (translated from piecewise.py on every '
             'run) returns; piecewise_as_variable equals x_T1 + sum beta_i x_Ti; the Box-Cox tree is (x^l-1)/l off |l| < 1e-5 and the series with coefficients '
             'ln^{k+1}x/(k+1)! inside, continuous at l = 0 with value ln x; normal, lognormal, uniform, triangular and logistic trees equal the textbook formulas '
             '(constant 2.506628275 costs <= 2e-10 relative); uniform and triangular integrate to one; logistic CDF has limits 0, 1 and its derivative is its density; '
             'the regression likelihood is the normal log density; segmented parameters equal beta_ref plus the segment shift; nested-logit correlation is '
             '1 - 1/mu_m^2 within a nest, 0 across, 1 on the diagonal (entry formula translated from nests.py). Ties: every builder compared node-for-node with the '
             'Python builder (expr_eqb in Coq); piecewise_function, exec(segmented_code()) and correlation() against exact rational evaluation; engine values against '
             'interval enclosures of evalX and the closed forms, including l within 2e-5 of the switch. PARTIAL: normal/lognormal integrate-to-one reduced to the '
             'Gaussian integral (assumed); the Box-Cox jump at |l| = 1e-5 bounded only numerically. The regression log-likelihood / likelihood trees equal the normal log density / density with scale |sigma| for every sigma != 0 (T17h_regression_any_sign); regression helpers are evaluated with sigma of both signs, nest parameters and mu of both signs.'),
    'note': KERNEL + 'py2v and the specialised extractor in lib/props/C17.py; the expression bridge; evalI soundness (Proofs/EvalIP.v); PhiI_series proved to enclose Phi_def = 1/2 + RInt npdf 0 x (Proofs/PhiP.v).',
}

CLAIMED['C19'] = {
    'technique': 'Rocq proof over a hand-written executable model (tie B: proved checkers run inside Coq on implementation outputs) + definitions regenerated from source (tie A)',
    'text': ('Proved for every RNG outcome: the sample lists the chosen alternative first, has no duplicate, holds exactly k alternatives per stratum, all in that '
             'stratum, and carries ln(k/n) and n/k; a boolean checker is proved equivalent to this specification; the combined variable defined by '
             'rename_elementary evaluated on the flat row equals the formula evaluated on the individual\'s and alternative j\'s attributes; with k = n the sample is '
             'a permutation of the choice set, the corrections vanish and the evalX value of the get_logit expression equals the full logit; Partition and '
             'check_partition accept exactly the characterised inputs; generate_segment_size, the log-probability and weight formulas, the decrement and the '
             'column names are regenerated from source each run and the proofs are about them. Ties: streams sample, full, validate, segsize plus direct Python '
             'oracles. Full sampling of the MEV models is proved as well: for every valid first sample and MEV sample with k = n in all strata (every RNG permutation) the '
             'evalX value of the expression built by GenerateModel.get_nested_logit equals that of models.lognested, and get_cross_nested_logit that of models.logcnl, '
             'on the full choice set (T19g, T19h; C05/C06 builders reused; Model/SamplingMev.v compared node for node with the Python trees by stream full, modulo the '
             'iteration order of BelongsTo sets). Hypotheses: nest parameters != 0, alphas > 0, distinct nest names, the flat row holding the columns established by '
             'T19a-T19c (checked per case by the oracles of the stream), nests inside the MEV partition, the full model accepted by its validators (which gives pairwise-disjoint non-empty nests each listing an alternative once; a repetition is refused, T19g_nest_repeating_an_alternative_refused, and a corpus witness turns an accepted repetition into a VIOLATION); for the cross-nested logit a numeric nest parameter must be '
             'one on which Python double arithmetic is exact (1/mu - 1 against (1 - mu)/mu; trivial for Expression parameters).'),
    'note': KERNEL + 'numpy/pandas sampling modelled as an arbitrary oracle; the ast extractor lib/impl/c19_gen.py; the harness float formula evaluator at '
            'relative 1e-9; the cythonbiogeme engine for both sides of the likelihood comparison.',
}

CLAIMED['C04'] = {
    'technique': 'Rocq proof over a hand-transcribed engine model (tie B, bit-exact observed) + definitions regenerated from source (tie A) + exact-rational oracle on the implementation',
    'text': ('Proved in Rocq for ALL n>0, T>0: the engine\'s blocks of rows (size ceil(n/T), last block to n) concatenate to rows 0..n-1, so every row is in exactly '
             'one block, no block is empty, at most T threads are used, including T>n. Over the reals: per-thread accumulation plus join equals sum_r w_r f_r for '
             'every thread count, every row permutation and every split into parts in any order; weight one without a weight formula; every component of the '
             'gradient, Hessian and BHHH totals is the same weighted sum. About definitions regenerated from biogeme.py on every run: number_of_threads (0 -> cpu '
             'count), scaled = total/N for f, g, h, bhhh. Tie B: the model partition is checked against the binary by re-computing the total in IEEE arithmetic '
             'under blocks n T (bit-for-bit); calculate_likelihood(_and_derivatives), scaled and not, must lie within the summation bound of the exact rational '
             'sum of weight x simulate, for thread counts {1,2,3,n-1,n,n+3,0}, row permutations, 2-4-way splits, a thread-count change through the setter and '
             'before/after a bootstrap run. PARTIAL on schedules: real thread interleavings and data races in the C++ are outside the model; the thorough stress '
             'run (run-to-run identical doubles) is a test, not a proof. Also proved: the parts the library itself makes hold every row exactly once, hence the log likelihood and every gradient / Hessian / BHHH component summed over them is the data-set total: extract_rows on interleaved ranges (any step m > 0), reversed ranges and valid position lists; array_split-style Database.split(k) for every remainder of n by k and each of its estimation / validation pairs; mdcev_row_split; a constant weight multiplies the unweighted sum (T04g, T04d_constant_weight). Tied by stream library_splits (range rows and slice sizes compared inside Coq) and by partition and sum oracles on real Database.extract_rows / split / mdcev_row_split calls (k not dividing n, groups=, panel data, bare Numeric / constant-expression / constant x column weights, formula names loglike / weights). PARTIAL: split(groups=...) and the panel branch of split are checked by the oracles only; the shuffle is an arbitrary permutation. Histories on one object: results returned earlier stay equal to the per-row sums at their own point after later evaluations; the likelihood the object reports at its current values (calculate_init_likelihood, init log likelihood of estimate) equals the weighted sum of simulate at get_beta_values() after change_init_values / set_random_init_values / estimate, exact zeros included (changed_value generated from source, T04h). Open known findings: a Parameters object shared by two BIOGEME objects; raising number_of_threads after a derivatives call (both need the engine to be fed again, not a small repair).'),
    'note': KERNEL + 'py2v, the C04 ast extractors and the engine-call scan; Model/LogLike.v as a reading of cythonbiogeme biogeme.cc / evaluateExpressions.cc (external, '
            'not verified); equalities over reals hold on doubles up to the stated summation bound.',
}
CLAIMED['C05'] = {
    'technique': 'Rocq proof over hand-written Gallina builders (tie B: structural correspondence inside Coq) + engine value oracles',
    'text': ('Proved over the reals (evalX), for every number of alternatives, every availability pattern with at least one available alternative, every nest structure '
             'accepted by the model of the Nests validators, nest parameters != 0, mu > 0, listed alphas > 0: the trees built by logit/loglogit, mev/logmev with '
             'arbitrary user ln G_i, nested/lognested(_mev_mu), cnl/logcnl/cnlmu/logcnlmu evaluate to probabilities in [0,1] that are 0 for unavailable alternatives '
             'and sum to 1; they are invariant under adding a constant to all utilities; each probability builder is exp of its log builder; ordered logit/probit '
             'category probabilities telescope to 1 and lie in [0,1] (logistic cdf proved monotone with range [0,1]; normal cdf by hypothesis). The Gallina builders '
             '(incl. a model of Python double arithmetic on numeric parameters and of Nests.__init__/check_partition/check_validity/from_tuple) are compared node for '
             'node with the trees /repo builds in both nest syntaxes (stream build); engine values of all alternatives are checked against the property directly and '
             'against proved interval enclosures (stream prob_values); stream build also demands that a nest repeating an alternative (first / middle / last position, 7 nested builders, both syntaxes) is refused with BiogemeError. PARTIAL: alpha = 0 entries and 0**x are outside the reference semantics (sampled only). Also for the MEV model with endogenous-sampling correction (logmev / mev_endogenous_sampling: distribution proved for arbitrary ln G_i and corrections, equal corrections = MEV; T05d_mev_es_*, T05h_mev_es_is_exp_of_log); stream build covers these entry points including repeated calls with the same dictionaries; stream prob_values obtains each distribution by one call per alternative with the same caller dictionaries (which must come back unmodified), also through the pure-Python evaluator get_value() on variable-free trees with numeric availabilities, and demands agreement with the engine. The Python path of cnl runs with positive alphas only: with alpha = 0 and an Expression nest parameter the Python evaluator computes 0.0 ** negative = inf and 0 * inf = nan (a power of 0, outside the regular domain; the engine returns the right value). Streams also run HISTORIES: the same nests object and the same utility / availability dictionaries re-used across several model evaluations, replaced or updated in place in between; each evaluation must equal the one on freshly built objects, be a distribution, and be invariant under a uniform shift; stream build checks the tree after such a prior use.'),
    'note': KERNEL + 'evalX as reference semantics; the expression bridge; the hand-written builders up to the sampled correspondence; cythonbiogeme numerics only sampled; '
            'Phi is a Section variable with monotonicity/range hypotheses.',
}
CLAIMED['C06'] = {
    'technique': 'Rocq proof over hand-written Gallina builders (tie B) incl. Coquelicot is_derive + engine value oracles',
    'text': ('Proved: nested logit with all nest parameters 1 = logit; cross-nested logit whose alternatives each have alpha = 1 in exactly one nest = nested logit on the '
             'induced partition; builders with explicit scale mu = 1 = unscaled builders; legacy tuple syntax = nest objects for all 13 builders (model of from_tuple; '
             'stream build demands identical Python trees for both syntaxes on every case); generating-function consistency: for the trees of '
             'get_mev_generating_for_nested and get_mev_for_nested, d/dV_i G(e^V) = e^{V_i} e^{ln G_i} (Coquelicot is_derive) for every available alternative, '
             'including alternatives outside every nest (that each nest lists each alternative once follows from the builder returning Ok: check_partition refuses a repetition, T06v_repeated_alternative_refused, demanded of the implementation by stream build); check_union can never fail after Nests.__init__. Stream pairs compares engine values of both sides of each '
             'reduction (1e-9) and central differences of G with exp(V_i + ln G_i) (1e-5); a regression of the repaired alone term is reported with a concrete witness. Legacy tuples equal nest objects bearing any names, including equal names arising through re-use of an unnamed nest object from an earlier specification (model of the naming of Nests.__init__, checked against Python in stream build; T06d_legacy_syntax_named_*). Stream pairs also compares named / reused nest objects with the tuple syntax numerically for nested / nested+mu / cnl / cnl+mu, and every reduction also with availabilities given as plain Python numbers containing a 0. Every reduction / legacy clause is also checked after histories of calls on the same nest objects and dictionaries (updated in place), against the tuple syntax on fresh objects, for P, log P, ln G_i and G.'),
    'note': KERNEL + 'same trusted base as C05 plus Coquelicot; reductions stated under exactness of Python-side float constants (trivial for Beta/Numeric parameters, '
            'proved for 1.0).',
}
CLAIMED['C10'] = {
    'technique': 'Rocq proof over a hand-written model of draw generation / indexing and of the Monte-Carlo, Derive and Gauss-Hermite operators (tie B) + value correspondence through the proved interval evaluator',
    'text': ('Proved for every list of formulas, any number of draw variables, any native/user generators (arbitrary functions of an abstract RNG state), any N, R: '
             'generate_draws = stack then moveaxis gives table[o][r][k] = series_k[o][r]; k = position of the variable in the sorted names; what the engine reads for '
             'variable d is the array returned by the generator registered for d\'s declared type; the MonteCarlo node is the arithmetic mean over the R draws; a '
             'generator returning another shape is refused; user generators cannot take or shadow a native type name; Derive is the partial derivative on the smooth '
             'fragment (from C02\'s D_correct); the engine\'s Gauss-Hermite rule equals the real-line integral whenever its node table is exact for the integrand '
             '(PARTIAL: quadrature accuracy is sampled, 1e-4). Tied on every run: exact vm_compute comparison of numbering, tables, refusals, reserved names; engine '
             'values (get_value_c, two-step prepare, BIOGEME.simulate, 1-3 threads) inside proved enclosures of the model\'s mean with deterministic tagged generators '
             'and with recorded native draws (all 21 types); seed reproducibility bit-for-bit; Integrate vs closed forms; Derive vs enclosure of D. Histories on one database are covered too: several models / separate evaluations / prepare-once evaluations / a function created once, sharing ONE bioDraws leaf or MonteCarlo / Derive / Integrate node while declaring different draw names and parameters (the slot of the shared variable and the literal index differ); every step vs the enclosure of its own formula; T10a_stale_identifiers_refuted shows why identifiers must belong to the preparation whose table the engine holds.'),
    'note': KERNEL + 'engine modelled from its C++ and only sampled; numpy array/moveaxis/RNG semantics assumed (RNG as arbitrary oracle); known finding: Derive through '
            'bioLinearUtility is wrong in the external engine; conflicting draw types are refused since the repair in /repo.',
}

CLAIMED['C16'] = {
    'technique': 'Rocq proof over a model regenerated from source (tie A) + hand model with correspondence (tie B)',
    'text': ('Axiom-free theorems about definitions regenerated on every run from configuration.py/controller.py (string id, selections setter with sorting and duplicate '
             'detection, from_string, modify_controller): the id is invariant under listing order, injective and determines the configuration for names free of ; and :, '
             'from_string(id) returns the same configuration, increasing then decreasing a controller by any integer step returns to the start for every size >= 1. Over '
             'the hand model of catalogs/controllers: the number of configurations is the product of the controller sizes, the enumerated set is that product and any '
             'iteration order visits every valid configuration exactly once, all catalogs of one controller select the configured member, the configured tree equals the '
             'hand-substituted formula structurally (hence any function of it: signature, value), every operator of prepare_operators maps valid to valid for any step. '
             'Tied by streams on random structures (shared/nested catalogs, helpers, from_dict): catalog tree as built, controllers, count, ids, iteration, every sampled '
             'configuration (tree, selected names, elementary expressions, get_children/get_signature views, get_value), every operator with steps {1,2,size,size+1,...} '
             'and its inverse. PARTIAL: engine values only on formulas built from total operators (the engine can crash on ill-formed ones); elsewhere values are compared through Python get_value and identical canonical signatures. '
             'Added: a formula is accepted iff controllers of one name are one Controller object wherever they sit (merge_controllers regenerated from source; T16j), so accepted formulas have pairwise distinct controller names and the id determines the configuration; for every legal controller state, hence after any history and whatever the creation order of catalogs, a formula reads as the hand-written formula of the configuration it reports, which lies in its own product (T16i). Streams history (objects created between moves through every entry point, every object read after every step, own count and ids of embedded sub-formulas) and malformed (two controllers of one name refused at every position and through the helpers, shared object accepted). The configure stream compares, configured vs hand-written, every delegated tree operation (get_children, get_signature with draws prepared, embed_expression for all classes, requires_draws, check_draws / rv / panel_trajectory, panel count) including alternatives whose top node is MonteCarlo / PanelLikelihoodTrajectory, and the value through the C++ engine on engine-safe formulas; the malformed stream also requires that a catalog whose names differ in order or content from its shared controller is refused.'),
    'note': KERNEL + 'tie-A extractor lib/props/c16_extract.py (py2v + fail-closed AST templates); CPython semantics of str.split/sorted/dict/set as modelled; random.choices as an arbitrary oracle.',
}

CLAIMED['C07'] = {
    'technique': 'Rocq proof over definitions regenerated from source (tie A) + a hand model with an optimiser oracle (tie B); real estimations and recorded-call correspondence',
    'text': ('Proved for all inputs: the function handed to the optimiser (NegativeLikelihood._f/_f_g/_f_g_h, translated on every run) is -L with gradient -grad L and '
             'Hessian -hess L, so argmin = argmax and first-order conditions coincide; in the model of estimate (restart file, init value, optimize, final '
             'evaluation, RawResults, write-back) the reported logLike, g, H, bhhh are those of L at the returned point and initLogLike is L at the start; every Beta '
             'leaf named like a free parameter starts at its estimate, fixed ones are untouched, and the starting vector of the object (id_manager.free_betas_values) holds the estimates (write-back through BIOGEME.change_init_values, whose body is read from the source), so a second estimate() on the same object starts at the estimates; the generated tables prove which five algorithm names hand the '
             'bounds to their routine and which four drop them (with a refutation witness), and which toml parameter reaches which routine keyword; for concave L '
             'on a box a feasible first-order point is a global maximum, two such points have equal value (with an epsilon version), the projected gradient '
             'vanishes exactly at first-order points. PARTIAL: final >= init, bounds respected, stationarity and agreement depend on the external optimisers: their '
             'contracts appear as explicit hypotheses on an oracle and are only sampled (~1.1k estimations quick / ~33k thorough over all 9 algorithm names, 5 bound '
             'configurations, restart files, quick_estimate; compared with recomputation and an independent numpy likelihood). One open known finding (false '
             'convergence of the external simple_bounds with a pinned parameter). Also proved: with optimize() as read from the source (it assigns no attribute), the results of estimate(run_bootstrap=True), including the convergence status, are those of the estimation on the full sample whatever the re-estimations return, and the bootstrap rows are the re-estimations started at the estimates (T07i); with the per-call allocation of the derivative arrays read from the source, the matrices held by a results object survive any later evaluations (T07j). Also sampled: estimations with bootstrap (with and without iteration limits) and histories of further calls on the same BIOGEME object before and after the estimation, all under recording spies (reported status and estimates compared with what the routine of the main estimation returned); a second concave family whose likelihood is undefined (NaN) on an unguarded region: there only automatic and simple_bounds* satisfy the property, LS/TR and scipy are open known findings of the external optimisers. Also proved: when estimate(run_bootstrap=True) is left by a fault inside any re-estimation, the calculation engine holds the estimation data again (restore in the finally clause, read from the source; T07k). Also sampled: the same object estimated again after a bootstrap run interrupted by an injected fault (4 exception kinds, 2 injection points, any re-estimation).'),
    'note': KERNEL + 'py2v plus the C07 extractors, validated each run against recorded real calls; biogeme_optimization, scipy.optimize.minimize, FunctionToMinimize, '
            'cythonbiogeme are not verified; floats read as reals.',
}

CLAIMED['C12'] = {
    'technique': 'Rocq proof over a recursion table regenerated from source (tie A) + hand model of the audit rules tied by correspondence streams and a fault-injection oracle (tie B)',
    'text': ('Theorems, for all one-hole contexts over every operator kind: a missing column, a draw / integration variable / panel variable outside its operator, '
             'inconsistent logit keys or choice, and duplicate names are reported by the audit as coded, wherever they sit; nests, data and second-derivative '
             'refusals are characterised by iff theorems; every reported error is a genuine fault and a fault-free specification has an empty error list; on the lazy '
             'semantics evalX a missing cell fails through every strict path and is irrelevant in unread positions of And/Or, ConditionalSum, Elem and logit. Tie A: '
             'the table (class -> implementing method and its shape) is extracted with ast from expressions/*.py and catalog.py on every run; removing a recursion '
             'breaks T12_0; an unknown shape aborts. Tie B: method-level correspondence and the property oracle on real entry points (BIOGEME, get_value_c, '
             'get_value_and_derivatives, Database, models.*), per operator kind x slot x fault kind, plus the missing-data rule on one-row tables. Three open known '
             'findings: dict formulas on panel data (the repository\'s own tests require acceptance), the engine\'s linear utility swallowing a missing value, the '
             'eager LogLogit audit. Tie A also extracts the rules of the entry points: accumulation of the per-formula audits in BIOGEME._audit, the scope of the draw-type check in IdManager.prepare, Database._audit reading the current table only, the pairwise nest comparison. Theorems added: a fault in any position of a multi-formula specification is reported; one draw name with two distributions is refused wherever the two declarations sit (one formula or across formulas) and a reported clash is genuine; nests with a repeated alternative are refused. The fault oracle additionally covers dictionary specifications with the fault in each position, draw-type clashes at every ordered pair of formulas, nest faults at every pair of positions, database histories (a fault entering the table after earlier operations) and evaluation histories (repeated evaluations of the same objects with stored or fresh identifiers under table or catalog changes in both orders, each call judged separately). Not judged: a catalog at the very top of a formula under stored identifiers; NaN or strings entering the table between two get_value_c calls. Contexts include chained comparisons (a comparison with a comparison operand); the history oracle includes configuration histories (placement and audit faults in one configuration of a catalog below an operator, examined before or after a valid configuration of the same object, on panel data as well).'),
    'note': KERNEL + 'the ast extractor and its class <-> head mapping; the expression bridge; evalX as the lazy reading semantics (engine modelled); pandas dtype '
            'classes as abstracted in Model/Audit.v; LogLogit choice rule modelled for constant / column choices only.',
}

CLAIMED['C15'] = {
    'technique': 'Rocq proof over a model regenerated from source (tie A) + correspondence and crash injection against the implementation (tie B)',
    'text': ('Axiom-free theorems by induction over ALL histories of estimate / quick_estimate / likelihood evaluations (improving, worsening, equal, non-finite '
             'gradient, wrong length) / bootstrap loops / processes stopped after any number of primitive steps (bytes) of any save and restarted: the iteration file, '
             'when an evaluation counts, holds exactly one name = str(value) line per free parameter of the best counted point (latest among equals) and the marker is '
             'its log likelihood; it reads back bit for bit (given float(str v) = v); the saved point is never below the first evaluation of the estimation; estimate '
             'and quick_estimate start from it; after any crash the file is absent or complete (old or new content) and a new process restarts from it without error '
             '(given atomic os.replace); bootstrap evaluations never touch file or marker; distinct model names use distinct files. Save condition, marker updates, '
             'write discipline (temp file + os.replace), line format, parser, the prologues of estimate / quick_estimate and the bootstrap suspension/restoration are '
             'regenerated from biogeme.py by a fail-closed AST extractor on every run. Refuted variants (in-place write, no marker update, split(=), quick_estimate '
             'without prologue, bootstrap not suspended / data not restored) document what each repaired line carries. The session semantics is compared with real '
             'BIOGEME objects after every evaluation, on crafted files, and under os._exit injected at every byte of every save; thorough adds real SIGKILLs (not a proof). Histories also include bootstrap loops left by an exception with the object used again (BootstrapAbort; T15f_abort_data_not_restored_refuted documents what the finally clause carries), and evaluations through every public entry point (calculate_likelihood_and_derivatives with scaled / hessian / bhhh, its deprecated alias, likelihood_finite_difference_hessian, check_derivatives): the marker always compares the totals returned by the engine. Strings are byte sequences in the model and names may be non-ASCII; half of the streamed sessions run in a non-UTF-8 (C) locale; the extractor requires explicit utf-8 on both open() calls and f, g, x unmodified between the engine call and the save branch. Also from any earlier state of the same object (stale marker of a previous run, file replaced or removed by the user, model renamed) once an estimation starts (T15a_file_is_best_after_any_start); the iter stream includes sessions where a check point is put back, the file is removed or the model is renamed between runs on one object (oracle only: best point in the file of the current name, files of other names untouched, file name follows the rename).'),
    'note': KERNEL + 'Section hypotheses: os.replace atomic (POSIX rename), float(str(v)) == v, str(v) has no white space / = / line break (both checked on every '
            'streamed value); a crash is a process death, not a power failure (no fsync claim); the specialised extractor in lib/props/C15.py + py2v.',
}

CLAIMED['C02'] = {
    'technique': 'Rocq proof (Coquelicot: correctness, openness of the domain and symmetry of a symbolic derivative on the deep embedding; packaging theorems over definitions regenerated from source, tie A) + correspondence of every derivative entry returned by the engine with proved interval enclosures (tie B)',
    'text': ('Proved for every expression tree of the smooth fragment (+ - x / neg exp log sin cos, x**c, x**y, normal CDF, bioMultSum, bioLinearUtility, LogLogit, '
             'Elem / ConditionalSum with parameter-free keys and conditions), every environment in the open domain dom and every list of parameters: the tree D w e '
             'evaluates to the partial derivative of the value of e (is_derive); D w\' (D w e) is the second partial derivative and the Hessian is symmetric; entry '
             'i / (i, j) belongs to the i-th / j-th sorted free-parameter name; the sum over observations of the derivative values is the derivative of the aggregated '
             'value; BHHH entry (i, j) = sum_r g_r[i] g_r[j]; division by N commutes with differentiation. Proved about Gallina definitions regenerated on every run from '
             'idmanager.py, function_output.py, calculator.py, base_expressions.py, biogeme.py: names sorted and index = rank; literal ids 0..n-1; convert_to_dict / '
             'Named*FunctionOutput attach entry i to the i-th name; aggregated mode returns f[0], g[0], h[0], b[0], None for what was not asked; hessian/bhhh without '
             'gradient is the only refusal; scaling divides all four outputs by N. Tied on every run: every per-observation value / gradient / Hessian entry of '
             'get_value_and_derivatives on generated differentiable DAGs vs the proved enclosure of evalX (D ...), membership decided in Coq; exact-rational oracles for '
             'symmetry, BHHH, aggregation, all request modes, refusals, named outputs, order-reversing renamings, calculate_likelihood_and_derivatives (scaled or not, '
             '1-3 threads), create_function. Two engine defects are KNOWN findings (Hessian of x**2; gradient of a bioLinearUtility with a repeated parameter).'),
    'note': KERNEL + 'one Section hypothesis: Phi\'(x) = c exp(-x^2/2), c the double nearest to 1/sqrt(2 pi); the engine\'s derivative code is external C++, only sampled '
            'against the proved trees; IEEE rounding covered by 2^-30 / 2^-24 relative tolerances; lib/props/c02_pack.py trusted as a fail-closed extractor.',
}

_NOT_YET = 'check not built yet in this session (framework under construction); no claim made'
NOT_APPLICABLE = {p: _NOT_YET for p in
                  ['C01', 'C02', 'C03', 'C04', 'C05', 'C06', 'C07', 'C08', 'C09', 'C10', 'C11', 'C12', 'C13',
                   'C15', 'C16', 'C17', 'C18', 'C19', 'C20'] if p not in CLAIMED}
