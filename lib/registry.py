"""Which properties are claimed, with the level text shown in MANIFEST.json."""
KERNEL = ('Trusted: Coq 8.16.1 kernel (full .vo build, vm_compute, no native_compute); axioms as reported by Print '
          'Assumptions in the evidence file; ')

CLAIMED = {
    'C14': {
        'technique': 'Rocq proof over a model regenerated from source (tie A) + correspondence (tie B)',
        'text': ('Theorems in Rocq, for every directory content / every history of output generation: '
                 'get_new_file_name (translated from filenames.py on every run) terminates and returns the least free '
                 'candidate name, hence a name that does not exist; no history of writes through it ever changes an '
                 'existing file. The translated definition is validated against the implementation on generated '
                 'directories (vm_compute vs real calls).'),
        'note': KERNEL + 'the py2v translator; directory modelled as a list of regular-file names; TOCTOU between is_file() '
                'and open(), pickle/tomlkit round trips are outside the model (partial).',
    },
}

CLAIMED['C01'] = {
    'technique': 'Rocq proof (interval-evaluator soundness, serialisation/decoding) + correspondence (tie B)',
    'text': ('Deep embedding of the expression language with mathematical semantics evalX (Coq reals). Proved in Rocq for all trees, '
             'environments and sharings: the executable interval evaluator encloses evalX (T01f), the differ is sound, and (Proofs/SigP.v) '
             'decoding the emitted signature yields the index-resolved tree whatever the sharing. Tied to the code on every run by streams: '
             'engine value per row and pure-Python value vs proved enclosures (exact dyadic exchange, membership decided in Coq), '
             'get_signature bytes and IdManager tables vs the models, 1-3 formulas side by side, shared sub-formulas, a history of a '
             'failing then a valid evaluation.'),
    'note': KERNEL + 'the compiled engine is external: its operator semantics are MODELLED (Model/EvalX.v) and only sampled; IEEE rounding is '
            'covered by the 2^-30 relative tolerance; normal CDF has no interval extension (undecided); real-number axioms of the standard '
            'library, classic, functional extensionality, primitive 63-bit integers (Interval/Bignums).',
}
CLAIMED['C03'] = {
    'technique': 'Rocq proof over the numbering model + correspondence (tie B)',
    'text': ('Model of IdManager.prepare (sorted names per class, duplicates merged, refusal of a name used for two kinds) and of the '
             'signature; theorems (Proofs/IdMgrP.v): numbering is a canonical sorted bijection independent of the order in which parameters '
             'are met, equivariant under injective renamings, values follow names; evalX invariant under renaming. Streams on every run: '
             'IdManager tables and signatures vs the model, and every formula under identity / random / order-reversing renamings with bounds '
             'and partial dictionaries (values by name, likelihood by position, bounds by name, change_init_values, fixed untouched).'),
    'note': KERNEL + 'IdManager modelled by hand and tied by behaviour; the clause about estimates up to optimiser tolerance is partial (external optimiser).',
}

_NOT_YET = 'check not built yet in this session (framework under construction); no claim made'
NOT_APPLICABLE = {p: _NOT_YET for p in
                  ['C01', 'C02', 'C03', 'C04', 'C05', 'C06', 'C07', 'C08', 'C09', 'C10', 'C11', 'C12', 'C13',
                   'C15', 'C16', 'C17', 'C18', 'C19', 'C20'] if p not in CLAIMED}
