"""Seeded, typed generator of expression trees (JSON rose trees, see impl/bio_bridge.py) that stay
inside the regular domain by construction, with controlled sharing of sub-trees (same 'sid' =
same Python object) and scrambled parameter names.

A generated *case* = tree + parameter table + a small data table whose columns the tree uses.
"""
import math

BETA_NAMES = ['B_z', 'a9', 'B_10', 'b_2', 'Zeta', 'beta', 'ASC_1', 'asc_10', '_b', 'mu']
VAR_NAMES = ['x1', 'x2', 'x3']           # real-valued columns
KEY_NAME = 'kk'                           # integer-valued column (keys / chosen alternative)
AV_NAMES = ['av1', 'av2', 'av3', 'av4']   # 0/1 columns


def dy(rng, lo_bits=4, emin=-4, emax=-2, positive=False, nonzero=False):
    while True:
        m = rng.randint(0 if positive else -(1 << lo_bits), 1 << lo_bits)
        if (nonzero or positive) and m == 0:
            continue
        e = rng.randint(emin, emax)
        while m % 2 == 0 and m != 0:
            m //= 2
            e += 1
        return [m, e] if m != 0 else [0, 0]


def val(d):
    return math.ldexp(d[0], d[1])


def norm(m, e=0):
    if m == 0:
        return [0, 0]
    while m % 2 == 0:
        m //= 2
        e += 1
    return [m, e]


class Gen:
    def __init__(self, rng, variables=True, max_depth=5, share_p=0.15, heads=None, distinct_init=False):
        self.rng = rng
        self.distinct_init = distinct_init
        self.variables = variables
        self.max_depth = max_depth
        self.share_p = share_p
        self.pool = {'real': [], 'pos': [], 'bool': [], 'small': []}
        self.sid = 0
        self.betas = {}
        self.used_vars = set()
        self.used_av = set()
        self.uses_key = False
        self.key_values = None
        self.chosen_keys = None
        self.av_of_alt = {}
        self.exclude = set(heads.get('exclude', [])) if heads else set()

    # ----------------------------------------------------------------- helpers
    def node(self, h, k=(), kind=None):
        n = {'h': h, 'k': list(k)}
        if kind is not None and len(k) > 0:
            self.sid += 1
            n['sid'] = self.sid
            self.pool[kind].append(n)
        return n

    def maybe_shared(self, kind):
        if self.pool[kind] and self.rng.random() < self.share_p:
            return self.rng.choice(self.pool[kind])
        return None

    def num(self, **kw):
        if self.rng.random() < 0.06:
            # a constant with a long mantissa (about 1.2345678, 0.7071068, 0.1000000): no digit may be lost on the way to the engine
            return self.node(['Num'] + self.rng.choice([[1325570717, -30], [759250125, -30], [107374183, -30]]))
        return self.node(['Num'] + dy(self.rng, **kw))

    def beta(self, positive=False):
        name = self.rng.choice(BETA_NAMES)
        if name not in self.betas:
            fixed = self.rng.random() < 0.3
            v = dy(self.rng, positive=True) if positive else dy(self.rng)
            if not positive and self.rng.random() < 0.1:
                v = [0, 0]          # a parameter whose value is exactly 0
            self.betas[name] = {'value': val(v), 'fixed': fixed, 'positive': val(v) > 0, 'lb': None, 'ub': None}
            if self.distinct_init and not fixed:
                # engine path: the Beta object is created with ANOTHER initial value; the evaluation value
                # is supplied through the name -> value dictionary
                self.betas[name]['init'] = val(v) + self.rng.choice([1.0, -0.5, 2.25])
        b = self.betas[name]
        if positive and not b['positive']:
            return None
        return self.node(['Beta', name, b['fixed']])

    def var(self):
        n = self.rng.choice(VAR_NAMES)
        self.used_vars.add(n)
        return self.node(['Var', n])

    def leaf_real(self):
        r = self.rng.random()
        if r < 0.3:
            return self.num()
        if r < 0.65 or not self.variables:
            return self.beta() or self.num()
        return self.var()

    def ok(self, name):
        return name not in self.exclude

    # ----------------------------------------------------------------- typed generators
    def small(self, d):
        """bounded magnitude (argument of exp, utilities): leaves, sums/products of few leaves, sin/cos"""
        s = self.maybe_shared('small')
        if s is not None:
            return s
        if d <= 0 or self.rng.random() < 0.35:
            return self.leaf_real()
        r = self.rng.random()
        if r < 0.3:
            return self.node(['Bin', self.rng.choice(['Plus', 'Minus'])], [self.small(d - 1), self.small(d - 2)], 'small')
        if r < 0.45:
            return self.node(['Bin', 'Times'], [self.leaf_real(), self.small(d - 1)], 'small')
        if r < 0.6:
            return self.node(['Un', self.rng.choice(['Sin', 'Cos'])], [self.real(d - 1)], 'small')
        if r < 0.7:
            return self.node(['Un', 'UMinus'], [self.small(d - 1)], 'small')
        if r < 0.8 and self.variables and self.ok('LinUtil'):
            terms = []
            for _ in range(self.rng.randint(1, 3)):
                b = self.beta() or self.beta() or self.node(['Beta', 'lin_b', False])
                if b['h'][1] == 'lin_b':
                    self.betas.setdefault('lin_b', {'value': 0.5, 'fixed': False, 'positive': True, 'lb': None, 'ub': None})
                terms += [b, self.var()]
            return self.node(['LinUtil'], terms, 'small')
        if r < 0.9:
            return self.node(['Bin', self.rng.choice(['BMin', 'BMax'])], [self.small(d - 1), self.small(d - 1)], 'small')
        return self.boolean(d - 1)

    def pos(self, d):
        s = self.maybe_shared('pos')
        if s is not None:
            return s
        r = self.rng.random()
        if d <= 0 or r < 0.25:
            return self.num(positive=True)
        if r < 0.5:
            return self.node(['Un', 'Exp'], [self.small(d - 1)], 'pos')
        if r < 0.65:
            return self.node(['Bin', 'Plus'], [self.num(positive=True), self.node(['PowC', 1, 1], [self.small(d - 1)])], 'pos')
        if r < 0.75:
            return self.node(['Bin', 'Times'], [self.pos(d - 1), self.pos(d - 1)], 'pos')
        if r < 0.85:
            return self.node(['Bin', 'Plus'], [self.pos(d - 1), self.pos(d - 1)], 'pos')
        if r < 0.92:
            return self.node(['Bin', 'Divide'], [self.pos(d - 1), self.pos(d - 1)], 'pos')
        return self.beta(positive=True) or self.num(positive=True)

    def boolean(self, d):
        s = self.maybe_shared('bool')
        if s is not None:
            return s
        r = self.rng.random()
        if d <= 0 or r < 0.55:
            op = self.rng.choice(['Eq', 'Ne', 'Le', 'Ge', 'Lt', 'Gt'])
            # operands that differ by construction are decided by the interval evaluator; equal leaves
            # (x == x) are decided too when both sides are the same leaf
            a = self.leaf_real()
            b = self.leaf_real() if self.rng.random() < 0.8 else a
            return self.node(['Bin', op], [a, b], 'bool')
        if r < 0.75:
            return self.node(['Bin', self.rng.choice(['And', 'Or'])], [self.boolean(d - 1), self.boolean(d - 1)], 'bool')
        if r < 0.85 and self.ok('Belongs'):
            a = self.leaf_real()
            if a['h'][0] == 'Num' and abs(a['h'][1]) >= 2 ** 24:
                a = self.node(['Num'] + dy(self.rng))     # binary32-exact constants only around BelongsTo (known finding F2)
            st = [dy(self.rng) for _ in range(self.rng.randint(1, 4))]
            if a['h'][0] == 'Num' and self.rng.random() < 0.5:
                st.append(a['h'][1:])
            # engine parses set members as 32-bit floats (known finding F2): use members exactly
            # representable in binary32 (all our dyadics are)
            uniq = []
            for x in st:
                if x not in uniq:
                    uniq.append(x)
            return self.node(['Belongs', uniq], [a], 'bool')
        if self.variables and self.rng.random() < 0.5:
            n = self.rng.choice(AV_NAMES)
            self.used_av.add(n)
            return self.node(['Var', n])
        return self.node(['Bin', self.rng.choice(['And', 'Or'])], [self.boolean(d - 1), self.real(d - 1)], 'bool')

    def real(self, d):
        s = self.maybe_shared('real')
        if s is not None:
            return s
        if d <= 0:
            return self.leaf_real()
        r = self.rng.random()
        c = 0.0

        def lt(p):
            nonlocal c
            c += p
            return r < c
        if lt(0.10):
            return self.leaf_real()
        if lt(0.12):
            return self.node(['Bin', self.rng.choice(['Plus', 'Minus'])], [self.real(d - 1), self.real(d - 1)], 'real')
        if lt(0.08):
            return self.node(['Bin', 'Times'], [self.real(d - 1), self.small(d - 1)], 'real')
        if lt(0.07):
            return self.node(['Bin', 'Divide'], [self.real(d - 1), self.pos(d - 1)], 'real')
        if lt(0.05):
            return self.node(['Un', 'Log'], [self.pos(d - 1)], 'real')
        if lt(0.05):
            return self.node(['Un', 'Exp'], [self.small(d - 1)], 'real')
        if lt(0.04):
            return self.node(['Un', 'UMinus'], [self.real(d - 1)], 'real')
        if lt(0.05):
            # integer exponents on anything, non-integer on positive arguments
            if self.rng.random() < 0.6:
                e = self.rng.choice([[1, 1], [3, 0], [1, 0], [0, 0], [1, 2]])
                return self.node(['PowC'] + e, [self.small(d - 1)], 'real')
            if self.rng.random() < 0.5:
                return self.node(['PowC'] + self.rng.choice([[-1, 0], [-1, 1]]), [self.pos(d - 1)], 'real')
            # the last three: exponents with a long mantissa (0.333333333..., -0.66666666..., 3.14159274...): every digit of the
            # constant must reach the engine
            return self.node(['PowC'] + self.rng.choice([[1, -1], [3, -1], [-1, -1], [5, -2], [357913941, -30], [-1431655765, -31],
                                                         [13176795, -22]]), [self.pos(d - 1)], 'real')
        if lt(0.04):
            return self.node(['Bin', 'Power'], [self.pos(d - 1), self.small(d - 2)], 'real')
        if lt(0.05):
            return self.node(['MultSum'], [self.real(d - 1) for _ in range(self.rng.randint(1, 4))], 'real')
        if lt(0.06) and self.ok('CondSum'):
            ks = []
            for _ in range(self.rng.randint(1, 3)):
                # distinct condition OBJECTS (the engine keys terms by condition: known finding F1)
                cnd = self.fresh(lambda: self.boolean(d - 2))
                r = self.rng.random()
                if r < 0.15:
                    # a truth value that is not 0/1: a term is taken when its condition is NON-ZERO, it is not weighted by it
                    cnd = self.node(['Num'] + self.rng.choice([[1, 1], [-1, 0], [1, -1], [3, 0]]))
                elif r < 0.3:
                    cnd = self.node(['Bin', 'Times'], [self.node(['Num'] + self.rng.choice([[1, 1], [-1, 0], [3, -1]])), cnd], 'real')
                ks += [cnd, self.real(d - 1)]
            return self.node(['CondSum'], ks, 'real')
        if lt(0.06) and self.ok('Elem'):
            return self.elem(d)
        if lt(0.07) and self.ok('LogLogit'):
            return self.loglogit(d)
        if lt(0.04):
            return self.node(['Un', 'Logzero'], [self.rng.choice([self.pos(d - 1), self.node(['Num', 0, 0]), self.boolean(d - 1)])], 'real')
        if lt(0.04):
            return self.boolean(d - 1)
        if lt(0.03) and self.ok('NormalCdf'):
            return self.node(['Un', 'NormalCdf'], [self.small(d - 1)], 'real')
        return self.small(d)

    def fresh(self, f):
        """generate without sharing (a new object)"""
        p, self.share_p = self.share_p, 0.0
        try:
            n = f()
        finally:
            self.share_p = p
        if 'sid' in n:
            # never hand out the same object twice as a condition: strip from the pools
            for v in self.pool.values():
                if n in v:
                    v.remove(n)
        return n

    def elem(self, d):
        nk = self.rng.randint(1, 4)
        keys = self.rng.sample([0, 1, 2, 3, 5, 7, 10], nk)
        entries = [self.real(d - 1) for _ in keys]
        if self.variables and not self.uses_key and self.rng.random() < 0.6:
            keyexpr = self.node(['Var', KEY_NAME])
            self.uses_key = True
            self.key_values = keys
        else:
            keyexpr = self.node(['Num'] + norm(self.rng.choice(keys)))
        return self.node(['Elem', keys], [keyexpr] + entries, 'real')

    def loglogit(self, d):
        n = self.rng.randint(2, 4)
        keys = self.rng.sample([1, 2, 3, 4, 6, 9], n)
        utils = [self.small(d - 1) for _ in keys]
        avs = []
        for k in keys:
            r = self.rng.random()
            if not self.variables:
                # pure-Python evaluator: numeric availabilities, some alternatives unavailable
                avs.append(self.node(['Num', 1, 0] if r < 0.6 else ['Num', 0, 0]))
            elif r < 0.1:
                avs.append(self.node(['Num', 0, 0]))
            elif r < 0.4:
                avs.append(self.node(['Num', 1, 0]))
            else:
                nm = self.rng.choice(AV_NAMES)
                self.used_av.add(nm)
                avs.append(self.node(['Var', nm]))
        # the chosen alternative: a numeric or the key column
        if self.uses_key or not self.variables or self.rng.random() < 0.5:
            choice = self.node(['Num'] + norm(self.rng.choice(keys)))
        else:
            choice = self.node(['Var', KEY_NAME])
            self.uses_key = True
            self.key_values = keys
        akeys = list(keys)
        if self.rng.random() < 0.3:
            # availability dictionary listed in another order
            perm = list(range(n))
            self.rng.shuffle(perm)
            akeys = [keys[i] for i in perm]
            avs = [avs[i] for i in perm]
        return self.node(['LogLogit', keys, akeys], [choice] + utils + avs, 'real')

    # ----------------------------------------------------------------- a whole case
    def rows(self, n):
        out = []
        for _ in range(n):
            row = {v: val(dy(self.rng)) for v in VAR_NAMES}
            for a in AV_NAMES:
                row[a] = float(self.rng.random() < 0.7)
            row[KEY_NAME] = float(self.rng.choice(self.key_values or [1]))
            out.append(row)
        return out


def gen_case(rng, variables=True, max_depth=5, n_rows=3, exclude=()):
    g = Gen(rng, variables=variables, max_depth=max_depth, heads={'exclude': list(exclude)}, distinct_init=variables)
    tree = g.real(max_depth)
    # make sure the root is not a bare leaf too often
    if not tree['k'] and rng.random() < 0.8:
        tree = g.node(['Bin', 'Plus'], [tree, g.real(max_depth - 1)], 'real')
    if rng.random() < 0.1:
        # the constants -1.0 and -2.0 side by side (hash(-1.0) == hash(-2.0) in Python: constants must not be identified by hash),
        # and one constant used twice as distinct objects
        a, b = g.real(max(1, max_depth - 2)), g.real(max(1, max_depth - 2))
        two = g.node(['Bin', 'Plus'], [g.node(['Bin', 'Times'], [g.node(['Num', -1, 0]), a], 'real'),
                                       g.node(['Bin', 'Times'], [g.node(['Num', -1, 1]), b], 'real')], 'real')
        tree = g.node(['Bin', 'Plus'], [tree, g.node(['Bin', 'Times'], [g.node(['Num', -1, 0]), two], 'real')], 'real')
    return {'tree': tree, 'betas': g.betas, 'rows': g.rows(n_rows) if variables else []}


def strip_sids(j):
    h = j['h']
    if h[0] == 'Belongs':
        h = ['Belongs', sorted(h[1])]
    return {'h': h, 'k': [strip_sids(k) for k in j['k']]}


def count_shared(j, seen=None, dup=None):
    seen = seen if seen is not None else set()
    dup = dup if dup is not None else set()
    s = j.get('sid')
    if s is not None:
        if s in seen:
            dup.add(s)
        seen.add(s)
    for k in j['k']:
        count_shared(k, seen, dup)
    return len(dup)
