"""Harness side of the expression bridge: JSON rose tree (see impl/bio_bridge.py) -> Gallina text."""
from common import coq_string


def cz(n):
    return f'({n})%Z' if n < 0 else f'{n}%Z'


def czlist(l):
    return '[' + '; '.join(cz(x) for x in l) + ']'


def head_to_coq(h):
    t = h[0]
    if t == 'Num':
        return f'(HNum ({cz(h[1])}, {cz(h[2])}))'
    if t == 'Beta':
        return f'(HBeta {coq_string(h[1])} {"true" if h[2] else "false"})'
    if t == 'Var':
        return f'(HVar {coq_string(h[1])})'
    if t == 'Draws':
        return f'(HDraws {coq_string(h[1])} {coq_string(h[2])})'
    if t == 'RV':
        return f'(HRV {coq_string(h[1])})'
    if t == 'Bin':
        return f'(HBin {h[1]})'
    if t == 'Un':
        return f'(HUn {h[1]})'
    if t == 'PowC':
        return f'(HPowC ({cz(h[1])}, {cz(h[2])}))'
    if t == 'Derive':
        return f'(HDerive {coq_string(h[1])})'
    if t == 'Integrate':
        return f'(HIntegrate {coq_string(h[1])})'
    if t == 'Belongs':
        return '(HBelongs [' + '; '.join(f'({cz(m)}, {cz(e)})' for m, e in h[1]) + '])'
    if t == 'MultSum':
        return 'HMultSum'
    if t == 'CondSum':
        return 'HCondSum'
    if t == 'Elem':
        return f'(HElem {czlist(h[1])})'
    if t == 'LinUtil':
        return 'HLinUtil'
    if t == 'LogLogit':
        return f'(HLogLogit {czlist(h[1])} {czlist(h[2])})'
    raise ValueError(f'unknown head {h}')


def json_to_coq(j):
    """Gallina term of type expr.  Shared sub-terms are let-bound when ids are present."""
    return '(Node ' + head_to_coq(j['h']) + ' [' + '; '.join(json_to_coq(k) for k in j['k']) + '])'


def tree_size(j):
    return 1 + sum(tree_size(k) for k in j['k'])


def tree_depth(j):
    return 1 + max([tree_depth(k) for k in j['k']] or [0])


def heads_in(j, acc=None):
    acc = acc if acc is not None else {}
    h = j['h']
    key = h[0] if h[0] not in ('Bin', 'Un') else h[1]
    acc[key] = acc.get(key, 0) + 1
    for k in j['k']:
        heads_in(k, acc)
    return acc
