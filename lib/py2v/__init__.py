"""py2v -- a fail-closed translator from a small, explicitly enumerated subset of Python to
Gallina (tie A of DESIGN.md).

The translator is *typed*: every local, argument and attribute has a declared or inferred
Gallina type among

    Z  R  bool  string  unit  (list T)  (option T)  (T1 * T2 * ...)  <opaque name>

Anything it does not understand raises `Untranslatable`; the caller reports that as a broken
tie (never silently skipped).

Statement forms
    x = e ; x op= e ; self.a = e         -> let
    if / elif / else                     -> if (joined on the assigned variables, or duplicated
                                            continuation when a branch returns)
    while c: body (with optional break)  -> BV.Model.PyBase.while_brk fuel ... (option result;
                                            None = fuel exhausted)
    for x in e: body                     -> fold_left
    return e ; raise ...                 -> value / None (option monad, when `partial=True`)
    docstrings, logger.*, warnings.warn  -> skipped (listed in `ignore_calls`)

Expressions: literals, names, attributes declared in the spec, arithmetic by type,
comparisons (chained), and/or/not, conditional expression, calls declared in `externals`,
f-strings with the format specs declared in `formats`, tuples, list literals, simple list
comprehensions, subscripts declared through externals.
"""
from __future__ import annotations

import ast
import re
from fractions import Fraction
from pathlib import Path


class Untranslatable(Exception):
    pass


COQ_KEYWORDS = {
    'as', 'at', 'cofix', 'else', 'end', 'exists', 'exists2', 'fix', 'for', 'forall', 'fun',
    'if', 'IF', 'in', 'let', 'match', 'mod', 'Prop', 'return', 'Set', 'then', 'Type', 'using',
    'where', 'with', 'Definition', 'Lemma', 'Theorem', 'Proof', 'Qed', 'list', 'nat', 'string',
    'bool', 'option', 'sum', 'prod', 'unit', 'id', 'fst', 'snd', 'length', 'map', 'filter', 'rev',
    'sqrt', 'exp', 'ln', 'max', 'min', 'pow', 'fuel', 'abs', 'value', 'name', 'index',
}


def mangle(n: str) -> str:
    n = n.replace('.', '_')
    if n in COQ_KEYWORDS or n.startswith('_'):
        return 'py_' + n.lstrip('_') + ('_' if n in COQ_KEYWORDS else '')
    return n


def decimal_to_R(src: str) -> str:
    """Exact rational for a Python float literal as written in the source."""
    fr = Fraction(src.replace('_', ''))
    if fr.denominator == 1:
        return f'{fr.numerator}%R' if fr.numerator >= 0 else f'(-{-fr.numerator})%R'
    sign = '-' if fr.numerator < 0 else ''
    return f'({sign}{abs(fr.numerator)} / {fr.denominator})%R'


class External:
    """Declared translation of a call / attribute.  `fn(args_code, args_types)` returns
    (code, type)."""

    def __init__(self, fn, doc=''):
        self.fn = fn
        self.doc = doc


def simple(coq, argtypes, ret, doc=''):
    """A call translated to the application of `coq` to its arguments."""

    def fn(tr, node, args):
        if len(args) != len(argtypes):
            raise Untranslatable(f'{coq}: expected {len(argtypes)} arguments, got {len(args)}')
        codes = []
        for (c, t), want in zip(args, argtypes):
            codes.append(tr.coerce(c, t, want, node))
        return f'({coq} ' + ' '.join(codes) + ')', ret

    return External(fn, doc)


class Translator:
    def __init__(self, source: str, filename='<src>', externals=None, attrs=None, formats=None,
                 ignore_calls=('logger.', 'warnings.warn', 'print')):
        self.source = source
        self.filename = filename
        self.tree = ast.parse(source)
        self.externals = dict(externals or {})
        self.attrs = dict(attrs or {})  # 'self.x' -> (code, type)
        self.formats = dict(formats or {})  # (type, spec) -> coq function
        self.ignore_calls = tuple(ignore_calls)
        self.uses_fuel = False
        self.partial = False

    # ------------------------------------------------------------------ lookup
    def find(self, qualname: str) -> ast.FunctionDef:
        parts = qualname.split('.')
        body = self.tree.body
        node = None
        for i, p in enumerate(parts):
            found = None
            for n in body:
                if isinstance(n, (ast.FunctionDef, ast.ClassDef)) and n.name == p:
                    found = n
            if found is None:
                raise Untranslatable(f'{self.filename}: {qualname} not found')
            node = found
            body = found.body
        if not isinstance(node, ast.FunctionDef):
            raise Untranslatable(f'{self.filename}: {qualname} is not a function')
        return node

    def err(self, node, msg):
        line = getattr(node, 'lineno', '?')
        seg = ''
        try:
            seg = ast.get_source_segment(self.source, node) or ''
        except Exception:
            pass
        raise Untranslatable(f'{self.filename}:{line}: {msg}: {seg[:120]!r}')

    # ------------------------------------------------------------------ types
    def coerce(self, code, have, want, node):
        if want is None or have == want:
            return code
        if have == 'Z' and want == 'R':
            return f'(IZR {code})'
        if have == 'bool' and want == 'Z':
            return f'(Z.b2z {code})'
        if have == 'bool' and want == 'R':
            return f'(IZR (Z.b2z {code}))'
        if want.startswith('option ') and have == want[len('option '):]:
            return f'(Some {code})'
        if have == 'none' and want.startswith('option '):
            return 'None'
        self.err(node, f'type mismatch: have {have}, want {want}')

    def unify(self, a, ta, b, tb, node):
        if ta == tb:
            return a, b, ta
        if {ta, tb} == {'Z', 'R'}:
            return self.coerce(a, ta, 'R', node), self.coerce(b, tb, 'R', node), 'R'
        if ta == 'bool' and tb in ('Z', 'R'):
            return self.coerce(a, ta, tb, node), b, tb
        if tb == 'bool' and ta in ('Z', 'R'):
            return a, self.coerce(b, tb, ta, node), ta
        if ta == 'none' and tb.startswith('option '):
            return 'None', b, tb
        if tb == 'none' and ta.startswith('option '):
            return a, 'None', ta
        if ta.startswith('option ') and ta[7:] == tb:
            return a, f'(Some {b})', ta
        if tb.startswith('option ') and tb[7:] == ta:
            return f'(Some {a})', b, tb
        self.err(node, f'cannot unify {ta} and {tb}')

    # ------------------------------------------------------------ expressions
    def dotted(self, node):
        if isinstance(node, ast.Name):
            return node.id
        if isinstance(node, ast.Attribute):
            b = self.dotted(node.value)
            return None if b is None else b + '.' + node.attr
        return None

    def expr(self, node, env, want=None):
        c, t = self._expr(node, env, want)
        if want is not None and t != want:
            c = self.coerce(c, t, want, node)
            t = want
        return c, t

    def _expr(self, node, env, want=None):
        if isinstance(node, ast.Constant):
            v = node.value
            if isinstance(v, bool):
                return ('true' if v else 'false'), 'bool'
            if isinstance(v, int):
                if want == 'R':
                    return (f'{v}%R' if v >= 0 else f'(-{-v})%R'), 'R'
                return (f'{v}%Z' if v >= 0 else f'(-{-v})%Z'), 'Z'
            if isinstance(v, float):
                src = ast.get_source_segment(self.source, node)
                return decimal_to_R(src), 'R'
            if isinstance(v, str):
                if not all(32 <= ord(ch) < 127 for ch in v):
                    self.err(node, 'non-ASCII string literal')
                return '"' + v.replace('"', '""') + '"%string', 'string'
            if v is None:
                return 'None', 'none'
            self.err(node, 'unsupported constant')
        if isinstance(node, ast.Name):
            if node.id in env:
                return mangle(node.id), env[node.id]
            d = node.id
            if d in self.attrs:
                return self.attrs[d]
            self.err(node, f'unknown name {node.id}')
        if isinstance(node, ast.Attribute):
            d = self.dotted(node)
            if d is not None and d in env:
                return mangle(d), env[d]
            if d is not None and d in self.attrs:
                return self.attrs[d]
            # attribute of a typed expression: externals keyed '.<attr>'
            key = '.' + node.attr
            if key in self.externals:
                base = self.expr(node.value, env)
                return self.externals[key].fn(self, node, [base])
            self.err(node, f'undeclared attribute {d}')
        if isinstance(node, ast.UnaryOp):
            if isinstance(node.op, ast.USub):
                c, t = self.expr(node.operand, env, want if want in ('R', 'Z') else None)
                if t == 'R':
                    return f'(- {c})%R', 'R'
                if t == 'Z':
                    return f'(- {c})%Z', 'Z'
                self.err(node, f'negation of {t}')
            if isinstance(node.op, ast.Not):
                c, t = self.expr(node.operand, env)
                return f'(negb {self.truth(c, t, node)})', 'bool'
            if isinstance(node.op, ast.UAdd):
                return self.expr(node.operand, env, want)
            self.err(node, 'unsupported unary operator')
        if isinstance(node, ast.BinOp):
            return self.binop(node, env, want)
        if isinstance(node, ast.BoolOp):
            parts = [self.truth(*self.expr(v, env), v) for v in node.values]
            op = ' && ' if isinstance(node.op, ast.And) else ' || '
            return '(' + op.join(parts) + ')', 'bool'
        if isinstance(node, ast.Compare):
            return self.compare(node, env)
        if isinstance(node, ast.IfExp):
            c = self.truth(*self.expr(node.test, env), node.test)
            a, ta = self.expr(node.body, env, want)
            b, tb = self.expr(node.orelse, env, want)
            a, b, t = self.unify(a, ta, b, tb, node)
            return f'(if {c} then {a} else {b})', t
        if isinstance(node, ast.Call):
            return self.call(node, env, want)
        if isinstance(node, ast.JoinedStr):
            return self.fstring(node, env)
        if isinstance(node, ast.Tuple):
            parts = [self.expr(e, env) for e in node.elts]
            return '(' + ', '.join(c for c, _ in parts) + ')', '(' + ' * '.join(t for _, t in parts) + ')'
        if isinstance(node, ast.List):
            et = None
            if want and want.startswith('list '):
                et = want[5:]
            parts = [self.expr(e, env, et) for e in node.elts]
            if parts:
                et = parts[0][1]
            if et is None:
                self.err(node, 'empty list of unknown type')
            return '[' + '; '.join(c for c, _ in parts) + ']', f'list {et}'
        if isinstance(node, ast.ListComp):
            return self.listcomp(node, env)
        if isinstance(node, ast.Subscript):
            key = 'subscript'
            base = self.expr(node.value, env)
            if isinstance(node.slice, ast.Slice):
                self.err(node, 'slices not supported')
            idx = self.expr(node.slice, env)
            k2 = f'subscript:{base[1]}'
            if k2 in self.externals:
                return self.externals[k2].fn(self, node, [base, idx])
            self.err(node, f'subscript on {base[1]} not declared')
        self.err(node, f'unsupported expression {type(node).__name__}')

    def truth(self, c, t, node):
        if t == 'bool':
            return c
        if t == 'Z':
            return f'(negb ({c} =? 0)%Z)'
        if t.startswith('option '):
            return f'(isSome {c})'
        if t == 'string':
            return f'(negb (String.eqb {c} ""))'
        if t.startswith('list '):
            return f'(negb (is_nil {c}))'
        self.err(node, f'truth value of {t}')

    def binop(self, node, env, want):
        op = node.op
        hint = want if want in ('R', 'Z') else None
        a, ta = self.expr(node.left, env, hint if hint == 'R' else None)
        b, tb = self.expr(node.right, env, hint if hint == 'R' else None)
        if isinstance(op, ast.Add) and ta == 'string' and tb == 'string':
            return f'({a} ++ {b})%string', 'string'
        if isinstance(op, ast.Add) and ta.startswith('list ') and ta == tb:
            return f'({a} ++ {b})%list', ta
        if isinstance(op, ast.Pow):
            if ta == 'Z' and tb == 'Z':
                return f'({a} ^ {b})%Z', 'Z'
            if tb == 'Z':
                a = self.coerce(a, ta, 'R', node)
                return f'(powerRZ {a} {b})', 'R'
            a = self.coerce(a, ta, 'R', node)
            b = self.coerce(b, tb, 'R', node)
            return f'(Rpower {a} {b})', 'R'
        if isinstance(op, ast.Div):
            a = self.coerce(a, ta, 'R', node)
            b = self.coerce(b, tb, 'R', node)
            return f'({a} / {b})%R', 'R'
        a, b, t = self.unify(a, ta, b, tb, node)
        if t not in ('Z', 'R'):
            self.err(node, f'arithmetic on {t}')
        sc = '%' + t
        if isinstance(op, ast.Add):
            return f'({a} + {b}){sc}', t
        if isinstance(op, ast.Sub):
            return f'({a} - {b}){sc}', t
        if isinstance(op, ast.Mult):
            return f'({a} * {b}){sc}', t
        if isinstance(op, ast.FloorDiv) and t == 'Z':
            return f'({a} / {b})%Z', 'Z'
        if isinstance(op, ast.Mod) and t == 'Z':
            return f'({a} mod {b})%Z', 'Z'
        self.err(node, 'unsupported binary operator')

    CMP_Z = {ast.Eq: '=?', ast.Lt: '<?', ast.LtE: '<=?', ast.Gt: '>?', ast.GtE: '>=?'}
    CMP_R = {ast.Eq: 'Reqb', ast.Lt: 'Rltb', ast.LtE: 'Rleb', ast.Gt: 'Rgtb', ast.GtE: 'Rgeb',
             ast.NotEq: 'Rneqb'}

    def compare(self, node, env):
        parts = []
        left = node.left
        for op, right in zip(node.ops, node.comparators):
            parts.append(self.compare1(left, op, right, env, node))
            left = right
        if len(parts) == 1:
            return parts[0], 'bool'
        return '(' + ' && '.join(parts) + ')', 'bool'

    def compare1(self, l, op, r, env, node):
        # `x is None` / `x is not None`
        if isinstance(op, (ast.Is, ast.IsNot)) or (
            isinstance(op, (ast.Eq, ast.NotEq)) and isinstance(r, ast.Constant) and r.value is None
        ):
            if not (isinstance(r, ast.Constant) and r.value is None):
                self.err(node, '`is` only supported against None')
            c, t = self.expr(l, env)
            if not t.startswith('option '):
                self.err(node, f'`is None` on non-option type {t}')
            s = f'(isSome {c})'
            return f'(negb {s})' if isinstance(op, (ast.Is, ast.Eq)) else s
        if isinstance(op, (ast.In, ast.NotIn)):
            a, ta = self.expr(l, env)
            b, tb = self.expr(r, env)
            k = f'in:{tb}'
            if k not in self.externals:
                self.err(node, f'membership in {tb} not declared')
            c, _ = self.externals[k].fn(self, node, [(a, ta), (b, tb)])
            return f'(negb {c})' if isinstance(op, ast.NotIn) else c
        a, ta = self.expr(l, env)
        b, tb = self.expr(r, env)
        a, b, t = self.unify(a, ta, b, tb, node)
        if t == 'Z':
            if isinstance(op, ast.NotEq):
                return f'(negb ({a} =? {b})%Z)'
            return f'({a} {self.CMP_Z[type(op)]} {b})%Z'
        if t == 'R':
            return f'({self.CMP_R[type(op)]} {a} {b})'
        if t == 'string':
            if isinstance(op, ast.Eq):
                return f'(String.eqb {a} {b})'
            if isinstance(op, ast.NotEq):
                return f'(negb (String.eqb {a} {b}))'
        if t == 'bool':
            if isinstance(op, ast.Eq):
                return f'(Bool.eqb {a} {b})'
            if isinstance(op, ast.NotEq):
                return f'(negb (Bool.eqb {a} {b}))'
        k = f'cmp:{t}:{type(op).__name__}'
        if k in self.externals:
            return self.externals[k].fn(self, node, [(a, t), (b, t)])[0]
        self.err(node, f'comparison on {t}')

    def call(self, node, env, want):
        d = self.dotted(node.func)
        if node.keywords and not (d and ('kw:' + d) in self.externals):
            self.err(node, 'keyword arguments not supported for this call')
        if d == 'int' and len(node.args) == 1:
            c, t = self.expr(node.args[0], env)
            if t == 'Z':
                return c, 'Z'
        if d == 'float' and len(node.args) == 1:
            c, t = self.expr(node.args[0], env)
            if t in ('Z', 'R'):
                return self.coerce(c, t, 'R', node), 'R'
        if d == 'len' and len(node.args) == 1:
            c, t = self.expr(node.args[0], env)
            if t.startswith('list '):
                return f'(Z.of_nat (List.length {c}))', 'Z'
            if t == 'string':
                return f'(Z.of_nat (String.length {c}))', 'Z'
        if d == 'abs' and len(node.args) == 1:
            c, t = self.expr(node.args[0], env)
            if t == 'R':
                return f'(Rabs {c})', 'R'
            if t == 'Z':
                return f'(Z.abs {c})', 'Z'
        if d is not None and d in self.externals:
            args = [self.expr(a, env) for a in node.args]
            if node.keywords:
                return self.externals['kw:' + d].fn(self, node, args, {k.arg: self.expr(k.value, env) for k in node.keywords})
            return self.externals[d].fn(self, node, args)
        if d is not None and ('kw:' + d) in self.externals:
            args = [self.expr(a, env) for a in node.args]
            return self.externals['kw:' + d].fn(self, node, args, {k.arg: self.expr(k.value, env) for k in node.keywords})
        # method on a typed expression: externals keyed '.<method>()'
        if isinstance(node.func, ast.Attribute):
            key = '.' + node.func.attr + '()'
            if key in self.externals:
                base = self.expr(node.func.value, env)
                args = [base] + [self.expr(a, env) for a in node.args]
                return self.externals[key].fn(self, node, args)
        self.err(node, f'call to undeclared function {d}')

    def fstring(self, node, env):
        parts = []
        for v in node.values:
            if isinstance(v, ast.Constant):
                c, _ = self._expr(v, env)
                parts.append(c)
            elif isinstance(v, ast.FormattedValue):
                if v.conversion != -1:
                    self.err(node, 'f-string conversion not supported')
                spec = ''
                if v.format_spec is not None:
                    if not all(isinstance(x, ast.Constant) for x in v.format_spec.values):
                        self.err(node, 'dynamic format spec')
                    spec = ''.join(x.value for x in v.format_spec.values)
                c, t = self.expr(v.value, env)
                if t == 'string' and spec == '':
                    parts.append(c)
                elif (t, spec) in self.formats:
                    parts.append(f'({self.formats[(t, spec)]} {c})')
                else:
                    self.err(node, f'format spec {spec!r} on type {t} not declared')
            else:
                self.err(node, 'unsupported f-string part')
        if not parts:
            return '""%string', 'string'
        return '(' + ' ++ '.join(parts) + ')%string', 'string'

    def listcomp(self, node, env):
        if len(node.generators) != 1:
            self.err(node, 'nested comprehension')
        g = node.generators[0]
        it, tit = self.expr(g.iter, env)
        if not tit.startswith('list '):
            self.err(node, f'comprehension over {tit}')
        et = tit[5:]
        env2 = dict(env)
        pat = self.bind_target(g.target, et, env2, node)
        src = it
        for cond in g.ifs:
            c = self.truth(*self.expr(cond, env2), cond)
            src = f'(List.filter (fun {pat} => {c}) {src})'
        body, tb = self.expr(node.elt, env2)
        return f'(List.map (fun {pat} => {body}) {src})', f'list {tb}'

    def bind_target(self, target, typ, env, node):
        if isinstance(target, ast.Name):
            env[target.id] = typ
            return mangle(target.id)
        if isinstance(target, ast.Tuple):
            ts = split_tuple_type(typ)
            if len(ts) != len(target.elts):
                self.err(node, f'cannot destructure {typ}')
            pats = [self.bind_target(e, t, env, node) for e, t in zip(target.elts, ts)]
            return "'(" + ', '.join(pats) + ')'
        self.err(node, 'unsupported binding target')

    # -------------------------------------------------------------- statements
    def target_name(self, t, node):
        if isinstance(t, ast.Name):
            return t.id
        d = self.dotted(t)
        if d is not None:
            return d
        self.err(node, 'unsupported assignment target')

    def assigned(self, stmts):
        out = []

        def add(n):
            if n not in out:
                out.append(n)

        for s in stmts:
            if isinstance(s, ast.Assign):
                for t in s.targets:
                    if isinstance(t, ast.Tuple):
                        for e in t.elts:
                            add(self.target_name(e, s))
                    else:
                        add(self.target_name(t, s))
            elif isinstance(s, (ast.AugAssign, ast.AnnAssign)):
                add(self.target_name(s.target, s))
            elif isinstance(s, ast.If):
                for n in self.assigned(s.body) + self.assigned(s.orelse):
                    add(n)
            elif isinstance(s, (ast.While, ast.For)):
                for n in self.assigned(s.body):
                    add(n)
        return out

    def terminates(self, stmts):
        """every path through stmts ends in return/raise"""
        if not stmts:
            return False
        s = stmts[-1]
        if isinstance(s, (ast.Return, ast.Raise)):
            return True
        if isinstance(s, ast.If):
            return self.terminates(s.body) and self.terminates(s.orelse)
        return False

    def ignorable(self, s):
        if isinstance(s, ast.Expr):
            if isinstance(s.value, ast.Constant) and isinstance(s.value.value, str):
                return True
            if isinstance(s.value, ast.Call):
                d = self.dotted(s.value.func) or ''
                return any(d.startswith(p) for p in self.ignore_calls)
        if isinstance(s, ast.Pass):
            return True
        return False

    def tup(self, names):
        if not names:
            return 'tt'
        if len(names) == 1:
            return mangle(names[0])
        return '(' + ', '.join(mangle(n) for n in names) + ')'

    def pat(self, names):
        if not names:
            return '_'
        if len(names) == 1:
            return mangle(names[0])
        return "'(" + ', '.join(mangle(n) for n in names) + ')'

    def ret(self, code):
        return f'(Some {code})' if self.partial else code

    def block(self, stmts, env, tail, rettype):
        """Translate stmts; `tail(env)` gives the code when control falls off the end."""
        if not stmts:
            return tail(env)
        s, rest = stmts[0], stmts[1:]
        if self.ignorable(s):
            return self.block(rest, env, tail, rettype)
        if isinstance(s, ast.Return):
            if s.value is None:
                return self.ret('tt')
            c, t = self.expr(s.value, env, rettype)
            return self.ret(c)
        if isinstance(s, ast.Raise):
            if not self.partial:
                self.err(s, '`raise` in a function not declared partial')
            return 'None'
        if isinstance(s, (ast.Assign, ast.AnnAssign, ast.AugAssign)):
            if isinstance(s, ast.Assign):
                if len(s.targets) != 1:
                    self.err(s, 'multiple targets')
                target, value = s.targets[0], s.value
            elif isinstance(s, ast.AnnAssign):
                target, value = s.target, s.value
                if value is None:
                    return self.block(rest, env, tail, rettype)
            else:
                target = s.target
                value = ast.BinOp(left=_load(s.target), op=s.op, right=s.value)
                ast.copy_location(value, s)
                ast.fix_missing_locations(value)
            env2 = dict(env)
            if isinstance(target, ast.Tuple):
                c, t = self.expr(value, env)
                p = self.bind_target_assign(target, t, env2, s)
                return f'let {p} := {c} in\n{self.block(rest, env2, tail, rettype)}'
            n = self.target_name(target, s)
            wantt = env.get(n)
            if wantt is None and n in self.attrs:
                wantt = self.attrs[n][1]
            c, t = self.expr(value, env, wantt if wantt in ('R',) or (wantt or '').startswith('option ') else None)
            if wantt is not None and t != wantt:
                c = self.coerce(c, t, wantt, s)
                t = wantt
            if t == 'none':
                self.err(s, 'assignment of None to a variable of unknown option type')
            env2[n] = t
            return f'let {mangle(n)} := {c} in\n{self.block(rest, env2, tail, rettype)}'
        if isinstance(s, ast.If):
            c = self.truth(*self.expr(s.test, env), s.test)
            if self.terminates(s.body):
                a = self.block(s.body, env, tail, rettype)
                b = self.block(list(s.orelse) + rest, env, tail, rettype)
                return f'if {c} then ({a})\nelse ({b})'
            if s.orelse and self.terminates(s.orelse):
                a = self.block(list(s.body) + rest, env, tail, rettype)
                b = self.block(s.orelse, env, tail, rettype)
                return f'if {c} then ({a})\nelse ({b})'
            if self.contains_exit(s.body) or self.contains_exit(s.orelse):
                # a return/raise/break on some path: duplicate the continuation
                a = self.block(list(s.body) + rest, env, tail, rettype)
                b = self.block(list(s.orelse) + rest, env, tail, rettype)
                return f'if {c} then ({a})\nelse ({b})'
            names = self.assigned(s.body + s.orelse)
            types = {}

            def t_branch(stmts_):
                def tl(e):
                    for n in names:
                        if n not in e:
                            self.err(s, f'variable {n} not defined on every path of the if')
                        if n in types and types[n] != e[n]:
                            self.err(s, f'variable {n} has types {types[n]} and {e[n]} on the two paths')
                        types[n] = e[n]
                    return self.tup(names)

                return self.block(stmts_, env, tl, rettype)

            a = t_branch(s.body)
            b = t_branch(s.orelse)
            env2 = dict(env)
            env2.update(types)
            return (f'let {self.pat(names)} := (if {c} then ({a}) else ({b})) in\n'
                    f'{self.block(rest, env2, tail, rettype)}')
        if isinstance(s, ast.While):
            if s.orelse:
                self.err(s, 'while-else')
            self.uses_fuel = True
            names = [n for n in self.assigned(s.body)]
            for n in names:
                if n not in env:
                    self.err(s, f'loop variable {n} not initialised before the loop')
            cond = self.truth(*self.expr(s.test, env), s.test)

            def tl(e):
                for n in names:
                    if e[n] != env[n]:
                        self.err(s, f'loop variable {n} changes type {env[n]} -> {e[n]}')
                return f'({self.tup(names)}, true)'

            body = self.loop_block(s.body, env, tl, names)
            p = self.pat(names)
            if not self.partial:
                self.err(s, 'while loop in a function not declared partial')
            return (f'match while_brk fuel (fun {p} => {cond})\n  (fun {p} => {body})\n  {self.tup(names)} with\n'
                    f'| None => None\n| Some {p.lstrip(chr(39))} =>\n{self.block(rest, env, tail, rettype)}\nend')
        if isinstance(s, ast.For):
            if s.orelse:
                self.err(s, 'for-else')
            it, tit = self.expr(s.iter, env)
            if not tit.startswith('list '):
                self.err(s, f'for over {tit}')
            # variables assigned in the body and defined before the loop are carried from one iteration to the
            # next; the others are temporaries local to one iteration (they must not be used after the loop:
            # a later use fails as 'unknown name')
            names = [n for n in self.assigned(s.body) if n in env]
            env2 = dict(env)
            xp = self.bind_target(s.target, tit[5:], env2, s)
            if self.contains_exit(s.body):
                self.err(s, 'return/break inside for')

            def tl(e):
                for n in names:
                    if e[n] != env[n]:
                        self.err(s, f'loop variable {n} changes type')
                return self.tup(names)

            body = self.block(s.body, env2, tl, rettype)
            p = self.pat(names)
            return (f'let {p} := List.fold_left (fun {p if p != "_" else "_"} {xp} => {body}) {it} {self.tup(names)} in\n'
                    f'{self.block(rest, env, tail, rettype)}')
        self.err(s, f'unsupported statement {type(s).__name__}')

    def bind_target_assign(self, target, typ, env, node):
        ts = split_tuple_type(typ)
        if len(ts) != len(target.elts):
            self.err(node, f'cannot destructure {typ}')
        pats = []
        for e, t in zip(target.elts, ts):
            n = self.target_name(e, node)
            env[n] = t
            pats.append(mangle(n))
        return "'(" + ', '.join(pats) + ')'

    def contains_exit(self, stmts):
        for s in stmts:
            for n in ast.walk(s):
                if isinstance(n, (ast.Return, ast.Raise, ast.Break, ast.Continue)):
                    return True
        return False

    def loop_block(self, stmts, env, tail, names):
        """Body of a while loop: returns (state, continue?)"""
        if not stmts:
            return tail(env)
        s, rest = stmts[0], stmts[1:]
        if isinstance(s, ast.Break):
            return f'({self.tup(names)}, false)'
        if isinstance(s, (ast.Return, ast.Raise, ast.Continue)):
            self.err(s, 'return/raise/continue inside while')
        if isinstance(s, ast.If) and self.contains_exit(s.body + s.orelse):
            c = self.truth(*self.expr(s.test, env), s.test)
            a = self.loop_block(list(s.body) + rest, env, tail, names)
            b = self.loop_block(list(s.orelse) + rest, env, tail, names)
            return f'if {c} then ({a}) else ({b})'
        if isinstance(s, (ast.While, ast.For)) and self.contains_exit(s.body):
            self.err(s, 'nested loop with exit')
        # ordinary statement: translate it with the rest as continuation
        return self.block([s], env, lambda e: self.loop_block(rest, e, tail, names), None)

    # --------------------------------------------------------------- function
    def function(self, qualname, args, ret, coqname=None, partial=False, result_attrs=None,
                 skip_self=True, pre_env=None, doc=''):
        """args: ordered dict python-name -> type for the parameters that become Gallina
        parameters (others must not be used).  `result_attrs`: list of 'self.x' pseudo-variables
        returned (as a tuple) when control falls off the end."""
        fd = self.find(qualname)
        self.partial = partial
        self.uses_fuel = False
        pyargs = [a.arg for a in fd.args.args]
        if skip_self and pyargs and pyargs[0] == 'self':
            pyargs = pyargs[1:]
        if fd.args.vararg or fd.args.kwarg or fd.args.kwonlyargs:
            raise Untranslatable(f'{qualname}: *args/**kwargs in signature')
        declared = [a for a in args if not a.startswith('self.') and a not in (pre_env or {})]
        if pyargs != declared:
            raise Untranslatable(f'{qualname}: signature changed: source has {pyargs}, spec expects {declared}')
        env = dict(pre_env or {})
        env.update(args)

        def tail(e):
            if result_attrs is not None:
                for n in result_attrs:
                    if n not in e:
                        raise Untranslatable(f'{qualname}: attribute {n} not assigned on every path')
                return self.ret(self.tup(result_attrs))
            raise Untranslatable(f'{qualname}: control falls off the end of the function')

        body = self.block(fd.body, env, tail, ret)
        params = ' '.join(f'({mangle(a)} : {t})' for a, t in args.items())
        fuel = '(fuel : nat) ' if self.uses_fuel else ''
        rt = ret
        if result_attrs is not None:
            rt = '(' + ' * '.join(env.get(n) or self.attrs[n][1] for n in result_attrs) + ')' if len(result_attrs) != 1 else (env.get(result_attrs[0]) or self.attrs[result_attrs[0]][1])
        if partial:
            rt = f'option {rt}'
        name = coqname or mangle(qualname.split('.')[-1])
        src = f'(* from {self.filename}:{fd.lineno} {qualname} *)\n'
        return f'{src}Definition {name} {fuel}{params} : {rt} :=\n{body}.\n'


def _load(t):
    t2 = ast.parse(ast.unparse(t), mode='eval').body
    return t2


def split_tuple_type(t):
    t = t.strip()
    if t.startswith('(') and t.endswith(')'):
        t = t[1:-1]
    parts, depth, cur = [], 0, ''
    for ch in t:
        if ch == '(':
            depth += 1
        if ch == ')':
            depth -= 1
        if ch == '*' and depth == 0:
            parts.append(cur.strip())
            cur = ''
        else:
            cur += ch
    parts.append(cur.strip())
    return parts


def load(relpath, **kw) -> Translator:
    import os
    p = Path(os.environ.get('VERIF_REPO', '/repo')) / relpath
    try:
        src = p.read_text()
    except Exception as e:
        raise Untranslatable(f'cannot read {relpath}: {e}')
    try:
        return Translator(src, relpath, **kw)
    except SyntaxError as e:
        raise Untranslatable(f'{relpath}: syntax error {e}')
