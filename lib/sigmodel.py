"""Harness side of the signature / id-table correspondence (streams C01/sig, C03/ids):
parses the bytes produced by Expression.get_signature into the fields the engine's reader extracts
(Model/Sig.v `line`), canonicalises Python object ids into small positive labels (order of first
occurrence), and emits the Gallina terms."""
import re

from bridge import cz, czlist, head_to_coq
from common import coq_string
from values import dyadic

CLS_BIN = {'Plus': 'Plus', 'Minus': 'Minus', 'Times': 'Times', 'Divide': 'Divide', 'Power': 'Power',
           'bioMin': 'BMin', 'bioMax': 'BMax', 'And': 'And', 'Or': 'Or', 'Equal': 'Eq', 'NotEqual': 'Ne',
           'LessOrEqual': 'Le', 'GreaterOrEqual': 'Ge', 'Less': 'Lt', 'Greater': 'Gt'}
CLS_UN = {'UnaryMinus': 'UMinus', 'exp': 'Exp', 'log': 'Log', 'logzero': 'Logzero', 'sin': 'Sin', 'cos': 'Cos',
          'bioNormalCdf': 'NormalCdf', 'MonteCarlo': 'MonteCarlo', 'PanelLikelihoodTrajectory': 'PanelTraj'}
KIND = {'Variable': 'KVar', 'DefineVariable': 'KVar', 'bioDraws': 'KDraws', 'RandomVariable': 'KRV'}


class Labels:
    def __init__(self):
        self.m = {}

    def __call__(self, pyid):
        pyid = int(pyid)
        if pyid not in self.m:
            self.m[pyid] = len(self.m) + 1
        return self.m[pyid]


def cd(x):
    m, e = dyadic(float(x))
    return f'({cz(m)}, {cz(e)})'


class BadLine(Exception):
    pass


def parse_line(text, lab):
    """-> Gallina term of type `line`"""
    m = re.match(r'^<([^>]+)>\{(\d+)\}(.*)$', text, re.S)
    if not m:
        raise BadLine(text)
    cls, pid, rest = m.group(1), lab(m.group(2)), m.group(3)
    P = f'{pid}%positive'
    if cls == 'Beta':
        m2 = re.match(r'^"(.*)"\[(-?\d+)\],(\d+),(\d+)$', rest, re.S)
        if not m2:
            raise BadLine(text)
        k = 'KFreeBeta' if int(m2.group(2)) == 0 else 'KFixedBeta'
        return f'(LLit {P} {k} {coq_string(m2.group(1))} {cz(int(m2.group(3)))} {cz(int(m2.group(4)))})'
    if cls in KIND:
        m2 = re.match(r'^"(.*)",(\d+),(\d+)$', rest, re.S)
        if not m2:
            raise BadLine(text)
        return f'(LLit {P} {KIND[cls]} {coq_string(m2.group(1))} {cz(int(m2.group(2)))} {cz(int(m2.group(3)))})'
    if cls == 'Numeric':
        m2 = re.match(r'^,(.+)$', rest)
        if not m2:
            raise BadLine(text)
        return f'(LNum {P} {cd(m2.group(1))})'
    if cls == 'PowerConstant':
        m2 = re.match(r'^,(\d+),(.+)$', rest)
        if not m2:
            raise BadLine(text)
        return f'(LPowC {P} {lab(m2.group(1))}%positive {cd(m2.group(2))})'
    if cls in ('Derive', 'Integrate'):
        m2 = re.match(r'^,(\d+),(\d+)$', rest)
        if not m2:
            raise BadLine(text)
        h = '(HDerive "")' if cls == 'Derive' else '(HIntegrate "")'
        return f'(LIdx {P} {h} {lab(m2.group(1))}%positive {cz(int(m2.group(2)))})'
    m2 = re.match(r'^\((\d+)\)(.*)$', rest, re.S)
    if not m2:
        raise BadLine(text)
    n, items = int(m2.group(1)), m2.group(2)
    fields = items.split(',')[1:] if items else []
    if cls in CLS_BIN or cls in CLS_UN or cls == 'bioMultSum':
        if len(fields) != n:
            raise BadLine(text)
        h = f'(HBin {CLS_BIN[cls]})' if cls in CLS_BIN else (f'(HUn {CLS_UN[cls]})' if cls in CLS_UN else 'HMultSum')
        return f'(LGen {P} {h} [' + '; '.join(f'{lab(x)}%positive' for x in fields) + '])'
    if cls == 'BelongsTo':
        if len(fields) != n + 1:
            raise BadLine(text)
        st = sorted(fields[1:], key=float)
        return f'(LBel {P} {lab(fields[0])}%positive [' + '; '.join(cd(x) for x in st) + '])'
    if cls == 'ConditionalSum':
        if len(fields) != 2 * n:
            raise BadLine(text)
        return f'(LCond {P} [' + '; '.join(f'({lab(fields[i])}%positive, {lab(fields[i + 1])}%positive)' for i in range(0, 2 * n, 2)) + '])'
    if cls == 'Elem':
        if len(fields) != 2 * n + 1:
            raise BadLine(text)
        return (f'(LElem {P} {lab(fields[0])}%positive [' +
                '; '.join(f'({cz(int(fields[i]))}, {lab(fields[i + 1])}%positive)' for i in range(1, 2 * n + 1, 2)) + '])')
    if cls == 'bioLinearUtility':
        if len(fields) != 6 * n:
            raise BadLine(text)
        ts = []
        for i in range(0, 6 * n, 6):
            b, bi, bn, v, vi, vn = fields[i:i + 6]
            ts.append(f'(({lab(b)}%positive, {cz(int(bi))}, {coq_string(bn)}), ({lab(v)}%positive, {cz(int(vi))}, {coq_string(vn)}))')
        return f'(LLin {P} [' + '; '.join(ts) + '])'
    if cls in ('LogLogit', '_bioLogLogit', '_bioLogLogitFullChoiceSet'):
        if len(fields) != 3 * n + 1:
            raise BadLine(text)
        al = [f'({cz(int(fields[i]))}, {lab(fields[i + 1])}%positive, {lab(fields[i + 2])}%positive)' for i in range(1, 3 * n + 1, 3)]
        return f'(LLogit {P} {lab(fields[0])}%positive [' + '; '.join(al) + '])'
    raise BadLine(text)


def lexpr_to_coq(g, lab):
    """graph JSON with Python ids (bio_bridge.expr_to_json(with_ids=True)) -> Gallina lexpr"""
    h = g['h']
    if h[0] == 'Belongs':
        h = ['Belongs', sorted(h[1], key=lambda d: d[0] * 2.0 ** d[1])]
    return (f'(LNode {lab(g["id"])}%positive ' + head_to_coq(h) + ' [' +
            '; '.join(lexpr_to_coq(k, lab) for k in g['k']) + '])')


def strlist(l):
    return '[' + '; '.join(coq_string(x) for x in l) + ']'


def idtable_to_coq(ids):
    return (f'(mkId {strlist(ids["free"])} {strlist(ids["fixed"])} {strlist(ids["rv"])} '
            f'{strlist(ids["draws"])} {strlist(ids["vars"])})')


def label_all(graphs, sigs):
    """one labelling for a case: labels in order of first occurrence in the object graphs"""
    lab = Labels()

    def walk(g):
        lab(g['id'])
        for k in g['k']:
            walk(k)
    for g in graphs:
        walk(g)
    return lab
