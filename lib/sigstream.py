"""Streams C01/sig and C03/ids (shared): implementation's IdManager tables and signature bytes vs the
models Model/IdMgr.v (prepare) and Model/Sig.v (signature, decode/resolve), evaluated in Coq."""
import json

from common import parse_bools
from gen_expr import BETA_NAMES, VAR_NAMES, Gen, count_shared
from sigmodel import BadLine, idtable_to_coq, label_all, lexpr_to_coq, parse_line, strlist

HEADER = ('From BV Require Import Model.PyBase Model.Expr Model.IdMgr Model.Sig.\n'
          'Open Scope Z_scope. Open Scope string_scope.\n')


def gen_sig_case(rng, malformed=False):
    g = Gen(rng, variables=True, max_depth=rng.choice([2, 3, 4]), share_p=0.25)
    n = rng.choice([1, 1, 2, 3])
    trees = [g.real(g.max_depth) for _ in range(n)]
    betas = g.betas
    rows = g.rows(2)
    kind = None
    if malformed:
        kind = rng.choice(['free+fixed', 'beta=column', 'beta=column2'])
        if kind == 'free+fixed':
            nm = rng.choice(BETA_NAMES)
            a = {'h': ['Beta', nm, False], 'k': []}
            b = {'h': ['Beta', nm + '', True], 'k': []}
            betas = dict(betas)
            # two Beta objects with one name and different status: built outside the beta table
            trees = [t for t in trees if not uses_beta(t, nm)] or []
            trees.append({'h': ['Bin', 'Plus'], 'k': [a, {'h': ['Num', 1, 0], 'k': []}]})
            trees.append({'h': ['Bin', 'Times'], 'k': [b, {'h': ['Num', 3, -1], 'k': []}]})
            betas[nm] = {'value': 0.5, 'fixed': False, 'positive': True, 'lb': None, 'ub': None}
        else:
            col = rng.choice(VAR_NAMES)
            fixed = kind == 'beta=column2'
            trees.append({'h': ['Bin', 'Plus'], 'k': [{'h': ['Beta', col, fixed], 'k': []}, {'h': ['Var', col], 'k': []}]})
            betas = dict(betas)
            betas[col] = {'value': 0.25, 'fixed': fixed, 'positive': True, 'lb': None, 'ub': None}
    # give bounds to some free betas (C03: bounds follow names)
    for i, (nm, b) in enumerate(sorted(betas.items())):
        if not b['fixed'] and rng.random() < 0.6:
            b['lb'] = -float(rng.randint(1, 9)) - i / 4.0
            b['ub'] = float(rng.randint(1, 9)) + i / 8.0
    return {'trees': trees, 'betas': betas, 'rows': rows, 'malformed': kind}


def uses_beta(t, nm):
    if t['h'][0] == 'Beta' and t['h'][1] == nm:
        return True
    return any(uses_beta(k, nm) for k in t['k'])


def run_sig_streams(ctx, st_sig, st_ids, n_cases, n_bad):
    rng = ctx.sub_rng('sig')
    cases = [gen_sig_case(rng) for _ in range(n_cases)] + [gen_sig_case(rng, malformed=True) for _ in range(n_bad)]
    res = ctx.impl_cases('c01_sig.py', cases)
    items, meta = [], []
    for c, r in zip(cases, res):
        light = {'trees': c['trees'], 'betas': {k: [v['value'], v['fixed'], v['lb'], v['ub']] for k, v in c['betas'].items()},
                 'malformed': c['malformed']}
        if 'crash' in r or 'build_exc' in r:
            st_sig.disagree(light, 'buildable', r)
            continue
        cols = list(c['rows'][0].keys()) if c['rows'] else []
        if c['malformed']:
            st_ids.record(light, nontrivial=True)
            ok_refused = 'prepare_exc' in r and r['prepare_exc'].startswith('BiogemeError')
            if not ok_refused:
                ctx.violation(f'C03/ids/duplicate-accepted/{c["malformed"]}',
                              'a name used for two different kinds of element is not refused with the library error',
                              light, 'BiogemeError', r.get('prepare_exc', 'accepted'))
            # the model must refuse it too
            from bridge import json_to_coq
            from gen_expr import strip_sids
            fs = '[' + '; '.join(json_to_coq(strip_sids(t)) for t in c['trees']) + ']'
            items.append(f'[match prepare {fs} {strlist(cols)} with None => true | Some _ => false end]')
            meta.append(('bad', c, light, 1))
            continue
        if 'prepare_exc' in r:
            st_ids.disagree(light, 'accepted by the model generator', r['prepare_exc'])
            ctx.violation('C03/ids/valid-refused', 'a specification without fault is refused', light, 'accepted', r['prepare_exc'])
            continue
        ids = r['ids']
        # ---------- property oracles evaluated directly on the implementation (C03)
        direct_id_oracles(ctx, c, ids, light)
        lab = label_all(r['graphs'], r['sigs'])
        try:
            lines = [[parse_line(t, lab) for t in sig] for sig in r['sigs']]
        except BadLine as e:
            st_sig.disagree(light, 'a parsable signature line', str(e))
            continue
        ls = [lexpr_to_coq(g, lab) for g in r['graphs']]
        t = idtable_to_coq(ids)
        fs = '[' + '; '.join(f'erase {l}' for l in ls) + ']'
        checks = [f'match prepare {fs} {strlist(cols)} with Some t => idtable_eqb t {t} | None => false end']
        for l, lns in zip(ls, lines):
            checks.append(f'sig_agrees {t} {l} [' + '; '.join(lns) + ']')
            checks.append(f'decode_agrees {t} {l}')
        items.append('[' + ';\n '.join(checks) + ']')
        meta.append(('ok', c, light, len(checks)))
        nsh = sum(count_shared_graph(g) for g in r['graphs'])
        st_sig.record(light, nontrivial=sum(len(s) for s in r['sigs']) >= 4)
        st_ids.record(light, nontrivial=len(ids['free']) + len(ids['fixed']) >= 2)
        st_sig.extra['cases_with_shared_objects'] = st_sig.extra.get('cases_with_shared_objects', 0) + (1 if nsh else 0)
        st_sig.extra['side_by_side'] = st_sig.extra.get('side_by_side', 0) + (1 if len(c['trees']) > 1 else 0)
    B = 60
    files = {f'sig_{i // B}': HEADER + 'Eval vm_compute in [\n' + ';\n'.join(items[i:i + B]) + '].\n'
             for i in range(0, len(items), B)}
    outs = ctx.coq_eval_many(files)
    for i in range(0, len(items), B):
        ok, out = outs[f'sig_{i // B}']
        want = sum(m[3] for m in meta[i:i + B])
        bs = parse_bools(out) if ok else []
        if len(bs) != want:
            ctx.stream_broken('sig', 'model evaluation failed: ' + out[-700:])
            continue
        p = 0
        for kind, c, light, n in meta[i:i + B]:
            got = bs[p:p + n]
            p += n
            if all(got):
                continue
            if kind == 'bad':
                st_ids.disagree(light, 'model refuses (prepare = None)', 'model accepts')
            else:
                if not got[0]:
                    st_ids.disagree(light, 'model id table differs from IdManager', None)
                for j in range(1, n, 2):
                    if not got[j]:
                        st_sig.disagree(light, f'signature of formula {(j - 1) // 2} differs from the model', None)
                    if j + 1 < n and not got[j + 1]:
                        st_sig.disagree(light, f'decode(signature) <> resolve(erase) for formula {(j - 1) // 2}', None)
    for st in (st_sig, st_ids):
        if st.disagreements:
            ctx.stream_broken(st.name, f'{len(st.disagreements)} disagreements; first: {json.dumps(st.disagreements[0], default=str)[:700]}')


def count_shared_graph(g):
    seen, dup = set(), set()

    def walk(x):
        if x['k']:
            if x['id'] in seen:
                dup.add(x['id'])
            seen.add(x['id'])
        for k in x['k']:
            walk(k)
    walk(g)
    return len(dup)


def direct_id_oracles(ctx, c, ids, light):
    """C03 stated directly on the implementation's tables."""
    free = sorted(n for n, b in c['betas'].items() if not b['fixed'] and any(uses_beta(t, n) for t in c['trees']))
    fixed = sorted(n for n, b in c['betas'].items() if b['fixed'] and any(uses_beta(t, n) for t in c['trees']))
    if ids['free'] != free or ids['fixed'] != fixed:
        ctx.violation('C03/ids/names', 'the reported lists of free / fixed parameters are not the sorted names used in the formulas',
                      light, {'free': free, 'fixed': fixed}, {'free': ids['free'], 'fixed': ids['fixed']})
        return
    exp_vals = [c['betas'][n]['value'] for n in free]
    exp_bounds = [[c['betas'][n]['lb'], c['betas'][n]['ub']] for n in free]
    if ids['free_values'] != exp_vals:
        ctx.violation('C03/ids/values-by-name', 'entry i of the free-parameter value vector is not the value of the i-th name',
                      light, exp_vals, ids['free_values'])
    if ids['bounds'] != exp_bounds:
        ctx.violation('C03/ids/bounds-by-name', 'entry i of the bounds list is not the bounds of the i-th name',
                      light, exp_bounds, ids['bounds'])
    if ids['fixed_values'] != [c['betas'][n]['value'] for n in fixed]:
        ctx.violation('C03/ids/fixed-values', 'fixed parameters do not keep exactly the value they were given',
                      light, [c['betas'][n]['value'] for n in fixed], ids['fixed_values'])
