"""Driver: ./check <id> [--tier quick|thorough] [--replay path]"""
import argparse
import importlib
import os
import sys
import traceback

sys.path.insert(0, '/verif/lib')
from common import Ctx  # noqa: E402


def main():
    ap = argparse.ArgumentParser()
    ap.add_argument('pid')
    ap.add_argument('--tier', default=None)
    ap.add_argument('--replay', default=None)
    a = ap.parse_args()
    tier = a.tier or os.environ.get('VERIF_TIER') or 'quick'
    if tier not in ('quick', 'thorough'):
        tier = 'quick'
    try:
        seed = int(os.environ.get('VERIF_SEED', '0') or 0)
    except ValueError:
        seed = 0
    mod = importlib.import_module(f'props.{a.pid}')
    ctx = Ctx(a.pid, tier, seed)
    try:
        if a.replay:
            rc = mod.replay(ctx, a.replay)
            sys.exit(rc)
        mod.run(ctx)
        rc = ctx.finish()
    except SystemExit:
        raise
    except Exception:
        # An exception of the checking machinery itself.  On the unchanged tree this never happens (every run there is part of
        # the evidence); on a changed tree it means that a stream or an extractor could not do its work, i.e. the property is no
        # longer shown to hold: it is reported like any other correspondence that no longer checks (VIOLATION ...
        # no-failing-input-found, the traceback in the replay file) unless concrete failing inputs were already found.
        tb = traceback.format_exc()
        sys.stderr.write(tb)
        if a.replay:
            print(f'[{a.pid}] INTERNAL ERROR in the checking machinery (not a verdict)', flush=True)
            sys.exit(2)
        try:
            ctx.broken.append({'kind': 'harness', 'name': f'{a.pid}/harness-exception', 'detail': tb[-1500:]})
            rc = ctx.finish()
        except Exception:
            traceback.print_exc()
            print(f'[{a.pid}] INTERNAL ERROR in the checking machinery (not a verdict)', flush=True)
            import shutil
            shutil.rmtree(ctx.scratch, ignore_errors=True)
            sys.exit(2)
    sys.exit(rc)


main()
