"""C09 -- Panel likelihood is the product over each individual's rows, with shared draws.

Tie B.  Model: rocq/Model/Panel.v (count_groups / panel_ok / build_map / traj / mc / sample_size), theorems:
rocq/Proofs/PanelP.v, rocq/Properties/C09.v.  Streams:

  panel_map  generated identifier columns (+ histories: rebuild, Database.remove) through Database.panel;
             the refusal / the individualMap / the row permutation / the sample size are compared with the
             model inside Coq (vm_compute), and the property is evaluated directly on what the database holds.
  panel_ll   panel tables with dyadic data, per-individual values of PanelLikelihoodTrajectory(F0) and of
             MonteCarlo(PanelLikelihoodTrajectory(G)) with a deterministic tagged draw generator, through
             BIOGEME.simulate, BIOGEME.calculate_likelihood and Expression.get_value_c; compared with the model
             over Q inside Coq (relative 1e-12) and with an independent exact product / average (Fractions);
             every case is re-run with individuals permuted, rows permuted inside individuals, both, and
             with individuals renamed in reverse order.
"""
import json
import math
from fractions import Fraction
from pathlib import Path

from common import coq_list, parse_bools, VERIF

CORPUS = VERIF / 'corpus' / 'C09'

# Tolerance on per-individual values: relative 1e-12.  The engine computes a trajectory as
# exp(sum_r log f_r): here 0.5 < f_r < 90 (|log f_r| < 4.5), at most 10 rows, so |sum| <= 45; every log is within
# 1 ulp (< 1e-15 absolute), the running sum adds <= 10 * ulp(45)/2 < 4e-14, exp adds 1 ulp relative, the per-row
# products b*x*xi, x+b*y*xi add <= 3 ulp each: relative error < 1e-13.  The Monte-Carlo average of <= 16 such
# terms and the division add < 2e-15.  1e-12 leaves a factor 10; the smallest effect of a wrong row or draw index
# is a factor (1 + 1/2048) on one row (adjacent draws differ by 1/1024, draws are in [1,2)), i.e. 5e-4 relative,
# and data values are pairwise distinct inside a column.
TOL = Fraction(1, 10 ** 12)
TOL_F = 1e-12

ASSUME = [
    'identifiers are finite numbers (Database refuses NaN); float identifiers are sent to the model through the '
    'order embedding id -> id*scale (exact integers)',
    'pandas primitives as modelled in Model/Panel.v: sort_values = some sorted permutation of the rows (theorems '
    'hold for every one), Series.unique = order of first appearance, boolean-mask .loc + min/max of the labels, '
    '(col != col.shift(1)).cumsum().unique() = run counting',
    'engine semantics of PanelLikelihoodTrajectory (loop over rows first..last) and MonteCarlo (average over the '
    'draws of the individual) as written in Model/Panel.v; tied by stream panel_ll only (sampled)',
    'per-row values of the formulas used in panel_ll (x, b*x, x+b*y, and the same with one draw) are computed by '
    'the harness with exact rationals; expression evaluation itself is property C01',
]
TRUSTED = [
    'tie B: hand-written model Model/Panel.v vs implementation, sampled by streams panel_map and panel_ll '
    '(generators, encoders and the exact-rational oracle in lib/props/C09.py; runners lib/impl/c09_map.py, c09_ll.py)',
    'the C++ engine (cythonbiogeme) is exercised, not verified',
]


# ------------------------------------------------------------------------------------------ helpers
def contiguous(ids):
    first, last, count = {}, {}, {}
    for k, i in enumerate(ids):
        first.setdefault(i, k)
        last[i] = k
        count[i] = count.get(i, 0) + 1
    return all(last[i] - first[i] + 1 == count[i] for i in count)


def gen_id_values(rng, K, flavour=None):
    """K distinct identifiers -> (scaled integer values, scale, dtype)"""
    flavour = flavour or rng.choice(['small', 'small', 'neg', 'big', 'float', 'float', 'floatint', 'dense'])
    if flavour == 'small':
        vals = rng.sample(range(0, 40), K)
        return vals, 1, 'int'
    if flavour == 'dense':
        s = rng.randint(-3, 3)
        return list(range(s, s + K)), 1, 'int'
    if flavour == 'neg':
        vals = rng.sample(range(-30, 10), K)
        return vals, 1, 'int'
    if flavour == 'big':
        base = rng.choice([10 ** 12, -10 ** 12, 2 ** 53 - 40, -(2 ** 40)])
        vals = [base + v for v in rng.sample(range(0, 60), K)]
        return vals, 1, 'int'
    if flavour == 'float':
        vals = rng.sample(range(-60, 80), K)  # id = v/4: -15.0 .. 19.75, includes -0.25, 0.5 ...
        return vals, 4, 'float'
    vals = [4 * v for v in rng.sample(range(-10, 30), K)]  # integer-valued floats
    return vals, 4, 'float'


def blocks_to_column(vals, sizes):
    col = []
    for v, s in zip(vals, sizes):
        col += [v] * s
    return col


def gen_sizes(rng, K, maxsize):
    mode = rng.random()
    if mode < 0.15:
        return [1] * K
    if mode < 0.3:
        return [rng.randint(1, maxsize) if rng.random() < 0.5 else 1 for _ in range(K)]
    return [rng.randint(1, maxsize) for _ in range(K)]


def order_values(rng, vals):
    mode = rng.random()
    vals = list(vals)
    if mode < 0.2:
        return sorted(vals)
    if mode < 0.35:
        return sorted(vals, reverse=True)
    rng.shuffle(vals)
    return vals


# ------------------------------------------------------------------------------------------ panel_map
def gen_map_cases(rng, n, kmax, smax):
    cases = []
    for _ in range(n):
        kind = rng.random()
        K = 1 if kind < 0.08 else rng.randint(1, kmax)
        vals, scale, dtype = gen_id_values(rng, K)
        vals = order_values(rng, vals)
        sizes = gen_sizes(rng, K, smax)
        col = blocks_to_column(vals, sizes)
        shape = 'contiguous'
        if kind > 0.72 and len(col) >= 3 and K >= 2:
            # break contiguity: move / copy an identifier somewhere it does not touch its block
            shape = 'broken'
            how = rng.random()
            if how < 0.4:
                a, b = rng.sample(range(len(col)), 2)
                col[a], col[b] = col[b], col[a]
            elif how < 0.7:
                p = rng.randrange(len(col))
                col.insert(p, rng.choice(col))
            else:
                col = col + [col[0]]
        c = {'ids': col, 'scale': scale, 'dtype': dtype, 'shape': shape,
             'index': rng.choice(['range', 'range', 'rev', 'sparse', 'dup'])}
        h = rng.random()
        if h < 0.45:
            c['history'] = []
        elif h < 0.6:
            c['history'] = ['rebuild']
        elif h < 0.85:
            c['history'] = ['remove']
        else:
            c['history'] = ['rebuild', 'remove', 'size', 'rebuild']
        if 'remove' in c['history']:
            m = len(col)
            how = rng.random()
            if how < 0.4 and K >= 2:   # remove whole individuals
                gone = set(rng.sample(sorted(set(col)), rng.randint(1, max(1, len(set(col)) - 1))))
                rm = [1 if v in gone else 0 for v in col]
            else:
                rm = [1 if rng.random() < 0.3 else 0 for _ in range(m)]
            if all(rm):
                rm[rng.randrange(m)] = 0
            c['rm'] = rm
        cases.append(c)
    return cases


def kept_rows(c):
    n = len(c['ids'])
    if 'remove' in c.get('history', []):
        return [k for k in range(n) if not c['rm'][k]]
    return list(range(n))


def map_oracle(c, r):
    """The property, stated directly on what the database holds.  Returns a list of (what, detail)."""
    ids = c['ids']
    bad = []
    cont = contiguous(ids)
    if not r.get('ok'):
        if r.get('stage') == 'panel':
            if cont:
                bad.append(('refused-contiguous', 'Database.panel refused a column whose individuals are contiguous'))
        else:
            bad.append((f"exception-{r.get('stage')}", f"{r.get('exc')}: {r.get('msg')}"))
        return bad
    if not cont:
        bad.append(('accepted-noncontiguous', 'Database.panel accepted a column where an individual is split'))
        return bad
    kept = kept_rows(c)
    n = len(kept)
    rows = r['rows_after']
    if sorted(rows) != kept:
        bad.append(('rows-lost', f'rows after = {rows}, expected a permutation of {kept}'))
        return bad
    if r['ids_after'] != [ids[k] for k in rows]:
        bad.append(('ids-corrupted', 'identifier column does not follow the rows'))
        return bad
    col = r['ids_after']
    m = r['map']
    if any(e[0] is None or not e[3] for e in m):
        bad.append(('map-not-integral', f'{m}'))
        return bad
    if sorted(e[0] for e in m) != sorted(set(col)):
        bad.append(('individuals', f'individuals of the map {[e[0] for e in m]} vs identifiers {sorted(set(col))}'))
    covered = [0] * n
    for i, a, b, _ in m:
        if not (0 <= a <= b < n):
            bad.append(('block-range', f'block {(i, a, b)} outside [0,{n})'))
            continue
        for k in range(a, b + 1):
            covered[k] += 1
            if col[k] != i:
                bad.append(('block-foreign-row', f'row {k} of block {(i, a, b)} has identifier {col[k]}'))
        if col.count(i) != b - a + 1:
            bad.append(('block-incomplete', f'block {(i, a, b)} holds {b - a + 1} rows, identifier occurs {col.count(i)} times'))
    if any(v != 1 for v in covered):
        bad.append(('not-a-partition', f'rows covered {covered}'))
    if r['sample_size'] != len(set(col)):
        bad.append(('sample-size', f"get_sample_size() = {r['sample_size']}, individuals = {len(set(col))}"))
    if r['n_obs'] != n:
        bad.append(('n-obs', f"get_number_of_observations() = {r['n_obs']}, rows = {n}"))
    return bad


def coq_Zl(l):
    return coq_list([f'({v})' for v in l])


def coq_map_case(c, r):
    """(ids seen by the model, observation) ; the model sees the kept rows, renumbered"""
    kept = kept_rows(c)
    ids = [c['ids'][k] for k in kept]
    if not r.get('ok'):   # the refusal concerns the whole column (the history never ran)
        return f"({coq_Zl(c['ids'])}, None)" if r.get('stage') == 'panel' else None
    rank = {k: j for j, k in enumerate(kept)}
    if any(k not in rank for k in r['rows_after']) or any(e[0] is None for e in r['map']):
        return None
    perm = coq_list([f'{rank[k]}%nat' for k in r['rows_after']])
    m = coq_list([f'(({e[0]}), {e[1]}%nat, {e[2]}%nat)' for e in r['map']])
    return f"({coq_Zl(ids)}, Some ({m}, {perm}, {r['sample_size']}%nat))"


MAP_HEADER = (
    'From Coq Require Import ZArith List.\nFrom BV Require Import Model.Panel.\nImport ListNotations.\n'
    'Open Scope Z_scope.\n'
    'Definition chk (c : list Z * option (list block * list nat * nat)) : bool := map_check (fst c) (snd c).\n'
)


def run_coq_bools(ctx, st, name, header, items, B):
    """items: list of (index, coq text).  Returns dict index -> bool (missing on failure)."""
    files = {}
    for i in range(0, len(items), B):
        chunk = items[i:i + B]
        files[f'{name}_{i // B}'] = (header + 'Definition cases := ' + coq_list([t for _, t in chunk], ';\n')
                                     + '.\nEval vm_compute in (List.map chk cases).\n')
    outs = ctx.coq_eval_many(files)
    res = {}
    for k in files:
        ok, out = outs[k]
        i0 = int(k.rsplit('_', 1)[1]) * B
        chunk = items[i0:i0 + B]
        if not ok:
            ctx.stream_broken(st.name, 'model evaluation failed: ' + out[-600:])
            continue
        bs = parse_bools(out)
        if len(bs) != len(chunk):
            ctx.stream_broken(st.name, f'could not parse model output ({len(bs)} results for {len(chunk)} cases)')
            continue
        for (idx, _), b in zip(chunk, bs):
            res[idx] = b
    return res


def run_impl(ctx, script, cases, crashed):
    """Run the cases in 16 subprocesses.  A subprocess that dies (engine crash, import error of a mutated
    tree) is data, not a harness failure: its cases are re-run one by one and the dead ones get [crashed(msg)]."""
    from concurrent.futures import ThreadPoolExecutor

    def safe(chunk):
        try:
            out = ctx.impl(script, chunk)
            if isinstance(out, list) and len(out) == len(chunk):
                return out
            raise RuntimeError('wrong number of results')
        except RuntimeError as e:
            if len(chunk) == 1:
                return [crashed(str(e)[-400:])]
            return [safe([c])[0] for c in chunk]

    idx = [list(range(i, len(cases), 16)) for i in range(16)]
    idx = [ix for ix in idx if ix]
    with ThreadPoolExecutor(max_workers=16) as ex:
        outs = list(ex.map(lambda ix: safe([cases[k] for k in ix]), idx))
    res = [None] * len(cases)
    for ix, o in zip(idx, outs):
        for k, r in zip(ix, o):
            res[k] = r
    return res


def load_corpus(kind):
    out = []
    if CORPUS.is_dir():
        for p in sorted(CORPUS.glob(f'{kind}_*.json')):
            try:
                out += json.loads(p.read_text())
            except Exception:  # a corrupted corpus file must not hide the generated cases
                pass
    return out


def stream_panel_map(ctx):
    st = ctx.stream('panel_map',
                    'identifier columns: 1-8 (thorough 1-40) individuals of 1-5 (1-12) rows; int / negative / '
                    '10^12-sized / quarter-valued float identifiers; sorted, reversed, shuffled blocks; ~28% with '
                    'contiguity broken; index labels range / reversed / sparse / duplicated; histories rebuild, '
                    'Database.remove (rows or whole individuals); non-trivial = at least 2 individuals or a refusal; '
                    'distinct by (column, dtype, index, history, removed rows)')
    cases = load_corpus('map') + gen_map_cases(ctx.sub_rng('panel_map'), ctx.n(260, 4000),
                                               ctx.n(8, 40), ctx.n(5, 12))
    res = run_impl(ctx, 'c09_map.py', cases,
                   lambda msg: {'ok': False, 'stage': 'process', 'exc': 'subprocess died', 'msg': msg})
    items = []
    stable = eligible = 0
    for idx, (c, r) in enumerate(zip(cases, res)):
        st.record({k: c[k] for k in ('ids', 'scale', 'dtype', 'index', 'history') if k in c} | {'rm': c.get('rm')},
                  nontrivial=len(set(c['ids'])) >= 2 or not r.get('ok'))
        for what, detail in map_oracle(c, r):
            ctx.violation(f'C09/panel_map/{what}', f'panel bookkeeping: {detail}',
                          {'stream': 'panel_map', 'case': c, 'table': {'pid': c['ids'], 'scale': c['scale']}},
                          'every row in exactly one contiguous block holding exactly the rows of its individual; '
                          'contiguous columns accepted, others refused; sample size = number of individuals',
                          r, how='./check C09 --replay <this file>')
        t = coq_map_case(c, r)
        if t is None:
            st.disagree(c, 'a refusal or a map over the kept rows', r, 'implementation output not encodable')
            continue
        items.append((idx, t))
        if r.get('ok') and 'remove' not in c.get('history', []):
            exp = sorted(range(len(c['ids'])), key=lambda k: c['ids'][k])
            stable += r['rows_after'] == exp
            eligible += 1
    verdict = run_coq_bools(ctx, st, 'pmap', MAP_HEADER, items, 250)
    for idx, b in verdict.items():
        if not b:
            st.disagree(cases[idx], 'map_check = false (refusal / map / row permutation / sample size differ from '
                                    'panel_ok, build_map, a sorted permutation, sample_size)', res[idx])
    st.extra['accepted'] = sum(1 for r in res if r.get('ok'))
    st.extra['refused'] = sum(1 for r in res if not r.get('ok') and r.get('stage') == 'panel')
    st.extra['rows_in_stable_order'] = f'{stable}/{eligible} accepted cases without removal (informative: no theorem needs stability)'
    if st.disagreements:
        ctx.stream_broken('panel_map', f'{len(st.disagreements)} disagreements, first: '
                          + json.dumps(st.disagreements[0], default=str)[:1500])


# ------------------------------------------------------------------------------------------ panel_ll
def dyadic_column(rng, n):
    """n pairwise distinct positive dyadic values (exchanging two rows of a table changes a product):
    (2j+9)/16 in [0.56, 8] for small tables, (2j+33)/64 on a finer grid for large ones"""
    if n <= 50:
        return [(2 * j + 9) / 16.0 for j in rng.sample(range(60), n)]
    return [(2 * j + 33) / 64.0 for j in rng.sample(range(2 * n + 50), n)]


def gen_ll_base(rng, kmax, smax):
    K = 1 if rng.random() < 0.1 else rng.randint(1, kmax)
    vals, scale, dtype = gen_id_values(rng, K)
    vals = order_values(rng, vals)
    sizes = gen_sizes(rng, K, smax)
    col = blocks_to_column(vals, sizes)
    x = dyadic_column(rng, len(col))
    y = dyadic_column(rng, len(col))
    return {'ids': col, 'scale': scale, 'dtype': dtype, 'x': x, 'y': y,
            'kind': rng.choice(['x', 'bx', 'xpby', 'xpby']), 'beta': rng.choice([0.5, 0.75, 1.25, 1.5, 2.0]),
            'R': rng.choice([1, 2, 3, 4, 5, 8, 16]), 'threads': rng.choice([1, 2, 3, 4]),
            'audit': rng.random() < 0.2, 'variant': 'base'}


def blocks_of(c):
    """list of (id, [row numbers]) in table order (the column is contiguous)"""
    out = []
    for k, i in enumerate(c['ids']):
        if out and out[-1][0] == i:
            out[-1][1].append(k)
        else:
            out.append((i, [k]))
    return out


def variant(rng, c, kind):
    bl = blocks_of(c)
    if kind in ('ind', 'both'):
        rng.shuffle(bl)
        if len(bl) > 1 and [b[0] for b in bl] == [b[0] for b in blocks_of(c)]:
            bl = bl[1:] + bl[:1]
    if kind in ('rows', 'both'):
        for _, rows in bl:
            if len(rows) > 1:
                first = rows[0]
                rng.shuffle(rows)
                if rows[0] == first:
                    rows.append(rows.pop(0))
    order = [k for _, rows in bl for k in rows]
    d = dict(c)
    d['variant'] = kind
    d['ids'] = [c['ids'][k] for k in order]
    d['x'] = [c['x'][k] for k in order]
    d['y'] = [c['y'][k] for k in order]
    if kind == 'relabel':
        d['ids'] = [-i for i in d['ids']]     # reverses the order of the individuals in the map
    d['threads'] = rng.choice([1, 2, 3, 4])
    return d


def rowvals(c):
    """exact per-row coefficients: without draws the value is p0, with a draw xi it is p + q*xi"""
    beta = Fraction(c['beta'])
    out = []
    for x, y in zip(c['x'], c['y']):
        x, y = Fraction(x), Fraction(y)
        if c['kind'] == 'x':
            out.append((x, Fraction(0), x))
        elif c['kind'] == 'bx':
            out.append((beta * x, Fraction(0), beta * x))
        else:
            out.append((x + beta * y, x, beta * y))
    return out


def expected(c):
    """Independent statement of the property (no map, no sorting of rows): for each identifier, the product
    over the rows carrying it; with draws, the average over k of the products with draw k of row j of the
    draws table, for every candidate row j.  All numbers are dyadic: integer numerators over 2^18 per row
    (data in 64ths, beta in quarters, draws in 1024ths), exact."""
    rv = rowvals(c)
    D = 256                                  # x, y multiples of 1/64, beta of 1/4: p0, p, q multiples of 1/256
    rvi = [(int(p0 * D), int(p * D), int(q * D)) for p0, p, q in rv]
    assert all(Fraction(a, D) == p0 and Fraction(b, D) == p and Fraction(cc, D) == q
               for (a, b, cc), (p0, p, q) in zip(rvi, rv))
    inds = sorted(set(c['ids']))
    N = len(inds)
    R = c['R']
    plain, mc = {}, {}
    for i in inds:
        rows = [k for k, v in enumerate(c['ids']) if v == i]
        num = 1
        for k in rows:
            num *= rvi[k][0]
        plain[i] = Fraction(num, D ** len(rows))
        cand = []
        for j in range(N):
            s = 0
            for kd in range(R):
                xin = 1024 + 32 * j + kd      # draw = xin / 1024
                t = 1
                for k in rows:
                    t *= rvi[k][1] * 1024 + rvi[k][2] * xin
                s += t
            cand.append(Fraction(s, (D * 1024) ** len(rows) * R))
        mc[i] = cand
    return inds, plain, mc


def frac(v):
    return Fraction(v[0], v[1]) if isinstance(v, list) else None


def closeF(obs, v, tol=TOL):
    return obs is not None and abs(obs - v) <= tol * abs(v)


def ll_oracle(c, r):
    """Returns list of (what, detail, expected, observed)."""
    bad = []
    if 'runner' in r:
        return [('runner-exception', f"{r['runner']}", None, r['runner'])]
    if not r['panel']['ok']:
        return [('refused-contiguous', 'Database.panel refused a contiguous column', None, r['panel'])]
    inds, plain, mc = expected(c)
    N = len(inds)
    for key in ('sim', 'll_mc', 'll_plain', 'gv', 'sample_size', 'draws_shape', 'map'):
        if not r[key]['ok']:
            bad.append((f'exception-{key}', f"{r[key].get('exc')}: {r[key].get('msg')}", None, r[key]))
    if bad:
        return bad
    sim = r['sim']['v']
    if sim['index'] != inds:
        bad.append(('result-index', 'simulate does not return one row per individual, in the order of the map',
                    inds, sim['index']))
        return bad
    oplain = [frac(v) for v in sim['plain']]
    omc = [frac(v) for v in sim['mc']]
    ogv = [frac(v) for v in r['gv']['v']]
    for j, i in enumerate(inds):
        if not closeF(oplain[j], plain[i]):
            bad.append(('trajectory-value', f'individual {i}: PanelLikelihoodTrajectory is not the product over its rows',
                        str(plain[i]), sim['plain'][j]))
        if j >= len(ogv) or not closeF(ogv[j], plain[i]):
            bad.append(('trajectory-value-get_value_c', f'individual {i}: get_value_c differs from the product over its rows',
                        str(plain[i]), r['gv']['v']))
    rows_used = []
    for j, i in enumerate(inds):
        match = [q for q in range(N) if closeF(omc[j], mc[i][q])]
        if not match:
            bad.append(('montecarlo-value', f'individual {i}: MonteCarlo(trajectory) is not the average over the draws of '
                        f'one individual of the products over its rows', [str(v) for v in mc[i]], sim['mc'][j]))
        rows_used.append(match)
    if not [b for b in bad if b[0] == 'montecarlo-value'] and N > 1:
        # one row of the draws table per individual (a matching); the tagged rows make candidates distinct
        flat = [m[0] for m in rows_used if len(m) == 1]
        if len(set(flat)) != len(flat):
            bad.append(('draws-shared-between-individuals', 'two individuals read the same row of the draws table',
                        None, rows_used))
    # logs and totals: the sample log likelihood is the sum over individuals, sample size = #individuals
    def fl(v):
        return float(Fraction(v[0], v[1])) if isinstance(v, list) else float('nan')
    for col, lcol, llk in (('plain', 'lplain', 'll_plain'), ('mc', 'lmc', 'll_mc')):
        vals = [fl(v) for v in sim[col]]
        logs = [fl(v) for v in sim[lcol]]
        if any(not (v > 0) for v in vals):
            continue
        mag = sum(abs(math.log(v)) for v in vals) + N
        for j, (v, lv) in enumerate(zip(vals, logs)):
            if not abs(lv - math.log(v)) <= TOL_F * (1 + abs(math.log(v))):
                bad.append((f'log-{col}', f'individual {inds[j]}: log(value) != log of the value', math.log(v), lv))
        tot = fl(r[llk]['v']['unscaled'])
        sc = fl(r[llk]['v']['scaled'])
        s = math.fsum(math.log(v) for v in vals)
        if not abs(tot - s) <= TOL_F * mag:
            bad.append((f'total-{col}', 'calculate_likelihood is not the sum over individuals of the log of their value', s, tot))
        if not abs(sc * N - tot) <= TOL_F * mag:
            bad.append((f'scaled-{col}', f'scaled log likelihood is not total / number of individuals ({N})', tot / N, sc))
        # every quantity of calculate_likelihood_and_derivatives: scaled = unscaled / number of individuals
        du, ds = r[llk]['v'].get('d_unscaled'), r[llk]['v'].get('d_scaled')
        if du and ds:
            if not abs(fl(du['function']) - s) <= TOL_F * mag:
                bad.append((f'derivatives-total-{col}', 'calculate_likelihood_and_derivatives(scaled=False).function is not '
                            'the sum over individuals of the log of their value', s, fl(du['function'])))
            for name in ('function', 'gradient', 'hessian', 'bhhh'):
                u = [fl(du[name])] if name == 'function' else [fl(v) for v in du[name]]
                w = [fl(ds[name])] if name == 'function' else [fl(v) for v in ds[name]]
                if len(u) != len(w) or any(not abs(b_ * N - a) <= 1e-11 * max(1.0, abs(a)) for a, b_ in zip(u, w)):
                    bad.append((f'scaled-derivatives-{col}-{name}',
                                f'calculate_likelihood_and_derivatives(scaled=True).{name} is not the unscaled {name} divided by '
                                f'the number of individuals ({N}; the table has {len(c["ids"])} rows)',
                                [a / N for a in u], w))
    if r['sample_size']['v'] != N:
        bad.append(('sample-size', 'get_sample_size() is not the number of individuals', N, r['sample_size']['v']))
    if r['n_obs']['ok'] and r['n_obs']['v'] != len(c['ids']):
        bad.append(('n-obs', 'number of observations changed', len(c['ids']), r['n_obs']['v']))
    if r['draws_shape']['v'] != [N, c['R'], 1]:
        bad.append(('draws-table-shape', 'the draws table does not have one row per individual', [N, c['R'], 1],
                    r['draws_shape']['v']))
    if any(call != [N, c['R']] for call in r['gen_calls']) or not r['gen_calls']:
        bad.append(('generator-call', 'the draw generator is not asked for (number of individuals, draws)', [N, c['R']],
                    r['gen_calls']))
    if 'outside' in r and r['outside'].get('v') != 'BiogemeError':
        bad.append(('variable-outside-trajectory', 'a variable outside PanelLikelihoodTrajectory on panel data is not refused',
                    'BiogemeError', r['outside']))
    return bad


def coq_Q(fr):
    return f'(Qmake ({fr.numerator}) {fr.denominator})'


def coq_obs(inds, vals):
    return coq_list([f'(({i}), {coq_Q(frac(v))})' for i, v in zip(inds, vals)])


def coq_ll_case(c, r):
    if 'runner' in r or not r['panel']['ok'] or not all(r[k]['ok'] for k in ('sim', 'gv', 'map', 'sample_size')):
        return None
    sim = r['sim']['v']
    vals = sim['plain'] + sim['mc'] + r['gv']['v']
    if any(not isinstance(v, list) for v in vals) or any(i is None for i in sim['index']):
        return None
    if len(r['gv']['v']) != len(sim['index']) or any(e[0] is None for e in r['map']['v']):
        return None
    rv = rowvals(c)
    plain_rows = coq_list([f'(({i}), ({coq_Q(p0)}, {coq_Q(Fraction(0))}))' for i, (p0, _, _) in zip(c['ids'], rv)])
    mc_rows = coq_list([f'(({i}), ({coq_Q(p)}, {coq_Q(q)}))' for i, (_, p, q) in zip(c['ids'], rv)])
    m = coq_list([f'(({e[0]}), {e[1]}%nat, {e[2]}%nat)' for e in r['map']['v']])
    return (f"({c['R']}%nat, {plain_rows}, {mc_rows}, {coq_obs(sim['index'], sim['plain'])}, "
            f"{coq_obs(sim['index'], sim['mc'])}, {coq_obs(sim['index'], r['gv']['v'])}, {m}, "
            f"{r['sample_size']['v']}%nat)")


LL_HEADER = (
    'From Coq Require Import ZArith List QArith.\nFrom BV Require Import Model.Panel.\nImport ListNotations.\n'
    'Open Scope Z_scope.\n'
    'Definition tol : Q := Qmake 1 1000000000000.\n'
    'Definition chk (c : nat * list Qrow * list Qrow * list (Z * Q) * list (Z * Q) * list (Z * Q) * list block * nat) : bool :=\n'
    "  let '(R, prow, mrow, oplain, omc, ogv, m, ss) := c in\n"
    '  close_all tol oplain (model_plain prow) && close_all tol omc (model_mc R mrow)\n'
    '  && close_all tol ogv (model_plain prow) && list_eqb block_eqb m (build_map (ids_of prow))\n'
    '  && Nat.eqb ss (sample_size (ids_of prow)).\n'
)


# ---- history kind 'bootstrap': the same BIOGEME object after estimate(run_bootstrap=True), completed or
# interrupted by a fault in the k-th optimize call; the engine must again sum over ALL individuals once.
def gen_hist_cases(rng, kmax, smax):
    K = rng.randint(5, max(5, kmax))
    vals, scale, dtype = gen_id_values(rng, K)
    vals = order_values(rng, vals)
    sizes = [rng.randint(1, smax) for _ in range(K)]
    col = blocks_to_column(vals, sizes)
    n = len(col)
    x = [(2 * j + 33) / 16.0 for j in rng.sample(range(2 * n + 20), n)]          # distinct, >= 2.06
    y = [rng.choice([-1, 1]) * (2 * rng.randrange(8) + 1) / 16.0 for _ in col]  # |y| <= 15/16, mixed signs
    bs = rng.choice([3, 4, 5])
    base = {'history': 'bootstrap', 'ids': col, 'scale': scale, 'dtype': dtype, 'x': x, 'y': y, 'kind': 'xpby',
            'beta': rng.choice([-1.25, -0.5, 0.25, 0.75, 1.5]), 'R': 1, 'bootstrap_samples': bs,
            'threads': rng.choice([1, 2, 3, 4]), 'np_seed': rng.randrange(10 ** 6), 'variant': 'bootstrap-completed',
            'fault_at': None}
    hit = dict(base)
    hit['fault_at'] = rng.randint(2, bs + 1)
    hit['variant'] = 'bootstrap-interrupted'
    return [base, hit]


def hist_oracle(c, r):
    bad = []
    if 'runner' in r:
        return [('runner-exception', f"{r['runner']}", None, r['runner'])]
    if not r['panel']['ok']:
        return [('refused-contiguous', 'Database.panel refused a contiguous column', None, r['panel'])]
    if not r['build']['ok']:
        return [('history-exception-build', f"{r['build'].get('exc')}: {r['build'].get('msg')}", None, r['build'])]
    inds, plain, _ = expected(c)
    N = len(inds)
    logs = {i: math.log(plain[i]) for i in inds}       # math.log of an exact Fraction (correctly rounded float first)
    S = math.fsum(logs.values())
    mag = N + sum(abs(v) for v in logs.values())
    want = 'interrupted' if c.get('fault_at') else 'completed'
    if r['estimate']['ok'] and r['estimate']['v'] != want:
        bad.append(('history-not-run', f"estimate {r['estimate']['v']}, the harness wanted {want}", want, r['estimate']))

    def fl(v):
        return float(Fraction(v[0], v[1])) if isinstance(v, list) else float('nan')
    for key in ('ll_before', 'll_after', 'lld_after', 'll_after_sim'):
        if not r[key]['ok']:
            bad.append((f'history-exception-{key}', f"{r[key].get('exc')}: {r[key].get('msg')}", S, r[key]))
        elif not abs(fl(r[key]['v']) - S) <= TOL_F * mag:
            bad.append((f'history-bootstrap-{key}',
                        f"after estimate(run_bootstrap=True) {want}, the log likelihood of the same BIOGEME object is not "
                        f"the sum over all {N} individuals (each once) of the log of the product over its rows", S, fl(r[key]['v'])))
    if r['ll_after_scaled']['ok'] and not abs(fl(r['ll_after_scaled']['v']) * N - S) <= TOL_F * mag:
        bad.append(('history-bootstrap-scaled', f'scaled log likelihood is not total / number of individuals ({N})',
                    S / N, fl(r['ll_after_scaled']['v'])))
    if not r['sim_after']['ok']:
        bad.append(('history-exception-simulate', f"{r['sim_after'].get('exc')}: {r['sim_after'].get('msg')}", None, r['sim_after']))
    else:
        sim = r['sim_after']['v']
        if sim['index'] != inds:
            bad.append(('history-result-index', 'simulate does not return one row per individual', inds, sim['index']))
        else:
            for j, i in enumerate(inds):
                if not closeF(frac(sim['traj'][j]), plain[i]):
                    bad.append(('history-trajectory-value', f'individual {i}: trajectory after the bootstrap is not the '
                                f'product over its rows', str(plain[i]), sim['traj'][j]))
                if not abs(fl(sim['loglike'][j]) - logs[i]) <= TOL_F * (1 + abs(logs[i])):
                    bad.append(('history-log-value', f'individual {i}: log of the trajectory after the bootstrap', logs[i],
                                sim['loglike'][j]))
    if r['sample_size']['ok'] and r['sample_size']['v'] != N:
        bad.append(('sample-size', 'get_sample_size() is not the number of individuals', N, r['sample_size']['v']))
    if r.get('results_sizes') and r['results_sizes'] != [N, len(c['ids'])]:
        bad.append(('results-sample-size', 'estimation results: sample size / number of observations are not (individuals, rows)',
                    [N, len(c['ids'])], r['results_sizes']))
    return bad


def coq_hist_case(c, r):
    if 'runner' in r or not r['panel']['ok'] or not r.get('build', {}).get('ok'):
        return None
    if not all(r[k]['ok'] for k in ('sim_after', 'map', 'sample_size')):
        return None
    sim = r['sim_after']['v']
    if any(not isinstance(v, list) for v in sim['traj']) or any(i is None for i in sim['index']):
        return None
    rv = rowvals(c)
    prow = coq_list([f'(({i}), ({coq_Q(p0)}, {coq_Q(Fraction(0))}))' for i, (p0, _, _) in zip(c['ids'], rv)])
    m = coq_list([f'(({e[0]}), {e[1]}%nat, {e[2]}%nat)' for e in r['map']['v']])
    return f"({prow}, {coq_obs(sim['index'], sim['traj'])}, {m}, {r['sample_size']['v']}%nat)"


HIST_HEADER = (
    'From Coq Require Import ZArith List QArith.\nFrom BV Require Import Model.Panel.\nImport ListNotations.\n'
    'Open Scope Z_scope.\n'
    'Definition tol : Q := Qmake 1 1000000000000.\n'
    'Definition chk (c : list Qrow * list (Z * Q) * list block * nat) : bool :=\n'
    "  let '(prow, otraj, m, ss) := c in\n"
    '  close_all tol otraj (model_plain prow) && list_eqb block_eqb m (build_map (ids_of prow))\n'
    '  && Nat.eqb ss (sample_size (ids_of prow)).\n'
)


# ---- history kind 'steps': one Database object; declarations on two identifier columns (persons pid,
# households hid; a declaration may have to be refused), direct edits of database.data, evaluations through
# every entry point.  The harness replays the history on a plain list of rows (class Sim); the Coq model
# (run through chk_steps) replays it on Model/Panel.v's state machine.
LIST_ENTRIES = ('gv_plain', 'gvd_plain', 'vfd', 'gv_mc', 'bio_sim')
TOTAL_ENTRIES = ('gvd_sum', 'cf_call', 'bio_ll')


class Sim:
    def __init__(self, c):
        self.c = c
        self.rows = [{'pid': p, 'hid': h, 'x': x, 'y': y} for p, h, x, y in
                     zip(c['cols']['pid'], c['cols']['hid'], c['x'], c['y'])]
        self.col = None

    def resort(self):
        if self.col:
            self.rows.sort(key=lambda r: r[self.col])   # stable

    def panel(self, col):
        ok = contiguous([r[col] for r in self.rows])
        if ok:
            self.col = col
            self.resort()
        return ok

    def edit(self, st):
        op = st['op']
        if op == 'append':
            self.rows += [{'pid': r[0], 'hid': r[1], 'x': r[2], 'y': r[3]} for r in st['rows']]
        elif op == 'setid':
            for r in self.rows:
                if r[st['col']] == st['from']:
                    r[st['col']] = st['to']
        elif op == 'dropids':
            self.rows = [r for r in self.rows if r[st['col']] not in st['ids']]
        elif op == 'droprows':
            self.rows = [r for r in self.rows if r['x'] not in st['x']]
        elif op == 'permute':
            self.rows = [self.rows[k] for k in st['perm']]

    def as_case(self):
        return {'ids': [r[self.col] for r in self.rows], 'x': [r['x'] for r in self.rows],
                'y': [r['y'] for r in self.rows], 'kind': self.c['kind'], 'beta': self.c['beta'], 'R': self.c['R']}

    def blocks(self):
        ids = [r[self.col] for r in self.rows]
        return [[i, ids.index(i), len(ids) - 1 - ids[::-1].index(i)] for i in sorted(set(ids))]


def gen_steps_case(rng, kmax, smax, flavour):
    K = rng.randint(2, kmax)
    pvals, scale, dtype = gen_id_values(rng, K, rng.choice(['small', 'neg', 'float', 'dense', 'small']))
    pvals = order_values(rng, pvals)
    sizes = gen_sizes(rng, K, smax)
    # households: consecutive persons share a household; sometimes a household identifier comes back later
    hpool = rng.sample(range(-40, 120), K + 6)
    hvals, h = [], 0
    for k in range(K):
        if k and rng.random() < 0.55:
            h += 1
        hvals.append(hpool[h] * (scale if dtype == 'float' and rng.random() < 0.5 else 1))
    if K >= 3 and rng.random() < 0.3:
        hvals[-1] = hvals[0]
    pid = blocks_to_column(pvals, sizes)
    hid = blocks_to_column(hvals, sizes)
    n = len(pid)
    xpool = rng.sample(range(0, 150), n + 12)                 # distinct x in the whole history
    x = [(2 * j + 9) / 16.0 for j in xpool[:n]]
    fresh_x = [(2 * j + 9) / 16.0 for j in xpool[n:]]
    y = dyadic_column(rng, n) if n <= 50 else [(2 * rng.randrange(60) + 9) / 16.0 for _ in range(n)]
    c = {'history': 'steps', 'cols': {'pid': pid, 'hid': hid}, 'scale': scale, 'dtype': dtype, 'x': x, 'y': y,
         'kind': rng.choice(['x', 'bx', 'xpby', 'xpby']), 'beta': rng.choice([0.5, 0.75, 1.25, 1.5, 2.0]),
         'R': rng.choice([1, 2, 3, 5]), 'threads': rng.choice([1, 2, 3, 4]), 'variant': f'steps-{flavour}',
         'ids': pid}
    sim = Sim(c)
    steps = []

    def add(st):
        steps.append(st)
        if st['do'] == 'panel':
            sim.panel(st['col'])
        elif st['do'] == 'edit':
            sim.edit(st)
        else:
            sim.resort()

    def some_eval(first=None):
        entries = LIST_ENTRIES + TOTAL_ENTRIES + ('cf_make',)
        add({'do': 'eval', 'entry': first or rng.choice(entries)})

    def some_edit():
        ids_now = sorted({r[sim.col or 'pid'] for r in sim.rows})
        col = sim.col or 'pid'
        other = 'hid' if col == 'pid' else 'pid'
        kind = rng.choice(['append_small', 'append_large', 'append_middle', 'append_existing', 'merge', 'relabel',
                           'dropids', 'droprows', 'permute'])
        allv = {r['pid'] for r in sim.rows} | {r['hid'] for r in sim.rows}
        def newid(where):
            if where == 'small':
                return min(allv) - rng.randint(1, 5)
            if where == 'large':
                return max(allv) + rng.randint(1, 5)
            cands = [v for v in range(min(ids_now), max(ids_now)) if v not in allv]
            return rng.choice(cands) if cands else max(allv) + 1
        if kind.startswith('append') and fresh_x and len(ids_now) < 24:
            m = rng.randint(1, 3)
            if kind == 'append_existing':
                i = rng.choice(ids_now)
                o = next(r[other] for r in sim.rows if r[col] == i)
            else:
                i = newid(kind.split('_')[1])
                o = rng.choice([newid('large'), rng.choice([r[other] for r in sim.rows])])
            rows = []
            for _ in range(min(m, len(fresh_x))):
                xv = fresh_x.pop()
                yv = (2 * rng.randrange(60) + 9) / 16.0
                rows.append([i, o, xv, yv] if col == 'pid' else [o, i, xv, yv])
            add({'do': 'edit', 'op': 'append', 'rows': rows})
        elif kind == 'merge' and len(ids_now) >= 2:
            a, b_ = rng.sample(ids_now, 2)
            add({'do': 'edit', 'op': 'setid', 'col': col, 'from': a, 'to': b_})
        elif kind == 'relabel':
            add({'do': 'edit', 'op': 'setid', 'col': col, 'from': rng.choice(ids_now),
                 'to': newid(rng.choice(['small', 'large', 'middle']))})
        elif kind == 'dropids' and len(ids_now) >= 2:
            add({'do': 'edit', 'op': 'dropids', 'col': col, 'ids': rng.sample(ids_now, rng.randint(1, len(ids_now) - 1))})
        elif kind == 'droprows' and len(sim.rows) >= 2:
            xs = [r['x'] for r in rng.sample(sim.rows, rng.randint(1, max(1, len(sim.rows) // 3)))]
            add({'do': 'edit', 'op': 'droprows', 'x': xs})
        else:
            perm = list(range(len(sim.rows)))
            rng.shuffle(perm)
            add({'do': 'edit', 'op': 'permute', 'perm': perm})

    add({'do': 'panel', 'col': 'pid'})
    if flavour == 'repanel':
        if rng.random() < 0.5:
            some_eval()
        seq = rng.choice([['hid'], ['hid', 'pid'], ['pid', 'hid'], ['hid', 'hid'], ['pid']])
        for col in seq:
            add({'do': 'panel', 'col': col})
            if rng.random() < 0.5:
                some_eval()
        for e in rng.sample(LIST_ENTRIES + TOTAL_ENTRIES, 3):
            some_eval(e)
    else:
        if rng.random() < 0.5:
            some_eval()                       # a map and draws exist from an earlier evaluation
        if flavour == 'mixed' and rng.random() < 0.5:
            add({'do': 'panel', 'col': 'hid'})
        for _ in range(rng.randint(1, 2)):
            some_edit()
        first = rng.choice(LIST_ENTRIES + TOTAL_ENTRIES)      # every entry point gets to be the first after an edit
        some_eval(first)
        for e in rng.sample(LIST_ENTRIES + TOTAL_ENTRIES, 2):
            some_eval(e)
        if flavour == 'mixed':
            if rng.random() < 0.6:
                add({'do': 'panel', 'col': rng.choice(['pid', 'hid'])})
            if rng.random() < 0.6:
                some_edit()
            some_eval(rng.choice(LIST_ENTRIES))
            some_eval()
    some_eval('gv_plain')
    c['steps'] = steps
    return c


def steps_oracle(c, r):
    """Replays the history on plain rows and states the property at every step."""
    bad = []
    if 'runner' in r:
        return [('runner-exception', f"{r['runner']}", None, r['runner'])], []
    sim = Sim(c)
    notes = []
    last = 'start'
    for k, (st, o) in enumerate(zip(c['steps'], r['steps'])):
        after = o.get('after', {}).get('v') or {}
        where = f"step {k} ({st['do']} {st.get('col') or st.get('entry') or st.get('op')})"
        if st['do'] == 'panel':
            want = sim.panel(st['col'])
            if want and not o['ok']:
                bad.append(('declaration-refused-contiguous', f"{where}: Database.panel refused a column whose individuals are "
                            f"contiguous ({o.get('exc')}: {o.get('msg')})", 'accepted', o))
            if not want and o['ok']:
                bad.append(('declaration-accepted-noncontiguous', f'{where}: Database.panel accepted (or ignored) a declaration on a '
                            f'column where an individual is split', 'BiogemeError', 'accepted'))
            if after.get('col') != sim.col:
                bad.append(('declared-column', f'{where}: the data are declared as panel on {sim.col}, the database follows '
                            f"{after.get('col')}", sim.col, after.get('col')))
            last = 'after-declaration'
            continue
        if st['do'] == 'edit':
            if not o['ok']:
                notes.append(f'{where}: the edit itself failed in pandas: {o}')
                return bad, notes
            sim.edit(st)
            last = 'after-edit'
            continue
        entry = st['entry']
        if sim.col is None:
            last = 'repeat'
            continue
        if entry == 'cf_make':
            if not o['ok']:
                bad.append((f'steps-exception-{entry}', f"{where}: {o.get('exc')}: {o.get('msg')}", 'made', o))
            continue
        sim.resort()
        cc = sim.as_case()
        inds, plain, mc = expected(cc)
        N = len(inds)
        key = f'steps-{entry}-{last}'
        last = 'repeat'
        if not o['ok']:
            bad.append((f'steps-exception-{entry}', f"{where}: evaluation raised {o.get('exc')}: {o.get('msg')}",
                        [str(plain[i]) for i in inds], o))
            continue
        v = o['v']
        logs = [math.log(plain[i]) for i in inds]
        S, mag = math.fsum(logs), N + sum(abs(t) for t in logs)

        def fl(t):
            return float(Fraction(t[0], t[1])) if isinstance(t, list) else float('nan')

        def cmp_list(obs, want_vals, what):
            if len(obs) != N or any(not closeF(frac(a), w) for a, w in zip(obs, want_vals)):
                bad.append((key, f'{where}: {what} is not, per individual of the CURRENT table on column {sim.col}, the '
                            f'product over exactly its rows (individuals {inds})', [str(w) for w in want_vals], obs))
        if entry in ('gv_plain', 'gvd_plain', 'vfd'):
            cmp_list(v, [plain[i] for i in inds], entry)
        elif entry == 'gv_mc':
            cmp_list(v, [mc[i][j] for j, i in enumerate(inds)], 'MonteCarlo(trajectory) through get_value_c')
        elif entry == 'bio_sim':
            if v['index'] != inds:
                bad.append((key, f'{where}: simulate does not return one row per individual of column {sim.col}', inds, v['index']))
            else:
                cmp_list(v['plain'], [plain[i] for i in inds], 'simulate(trajectory)')
                cmp_list(v['mc'], [mc[i][j] for j, i in enumerate(inds)], 'simulate(MonteCarlo(trajectory))')
        elif entry in ('gvd_sum', 'cf_call'):
            if not abs(fl(v) - S) <= TOL_F * mag:
                bad.append((key, f'{where}: {entry} is not the sum over the individuals of the current table of the log of their '
                            f'product', S, fl(v)))
        elif entry == 'bio_ll':
            if not abs(fl(v['unscaled']) - S) <= TOL_F * mag or not abs(fl(v['scaled']) * N - S) <= TOL_F * mag:
                bad.append((key, f'{where}: BIOGEME log likelihood (unscaled, scaled) is not (S, S/{N})', [S, S / N],
                            [fl(v['unscaled']), fl(v['scaled'])]))
        if after:
            if after.get('map') != sim.blocks():
                bad.append((f'steps-map-{entry}', f'{where}: the map of the individuals after the evaluation is not the map of the '
                            f'current table', sim.blocks(), after.get('map')))
            if after.get('sample_size') != N:
                bad.append((f'steps-sample-size-{entry}', f'{where}: sample size after the evaluation', N, after.get('sample_size')))
            if entry in ('gv_mc', 'bio_sim') and (after.get('draws_shape') or [None])[0] != N:
                bad.append((f'steps-draws-rows-{entry}', f'{where}: the draws table does not have one series per individual', N,
                            after.get('draws_shape')))
            if after.get('xs') != [rw['x'] for rw in sim.rows]:
                notes.append(f'{where}: row order differs from the stable sort (informative)')
    return bad, notes


def coq_steps_case(c, r):
    """the history for the Coq state machine (chk_steps); None when not encodable"""
    if 'runner' in r or len(r.get('steps', [])) != len(c['steps']):
        return None
    sim = Sim(c)

    def rows_term(rows):
        cc = {'x': [rw['x'] for rw in rows], 'y': [rw['y'] for rw in rows], 'kind': c['kind'], 'beta': c['beta']}
        rv = rowvals(cc)
        return coq_list([f"([({rw['pid']}); ({rw['hid']})], ({coq_Q(p0)}, ({coq_Q(p)}, {coq_Q(q)})))"
                         for rw, (p0, p, q) in zip(rows, rv)], ';\n  ')

    colno = {'pid': 0, 'hid': 1}
    init = rows_term(sim.rows)
    out = []
    for st, o in zip(c['steps'], r['steps']):
        after = o.get('after', {}).get('v') or {}
        if st['do'] == 'panel':
            out.append(f"SPanel {colno[st['col']]}%nat {'true' if o['ok'] else 'false'}")
            sim.panel(st['col'])
        elif st['do'] == 'edit':
            if not o['ok']:
                return None
            sim.edit(st)
            out.append(f'SEdit {rows_term(sim.rows)}')
        else:
            entry = st['entry']
            if entry == 'cf_make' or sim.col is None:
                continue
            sim.resort()
            inds = sorted({rw[sim.col] for rw in sim.rows})
            op = om = 'None'
            if o['ok']:
                v = o['v']
                def obs(vals):
                    if len(vals) != len(inds) or any(not isinstance(t, list) for t in vals):
                        return None
                    return 'Some ' + coq_obs(inds, vals)
                if entry in ('gv_plain', 'gvd_plain', 'vfd'):
                    op = obs(v)
                elif entry == 'gv_mc':
                    om = obs(v)
                elif entry == 'bio_sim':
                    op, om = obs(v['plain']), obs(v['mc'])
                if op is None or om is None:
                    return None
            elif entry in LIST_ENTRIES:
                return None
            out.append(f"SEval {c['R']}%nat ({op}) ({om})")
            if entry in ('gv_mc', 'bio_sim') and after.get('draws_shape'):
                out.append(f"SDraws {after['draws_shape'][0]}%nat")
        if after.get('map') is not None and sim.col is not None:
            if any(e[0] is None for e in after['map']):
                return None
            m = coq_list([f'(({e[0]}), {e[1]}%nat, {e[2]}%nat)' for e in after['map']])
            out.append(f"SMap {m} {after.get('sample_size', 0)}%nat")
    return f"({init},\n [{'; '.join(out)}])"


STEPS_HEADER = (
    'From Coq Require Import ZArith List QArith Bool.\nFrom BV Require Import Model.Panel.\nImport ListNotations.\n'
    'Open Scope Z_scope.\n'
    'Definition tol : Q := Qmake 1 1000000000000.\n'
    'Definition P : Type := (Q * (Q * Q))%type.\n'
    'Inductive sstep : Type :=\n'
    '| SPanel (c : nat) (obs : bool) | SEdit (t : list (@hrow P))\n'
    '| SEval (R : nat) (oplain omc : option (list (Z * Q))) | SMap (m : list block) (ss : nat) | SDraws (n : nat).\n'
    'Definition to_plain (c : nat) (t : list (@hrow P)) : list Qrow := map (fun r => (hkey c r, (fst (snd r), 0%Q))) t.\n'
    'Definition to_mc (c : nat) (t : list (@hrow P)) : list Qrow := map (fun r => (hkey c r, snd (snd r))) t.\n'
    'Fixpoint chk_steps (s : @pstate P) (l : list sstep) : bool :=\n'
    '  match l with\n  | [] => true\n  | st :: tl =>\n    match st with\n'
    '    | SPanel c obs => Bool.eqb obs (panel_accepts s c) && chk_steps (step s (OpPanel c)) tl\n'
    '    | SEdit t => chk_steps (step s (OpEdit t)) tl\n'
    '    | SEval R op om =>\n'
    '        let s1 := prepare_eval s in\n'
    '        match st_col s1 with\n        | None => false\n        | Some c =>\n'
    '            (match op with None => true | Some o => close_all tol o (model_plain (to_plain c (st_table s1))) end)\n'
    '            && (match om with None => true | Some o => close_all tol o (model_mc R (to_mc c (st_table s1))) end)\n'
    '            && chk_steps s1 tl\n        end\n'
    '    | SMap m ss => list_eqb block_eqb m (st_map s) && Nat.eqb ss (List.length (st_map s)) && chk_steps s tl\n'
    '    | SDraws n => Nat.eqb n (st_draws s) && chk_steps s tl\n'
    '    end\n  end.\n'
    'Definition chk (c : list (@hrow P) * list sstep) : bool := chk_steps (fresh (fst c)) (snd c).\n'
)


# ---- history kind 'object': ONE BIOGEME object; the table changes after its construction (Database.remove,
# or rows dropped through database.data); then likelihood / derivatives / simulate on the same object.
# What the property allows: every value is the value on ONE consistent table -- the table of the construction or
# the current one (each individual owns exactly its rows of that table) -- never old rows with new ranges.
def gen_object_case(rng, kmax, smax):
    K = rng.randint(2, kmax)
    vals, scale, dtype = gen_id_values(rng, K)
    vals = order_values(rng, vals)
    sizes = [rng.randint(1, smax) for _ in range(K)]
    if max(sizes) == 1:
        sizes[rng.randrange(K)] = 2
    col = blocks_to_column(vals, sizes)
    n = len(col)
    how = rng.random()
    if how < 0.35:     # whole individuals, not only the last one of the sorted table
        gone = set(rng.sample(sorted(set(col)), rng.randint(1, K - 1)))
        rm = [1 if v in gone else 0 for v in col]
    elif how < 0.5:    # one row in the first individual of the sorted table: every range moves
        first = min(col)
        rm = [0] * n
        rows = [k for k, v in enumerate(col) if v == first]
        rm[rng.choice(rows)] = 1 if len(rows) > 1 else 0
        if not any(rm):
            rm[col.index(sorted(set(col))[0])] = 1
    else:
        rm = [1 if rng.random() < 0.3 else 0 for _ in range(n)]
    if all(rm):
        rm[rng.randrange(n)] = 0
    if not any(rm):
        rm[rng.randrange(n)] = 1
        if all(rm):
            rm = [0] * n
    change = rng.choice(['remove', 'remove', 'droprows'])
    evals = ['ll', 'lls', 'lld', 'llds', 'sim']
    seq = rng.choice([[], ['ll'], ['sim'], ['lls', 'sim']]) + [change]
    seq += [rng.choice(evals)] + rng.sample(evals, 3) + ['ll']
    return {'history': 'object', 'ids': col, 'scale': scale, 'dtype': dtype, 'x': dyadic_column(rng, n),
            'y': dyadic_column(rng, n), 'kind': rng.choice(['bx', 'xpby']), 'beta': rng.choice([0.5, 0.75, 1.25, 1.5, 2.0]),
            'R': rng.choice([1, 2, 3, 5]), 'threads': rng.choice([1, 2, 3, 4]), 'rm': rm, 'seq': seq,
            'variant': f'object-{change}'}


def object_tables(c):
    keep = [k for k in range(len(c['ids'])) if not c['rm'][k]]
    con = {k: c[k] for k in ('ids', 'x', 'y', 'kind', 'beta', 'R')}
    cur = dict(con, ids=[c['ids'][k] for k in keep], x=[c['x'][k] for k in keep], y=[c['y'][k] for k in keep])
    return con, cur


def object_crash_class(c):
    """The process died while running an `object` history.  One class of such crashes is a known defect of the unchanged tree
    (KNOWN_FINDINGS: the engine is not laid out again for the new number of individuals): whole individuals left the table, a
    later simulate handed the shorter table / map to the engine, and a likelihood was then computed with several threads."""
    seq = c.get('seq') or []
    kept = {i for i, rm in zip(c.get('ids', []), c.get('rm', [])) if not rm}
    fewer = kept != set(c.get('ids', []))
    change = [k for k, a in enumerate(seq) if a in ('remove', 'droprows')]
    if not change or not fewer or int(c.get('threads', 1) or 1) <= 1:
        return None
    sims = [k for k, a in enumerate(seq) if a == 'sim' and k > change[0]]
    if sims and any(a in ('ll', 'lls', 'lld', 'llds') for a in seq[sims[0] + 1:]):
        return 'object-crash-likelihood-after-simulate-fewer-individuals'
    return None


def object_oracle(c, r):
    bad = []
    if 'runner' in r:
        known = object_crash_class(c) if r['runner'].get('exc') == 'subprocess died' else None
        if known:
            return [(known, 'the process died (segmentation fault in the engine) in a history where whole individuals were removed, '
                     'simulate was called and a likelihood was then computed with several threads', None, r['runner'])]
        return [('runner-exception', f"{r['runner']}", None, r['runner'])]
    if not r['panel']['ok']:
        return [('refused-contiguous', 'Database.panel refused a contiguous column', None, r['panel'])]
    if not r['build']['ok']:
        return [('object-exception-build', f"{r['build'].get('exc')}: {r['build'].get('msg')}", None, r['build'])]
    con, cur = object_tables(c)
    tabs = {}
    for name, t in (('construction', con), ('current', cur)):
        inds, plain, mc = expected(t)
        logs = [math.log(plain[i]) for i in inds]
        tabs[name] = {'inds': inds, 'plain': [plain[i] for i in inds], 'mc': [mc[i][j] for j, i in enumerate(inds)],
                      'S': math.fsum(logs), 'N': len(inds), 'mag': len(inds) + sum(abs(v) for v in logs), 'logs': logs}

    def fl(t):
        return float(Fraction(t[0], t[1])) if isinstance(t, list) else float('nan')
    changed, sim_after = None, False
    for k, (a, o) in enumerate(zip(c['seq'], r['steps'])):
        where = f'step {k} ({a}' + (f', after {changed})' if changed else ', before the change)')
        if a in ('remove', 'droprows'):
            if not o['ok']:
                bad.append((f'object-exception-{a}', f"{where}: {o.get('exc')}: {o.get('msg')}", None, o))
                return bad
            changed = a
            continue
        allowed = ['construction', 'current'] if changed else ['construction']
        key = f"object-{a}-{'after-' + changed if changed else 'before-change'}" + ('-after-simulate' if sim_after else '')
        if a == 'sim' and changed:
            sim_after = True
        if not o['ok']:
            bad.append((f'object-exception-{a}' + (f'-after-{changed}' if changed else ''),
                        f"{where}: {o.get('exc')}: {o.get('msg')}", None, o))
            continue
        v = o['v']
        if a in ('ll', 'lld'):
            if not any(abs(fl(v) - tabs[t]['S']) <= TOL_F * tabs[t]['mag'] for t in allowed):
                bad.append((key, f'{where}: the log likelihood of the BIOGEME object is not the sum over the individuals of ONE '
                            f'table (construction or current) of the log of the product over exactly their rows',
                            {t: tabs[t]['S'] for t in allowed}, fl(v)))
        elif a in ('lls', 'llds'):
            if any(abs(fl(v) * tabs[t]['N'] - tabs[t]['S']) <= TOL_F * tabs[t]['mag'] for t in allowed):
                continue
            t0, t1 = tabs['construction'], tabs['current']
            if changed and t0['N'] != t1['N'] and abs(fl(v) * t1['N'] - t0['S']) <= TOL_F * t0['mag']:
                bad.append(('object-scaled-mixed-tables', f'{where}: the scaled log likelihood is the likelihood of the table of the '
                            f"construction ({t0['N']} individuals) divided by the current number of individuals ({t1['N']})",
                            {'construction': t0['S'] / t0['N'], 'current': t1['S'] / t1['N']}, fl(v)))
            else:
                bad.append((key, f'{where}: the scaled log likelihood is not (sum over the individuals of ONE table) / (number of '
                            f'individuals of that table)', {t: tabs[t]['S'] / tabs[t]['N'] for t in allowed}, fl(v)))
        elif a == 'sim':
            def fits(t):
                T = tabs[t]
                return (v['index'] == T['inds'] and len(v['plain']) == T['N']
                        and all(closeF(frac(p_), w) for p_, w in zip(v['plain'], T['plain']))
                        and all(closeF(frac(p_), w) for p_, w in zip(v['mc'], T['mc']))
                        and all(abs(fl(p_) - w) <= TOL_F * (1 + abs(w)) for p_, w in zip(v['loglike'], T['logs'])))
            if not any(fits(t) for t in allowed):
                bad.append((key, f'{where}: simulate does not return, for the individuals of ONE table (construction or current), the '
                            f'product over exactly their rows (old rows combined with new ranges?)',
                            {t: {'index': tabs[t]['inds'], 'plain': [str(w) for w in tabs[t]['plain']]} for t in allowed}, v))
        if o['sample_size']['ok'] and o['sample_size']['v'] != tabs['current' if changed else 'construction']['N']:
            bad.append(('sample-size', f'{where}: get_sample_size() is not the number of individuals of the current table',
                        tabs['current' if changed else 'construction']['N'], o['sample_size']['v']))
    return bad


def coq_object_case(c, r):
    """the last simulation after the change against the model on the current table (None: nothing to compare)"""
    if 'runner' in r or not r['panel']['ok'] or not r.get('build', {}).get('ok'):
        return None
    con, cur = object_tables(c)
    changed, last = False, None
    for a, o in zip(c['seq'], r['steps']):
        if a in ('remove', 'droprows'):
            changed = True
        elif a == 'sim' and o['ok']:
            last = (cur if changed else con, o['v'])
    if last is None:
        return 'skip'
    t, v = last
    inds = sorted(set(t['ids']))
    if v['index'] != inds or any(not isinstance(p_, list) for p_ in v['plain'] + v['mc']):
        return None
    rv = rowvals(t)
    prow = coq_list([f'(({i}), ({coq_Q(p0)}, {coq_Q(Fraction(0))}))' for i, (p0, _, _) in zip(t['ids'], rv)])
    mrow = coq_list([f'(({i}), ({coq_Q(p_)}, {coq_Q(q)}))' for i, (_, p_, q) in zip(t['ids'], rv)])
    return f"({c['R']}%nat, {prow}, {mrow}, {coq_obs(inds, v['plain'])}, {coq_obs(inds, v['mc'])})"


OBJ_HEADER = (
    'From Coq Require Import ZArith List QArith.\nFrom BV Require Import Model.Panel.\nImport ListNotations.\n'
    'Open Scope Z_scope.\n'
    'Definition tol : Q := Qmake 1 1000000000000.\n'
    'Definition chk (c : nat * list Qrow * list Qrow * list (Z * Q) * list (Z * Q)) : bool :=\n'
    "  let '(R, prow, mrow, oplain, omc) := c in\n"
    '  close_all tol oplain (model_plain prow) && close_all tol omc (model_mc R mrow).\n'
)


def cross_variant_oracle(ctx, group):
    """values follow the individuals under every reordering; totals agree"""
    if len(group) < 2:
        return
    base_c, base_r = group[0]
    if 'runner' in base_r or not base_r['panel']['ok'] or not base_r['sim']['ok']:
        return
    b = base_r['sim']['v']
    bplain = dict(zip(b['index'], [frac(v) for v in b['plain']]))
    bmc = dict(zip(b['index'], [frac(v) for v in b['mc']]))
    for c, r in group[1:]:
        if 'runner' in r or not r['panel']['ok'] or not r['sim']['ok']:
            continue
        s = r['sim']['v']
        sign = -1 if c['variant'] == 'relabel' else 1
        for i, vp, vm in zip(s['index'], s['plain'], s['mc']):
            if i is None or sign * i not in bplain:
                continue
            ref = bplain[sign * i]
            if ref is None or not closeF(frac(vp), ref, 2 * TOL):
                ctx.violation(f"C09/panel_ll/order-dependence-{c['variant']}",
                              f"individual {sign * i}: trajectory value changes when the table is reordered ({c['variant']})",
                              {'stream': 'panel_ll', 'case': c, 'base': base_c,
                               'table': {'pid': c['ids'], 'x': c['x'], 'y': c['y']}},
                              str(ref), vp, how='./check C09 --replay <this file>')
            if sign == 1 and (bmc[i] is None or not closeF(frac(vm), bmc[i], 2 * TOL)):
                ctx.violation(f"C09/panel_ll/order-dependence-mc-{c['variant']}",
                              f"individual {i}: Monte-Carlo value changes when the table is reordered ({c['variant']})",
                              {'stream': 'panel_ll', 'case': c, 'base': base_c,
                               'table': {'pid': c['ids'], 'x': c['x'], 'y': c['y']}},
                              str(bmc[i]), vm, how='./check C09 --replay <this file>')
        if base_r['ll_plain']['ok'] and r['ll_plain']['ok']:
            t0, t1 = frac(base_r['ll_plain']['v']['unscaled']), frac(r['ll_plain']['v']['unscaled'])
            if t0 is not None and t1 is not None:
                mag = len(b['index']) + sum(abs(math.log(float(v))) for v in bplain.values() if v and v > 0)
                if abs(float(t0) - float(t1)) > 2 * TOL_F * mag:
                    ctx.violation(f"C09/panel_ll/total-order-dependence-{c['variant']}",
                                  f"total log likelihood changes when the table is reordered ({c['variant']})",
                                  {'stream': 'panel_ll', 'case': c, 'base': base_c,
                                   'table': {'pid': c['ids'], 'x': c['x'], 'y': c['y']}},
                                  float(t0), float(t1), how='./check C09 --replay <this file>')


def stream_panel_ll(ctx):
    st = ctx.stream('panel_ll',
                    'panel tables: 1-6 (thorough 1-20) individuals of 1-4 (1-10) rows, all data values distinct dyadics '
                    '(2j+9)/16 (large tables: (2j+33)/64) per column; formulas x, b*x, x+b*y (and with one tagged draw: *xi, x+b*y*xi); b in {.5,.75,1.25,1.5,2}; '
                    '1-16 draws; 1-4 threads; each base case also with individuals permuted, rows permuted inside '
                    'individuals, both, and identifiers negated (reverse order); paths simulate / calculate_likelihood / '
                    'get_value_c; plus histories: one BIOGEME object, estimate(run_bootstrap=True) completed / interrupted by a fault '
                    'injected in the k-th optimize call (k>=2), then likelihood and simulate on the same object; and one Database object with '
                    'declarations on two identifier columns (persons / households, some to be refused), direct edits of database.data '
                    '(append small/large/middle/existing individual, merge, relabel, drop individuals / rows, permute) and evaluations through '
                    'get_value_c, get_value_and_derivatives, values_from_database, create_function, BIOGEME simulate / likelihood, every one of '
                    'them as the first evaluation after an edit or a declaration; scaled and unscaled derivatives; and one BIOGEME object whose '
                    'table changes after its construction (Database.remove of rows / whole individuals not at the end, rows dropped through '
                    'database.data), then likelihood, scaled likelihood, derivatives and simulate on the same object in every order; non-trivial = at least 2 individuals and one individual with >= 2 rows; distinct by full case')
    rng = ctx.sub_rng('panel_ll')
    groups = []
    for c in load_corpus('ll'):
        groups.append([c])
    for _ in range(ctx.n(40, 400)):
        base = gen_ll_base(rng, ctx.n(6, 20), ctx.n(4, 10))
        groups.append([base] + [variant(rng, base, k) for k in ('ind', 'rows', 'both', 'relabel')])
    for _ in range(ctx.n(4, 30)):
        for c in gen_hist_cases(rng, ctx.n(7, 12), ctx.n(3, 6)):
            groups.append([c])
    for k in range(ctx.n(15, 240)):
        groups.append([gen_steps_case(rng, ctx.n(6, 12), ctx.n(3, 5), ('edit', 'repanel', 'mixed')[k % 3])])
    for _ in range(ctx.n(12, 150)):
        groups.append([gen_object_case(rng, ctx.n(5, 10), ctx.n(3, 5))])
    cases = [c for g in groups for c in g]
    res = run_impl(ctx, 'c09_ll.py', cases,
                   lambda msg: {'runner': {'ok': False, 'exc': 'subprocess died', 'msg': msg}})
    items, hitems, sitems, oitems = [], [], [], []
    step_notes = 0
    for idx, (c, r) in enumerate(zip(cases, res)):
        sizes = [len(rows) for _, rows in blocks_of(c)]
        st.record(c, nontrivial=len(sizes) >= 2 and max(sizes) >= 2)
        hist = c.get('history')
        if hist == 'steps':
            found, notes = steps_oracle(c, r)
            step_notes += len(notes)
            found = [f + (None,) * (4 - len(f)) for f in found]
        elif hist == 'bootstrap':
            found = hist_oracle(c, r)
        elif hist == 'object':
            found = object_oracle(c, r)
        else:
            found = ll_oracle(c, r)
        for what, detail, exp, obs in found:
            ctx.violation(f'C09/panel_ll/{what}', detail,
                          {'stream': 'panel_ll', 'case': c,
                           'table': {'pid': c['ids'], 'x': c['x'], 'y': c['y'], **({'hid': c['cols']['hid']} if hist == 'steps' else {})}},
                          exp, obs, how='./check C09 --replay <this file>')
        t = (coq_steps_case(c, r) if hist == 'steps' else coq_hist_case(c, r) if hist == 'bootstrap' else
             ('skip' if found else coq_object_case(c, r)) if hist == 'object' else coq_ll_case(c, r))
        if t == 'skip':
            continue
        if t is None:
            st.disagree(c, 'per-individual values', r, 'implementation output not encodable (exception / non-finite value)')
            continue
        (sitems if hist == 'steps' else hitems if hist == 'bootstrap' else oitems if hist == 'object' else items).append((idx, t))
    pos = 0
    for g in groups:
        cross_variant_oracle(ctx, list(zip(g, res[pos:pos + len(g)])))
        pos += len(g)
    verdict = run_coq_bools(ctx, st, 'pll', LL_HEADER, items, 60)
    verdict.update(run_coq_bools(ctx, st, 'phist', HIST_HEADER, hitems, 60))
    verdict.update(run_coq_bools(ctx, st, 'psteps', STEPS_HEADER, sitems, 30))
    verdict.update(run_coq_bools(ctx, st, 'pobj', OBJ_HEADER, oitems, 60))
    for idx, b in verdict.items():
        if not b:
            st.disagree(cases[idx], 'model_plain / model_mc / build_map / sample_size over Q (relative 1e-12)', res[idx])
    st.extra['variants'] = {k: sum(1 for c in cases if c.get('variant') == k)
                            for k in ('base', 'ind', 'rows', 'both', 'relabel', 'corpus', 'bootstrap-completed',
                                      'bootstrap-interrupted', 'steps-edit', 'steps-repanel', 'steps-mixed', 'object-remove',
                                      'object-droprows')}
    st.extra['steps_history'] = {'cases': len(sitems), 'row_order_notes': step_notes,
                                 'declarations_refused': sum(1 for c, r in zip(cases, res) if c.get('history') == 'steps'
                                                             for o_, s_ in zip(r.get('steps', []), c['steps'])
                                                             if s_['do'] == 'panel' and not o_.get('ok')),
                                 'first_entry_after_edit': {}}
    for c in cases:
        if c.get('history') == 'steps':
            prev = None
            for s_ in c['steps']:
                if s_['do'] == 'eval' and prev == 'edit':
                    d_ = st.extra['steps_history']['first_entry_after_edit']
                    d_[s_['entry']] = d_.get(s_['entry'], 0) + 1
                prev = s_['do']
    st.extra['history_estimate_outcomes'] = {}
    for c, r in zip(cases, res):
        if c.get('history') == 'bootstrap' and isinstance(r.get('estimate'), dict):
            k = str(r['estimate'].get('v') or r['estimate'].get('exc'))
            st.extra['history_estimate_outcomes'][k] = st.extra['history_estimate_outcomes'].get(k, 0) + 1
    st.extra['threads'] = {str(t): sum(1 for c in cases if c['threads'] == t) for t in (1, 2, 3, 4)}
    if st.disagreements:
        ctx.stream_broken('panel_ll', f'{len(st.disagreements)} disagreements, first: '
                          + json.dumps(st.disagreements[0], default=str)[:1500])


# ------------------------------------------------------------------------------------------ driver
def run(ctx):
    ctx.assumptions += ASSUME
    ctx.trusted += TRUSTED
    ctx.build()
    stream_panel_map(ctx)
    stream_panel_ll(ctx)


def replay(ctx, path):
    w = json.load(open(path))
    wit = w.get('witness') or {}
    c = wit.get('case')
    if not c or wit.get('stream') not in ('panel_map', 'panel_ll'):
        print('replay: this file names an obligation/stream; re-run ./check C09')
        return 2
    if wit['stream'] == 'panel_map':
        r = ctx.impl('c09_map.py', [c])[0]
        bad = map_oracle(c, r)
    else:
        r = ctx.impl('c09_ll.py', [c])[0]
        if c.get('history') == 'steps':
            bad = [b[:2] for b in steps_oracle(c, r)[0]]
        elif c.get('history') == 'object':
            bad = [b[:2] for b in object_oracle(c, r)]
        else:
            bad = [b[:2] for b in (hist_oracle(c, r) if c.get('history') == 'bootstrap' else ll_oracle(c, r))]
        if wit.get('base'):
            class V:  # collect cross-variant violations without touching the verdict machinery
                def __init__(self):
                    self.v = []

                def violation(self, key, what, *a, **k):
                    self.v.append((key, what))
            v = V()
            rb = ctx.impl('c09_ll.py', [wit['base']])[0]
            cross_variant_oracle(v, [(wit['base'], rb), (c, r)])
            bad += v.v
    print(json.dumps({'witness': c, 'observed': r, 'failures': bad, 'still_fails': bool(bad)}, default=str)[:4000])
    import shutil
    shutil.rmtree(ctx.scratch, ignore_errors=True)
    return 1 if bad else 0
