"""C06 -- the model family is consistent: special cases and generating functions agree.
Shares the Gallina builders, the structural stream `build` and the case generators with C05."""
import copy
import json
import math
from fractions import Fraction

from props import C05 as base
from props.C05 import (finite, close, availability, run_value_cases, set_betas, gen_rows, value_case_nested,
                       value_case_cnl, load_corpus)

ASSUME = base.ASSUME + [
    'T06e: every nest contains an available alternative (0 ** x is outside the regular domain of evalX); that a '
    'nest lists each alternative once is derived from the builder returning Ok (check_partition refuses a repetition)',
]
TRUSTED = base.TRUSTED + [
    'Coquelicot 3 (is_derive) for the generating-function theorem',
]

H_BUMP = 2.0 ** -16
TOL_FD = Fraction(1, 10 ** 5)


def one_variant(rng, name, kind='param'):
    r = rng.random()
    if r < 0.3:
        return {'n': 1.0}
    if r < 0.5:
        return {'n': 1}
    if r < 0.7:
        return {'e': ['Num', 1]}
    return {'e': ['Beta', name, 1, rng.choice([0, 1])]}


def force_ones(c, names):
    return {n: 1 for n in names}


def beta_names(p):
    return [p['e'][1]] if 'e' in p and p['e'][0] == 'Beta' else []


def finish(rng, c, force=None):
    c.pop('syntaxes', None)
    c['choice'] = None
    c['betas'] = set_betas(rng, c, force=force)
    c['rows'] = gen_rows(rng, c, 3)
    return c


PAIR_KINDS = ['mu1', 'mu1', 'degenerate', 'degenerate', 'mu_one_nested', 'mu_one_cnl', 'gen', 'gen',
              'legacy_nested', 'legacy_nested_mu', 'legacy_cnl', 'legacy_cnlmu', 'history', 'history']
LEGACY_FNS = {'legacy_nested': ('nested', 'lognested'), 'legacy_nested_mu': ('nested_mev_mu', 'lognested_mev_mu'),
              'legacy_cnl': ('cnl', 'logcnl'), 'legacy_cnlmu': ('cnlmu', 'logcnlmu')}


def distinct_params(rng, c):
    """nest parameters different from 1 and from each other (so that a mixed-up nest sum shows)"""
    vals = rng.sample([1.25, 1.5, 1.75, 2.0, 2.5, 3.0, 4.0], len(c['nests']))
    for j, nst in enumerate(c['nests']):
        nst[0] = {'n': vals[j]} if rng.random() < 0.5 else {'e': ['Beta', f'MU{j + 1}', vals[j], rng.choice([0, 1])]}
    return {f'MU{j + 1}': vals[j] for j in range(len(c['nests']))}


def gen_pair_cases(rng, n, plan=None):
    """plan: list of (kind, syntax, const_av, name_mode) that must be produced first (the systematic block)"""
    cases = []
    plan = list(plan or [])
    for it in range(n + len(plan)):
        if it < len(plan):
            kind, syn, const_av, name_mode = plan[it]
        else:
            kind = rng.choice(PAIR_KINDS)
            syn = rng.choice(['legacy', 'objects'])
            const_av = rng.random() < 0.2
            name_mode = rng.choice([None, None, 'equal', 'collision', 'mixed']) if syn == 'objects' else None
        if kind == 'history':
            fam = rng.choice(['nested', 'nested', 'nested_mu', 'cnl', 'cnlmu'])
            c = base.gen_history_case(rng, fam, fresh_syntax='legacy', syntax='objects')
            c['pair_kind'] = 'history'
            cases.append(c)
            continue
        if kind.startswith('legacy'):
            syn = 'objects'
            name_mode = name_mode or rng.choice(['equal', 'collision', 'history', 'explicit', 'mixed'])

        def tweak(c):
            if const_av:
                c['av'] = base.g_const_av(rng, [k for k, _ in c['util']])
            if name_mode:
                base.add_names(rng, c, name_mode)
            return c

        force0 = {}
        if kind.startswith('legacy'):
            fam = kind[len('legacy_'):]
            while True:
                c = (value_case_nested(rng, fam == 'nested_mu') if fam.startswith('nested')
                     else value_case_cnl(rng, fam == 'cnlmu'))
                if len(c['nests']) >= 2:
                    break
            force0 = distinct_params(rng, c)
            tweak(c)
            finish(rng, c, force0)
            pf, lf = LEGACY_FNS[kind]
            c['calls'] = [{'name': 'AV', 'fn': 'AV'},
                          {'name': 'lhs', 'fn': pf, 'syntax': 'objects'}, {'name': 'rhs', 'fn': pf, 'syntax': 'legacy'},
                          {'name': 'lhs_log', 'fn': lf, 'syntax': 'objects'},
                          {'name': 'rhs_log', 'fn': lf, 'syntax': 'legacy'}]
            c['pair_kind'] = kind
            cases.append(c)
            continue
        if kind == 'mu1':
            c = tweak(value_case_nested(rng))
            force = {}
            for j, nst in enumerate(c['nests']):
                nst[0] = one_variant(rng, f'MU{j + 1}')
                for nm in beta_names(nst[0]):
                    force[nm] = 1
            finish(rng, c, force)
            c['calls'] = [{'name': 'AV', 'fn': 'AV'},
                          {'name': 'lhs', 'fn': 'nested', 'syntax': syn}, {'name': 'rhs', 'fn': 'logit'},
                          {'name': 'lhs_log', 'fn': 'lognested', 'syntax': syn}, {'name': 'rhs_log', 'fn': 'loglogit'}]
        elif kind == 'degenerate':
            c = tweak(value_case_nested(rng))     # a partition; turned into cross-nested nests with alpha = 1
            force = {}
            nn = c['nests']
            cn = []
            full = rng.random() < 0.5
            for j, (p, alts) in enumerate(nn):
                al = []
                for a in alts:
                    v = one_variant(rng, f'alpha_{j + 1}_{a}')
                    for nm in beta_names(v):
                        force[nm] = 1
                    al.append([a, v])
                if full:
                    # full alpha dictionaries: every other alternative (also one outside every nest) listed with alpha = 0
                    for a, _ in c['util']:
                        if a not in alts:
                            al.append([a, rng.choice([{'n': 0}, {'n': 0.0}, {'e': ['Num', 0]}])])
                    rng.shuffle(al)
                cn.append([copy.deepcopy(p), al])
            c['nests'] = cn
            c['nests_alt'] = nn
            c['full_alpha'] = full
            finish(rng, c, force)
            c['calls'] = [{'name': 'AV', 'fn': 'AV'},
                          {'name': 'lhs', 'fn': 'cnl', 'syntax': syn},
                          {'name': 'rhs', 'fn': 'nested', 'nests': nn, 'syntax': syn},
                          {'name': 'lhs_log', 'fn': 'logcnl', 'syntax': syn},
                          {'name': 'rhs_log', 'fn': 'lognested', 'nests': nn, 'syntax': syn}]
        elif kind in ('mu_one_nested', 'mu_one_cnl'):
            c = tweak(value_case_nested(rng, True) if kind == 'mu_one_nested' else value_case_cnl(rng, True))
            c['mu'] = one_variant(rng, 'MU')
            finish(rng, c, {'MU': 1})
            if kind == 'mu_one_nested':
                fns = ('nested_mev_mu', 'nested', 'lognested_mev_mu', 'lognested')
            else:
                fns = ('cnlmu', 'cnl', 'logcnlmu', 'logcnl')
            c['calls'] = [{'name': 'AV', 'fn': 'AV'},
                          {'name': 'lhs', 'fn': fns[0], 'syntax': syn}, {'name': 'rhs', 'fn': fns[1], 'syntax': syn},
                          {'name': 'lhs_log', 'fn': fns[2], 'syntax': syn},
                          {'name': 'rhs_log', 'fn': fns[3], 'syntax': syn}]
        else:
            c = tweak(value_case_nested(rng))
            if name_mode and len(c['nests']) >= 2:
                finish(rng, c, distinct_params(rng, c))
            else:
                finish(rng, c)
            calls = [{'name': 'AV', 'fn': 'AV'}, {'name': 'V', 'fn': 'V'},
                     {'name': 'lnG', 'fn': 'lnG_nested', 'syntax': syn}, {'name': 'G', 'fn': 'gen', 'syntax': syn}]
            for k, _ in c['util']:
                calls.append({'name': f'Gp{k}', 'fn': 'gen', 'bump': [k, H_BUMP], 'syntax': syn})
                calls.append({'name': f'Gm{k}', 'fn': 'gen', 'bump': [k, -H_BUMP], 'syntax': syn})
            c['calls'] = calls
        c['pair_kind'] = kind
        cases.append(c)
    return cases


def val(res, name, k, r):
    x = res.get(name, {})
    if 'exc' in x:
        return ('exc', x['exc'])
    v = x['alts'].get(str(k))
    if not isinstance(v, list):
        return ('exc', v)
    return v[r]


def oracle_pair(c, res, r):
    alts = [k for k, _ in c['util']]
    av = availability(res, alts, r)
    if av is None or not any(av.values()):
        return None
    bad = []
    for k in alts:
        a, b = val(res, 'lhs', k, r), val(res, 'rhs', k, r)
        if not finite(a) or not finite(b):
            bad.append(('non-finite', f'alternative {k}: {a!r} vs {b!r}', None))
        elif not close(a, b, abs_=Fraction(1, 10 ** 18)):
            bad.append(('differ', f'probabilities of alternative {k} differ: {a!r} vs {b!r}', None))
        la, lb = val(res, 'lhs_log', k, r), val(res, 'rhs_log', k, r)
        if av[k]:
            if not finite(la) or not finite(lb):
                bad.append(('non-finite', f'log-probabilities of alternative {k}: {la!r} vs {lb!r}', None))
            elif abs(Fraction(la) - Fraction(lb)) > Fraction(1, 10 ** 9) * max(1, abs(Fraction(la))):
                bad.append(('differ', f'log-probabilities of alternative {k} differ: {la!r} vs {lb!r}', None))
        elif la != lb:
            bad.append(('differ', f'log-probabilities of unavailable alternative {k}: {la!r} vs {lb!r}', None))
    return bad


def oracle_gen(c, res, r):
    alts = [k for k, _ in c['util']]
    av = availability(res, alts, r)
    if av is None or not any(av.values()):
        return None
    bad = []
    G = val(res, 'G', 'G', r)
    if not finite(G):
        return [('non-finite', f'G = {G!r}', None)]
    for k in alts:
        gp, gm = val(res, f'Gp{k}', 'G', r), val(res, f'Gm{k}', 'G', r)
        if not finite(gp) or not finite(gm):
            bad.append(('non-finite', f'G(V_{k} +- h) = {gp!r}, {gm!r}', None))
            continue
        d = (Fraction(gp) - Fraction(gm)) / (2 * Fraction(H_BUMP))
        if av[k]:
            v, lg = val(res, 'V', k, r), val(res, 'lnG', k, r)
            if not finite(v) or not finite(lg):
                bad.append(('non-finite', f'V_{k} = {v!r}, ln G_{k} = {lg!r}', None))
                continue
            expected = Fraction(math.exp(v + lg))
            if abs(d - expected) > TOL_FD * max(abs(expected), abs(d)) + Fraction(1, 10 ** 9):
                bad.append(('derivative', f'dG/dV_{k} = {float(d)!r} (central difference, h=2^-16) but '
                            f'exp(V_{k} + ln G_{k}) = {float(expected)!r}', {'G': G, 'V': v, 'lnG': lg}))
        elif abs(d) > Fraction(1, 10 ** 7) * max(1, abs(Fraction(G))):
            bad.append(('derivative', f'G depends on the utility of the unavailable alternative {k}: dG/dV = {float(d)!r}',
                        None))
    return bad


def stream_pairs(ctx, n_quick=110, n_thorough=1500):
    st = ctx.stream('pairs', 'engine values (get_value_c, 3 random rows each) of the two sides of each reduction: nested '
                    'with all mu_m = 1 (1.0 / 1 / Numeric(1) / Beta at 1) vs logit; cnl with alpha = 1 in exactly one '
                    'nest vs nested on the induced partition; *_mu builders with mu = 1 vs unscaled (1e-9 relative, '
                    'probabilities and log-probabilities, all alternatives); central difference of '
                    'get_mev_generating_for_nested in each V_i vs exp(V_i + ln G_i) from get_mev_for_nested '
                    '(1e-5 relative), including alternatives outside every nest; nest objects (with user names, equal names, names '
                    'kept from an earlier specification) vs the legacy tuples for nested / nested+mu / cnl / cnl+mu; '
                    'availabilities given as plain Python numbers with a 0; legacy / object syntax at random; HISTORIES: the same '
                    'nest objects and util / availability dicts re-used over several evaluations with updates in place in '
                    'between, each evaluation (P, log P, ln G_i, G) compared with the legacy tuple syntax on fresh objects; '
                    'non-trivial = row with an available alternative')
    rng = ctx.sub_rng('pairs')
    cases = [d['case'] for p, d in load_corpus('C06') if d.get('stream') == 'pairs']
    plan = [('history', 'objects', False, None)] * 6
    plan += [('mu1', 'legacy', True, None), ('mu1', 'objects', True, 'collision'),
            ('mu_one_nested', 'legacy', True, None), ('mu_one_cnl', 'objects', True, None),
            ('degenerate', 'objects', True, None), ('gen', 'legacy', True, None)]
    for kind in ('legacy_nested', 'legacy_nested_mu', 'legacy_cnl', 'legacy_cnlmu'):
        plan += [(kind, 'objects', False, 'collision'), (kind, 'objects', False, 'equal'),
                 (kind, 'objects', True, 'history')]
    plan += [('degenerate', 'objects', False, 'collision'), ('degenerate', 'objects', False, 'equal'),
             ('gen', 'objects', False, 'collision'), ('gen', 'objects', False, 'equal')]
    cases += gen_pair_cases(rng, ctx.n(n_quick, n_thorough), plan=plan)
    results = run_value_cases(ctx, cases)
    kinds = {}
    for c, res in zip(cases, results):
        kind = c['pair_kind']
        kk = kind + ('_full_alpha' if c.get('full_alpha') else '')
        kinds[kk] = kinds.get(kk, 0) + 1
        if 'exc' in res:
            st.record({'kind': kind, 'exc': res['exc']}, nontrivial=False)
            ctx.violation(f'C06/pairs/{kind}/harness', 'the case could not be evaluated', c, None, res)
            continue
        for r in range(len(c['rows'])):
            if kind == 'history':
                bad = base.oracle_history(c, res, r, distribution=False)
            else:
                bad = oracle_gen(c, res, r) if kind == 'gen' else oracle_pair(c, res, r)
            if bad is None:
                st.record({'kind': kind, 'skipped': 'no available alternative', 'row': c['rows'][r]}, nontrivial=False)
                continue
            st.record({'kind': kind, 'util': c['util'], 'av': c.get('av'), 'nests': c['nests'], 'mu': c.get('mu'),
                       'betas': c['betas'], 'row': c['rows'][r]}, nontrivial=True)
            for what_kind, what, detail in bad:
                ctx.violation(f'C06/pairs/{kind}/{what_kind}', what,
                              {'case': c, 'row_index': r, 'row': c['rows'][r]},
                              'both sides of the reduction agree' if kind != 'gen'
                              else 'd/dV_i G(e^V) = e^{V_i} e^{ln G_i}', detail,
                              how='PYTHONPATH=/repo/src /venv/bin/python /verif/lib/impl/c05_values.py < [case]')
    st.extra['kinds'] = kinds
    return cases, results


def pair_cases_from_build(rng, bc):
    """derive reduction / generating-function cases from a (disagreeing) case of the structural stream"""
    out = []
    kind = bc.get('kind')
    fam = base.KIND_FAMILY.get(kind)
    if fam not in ('nested', 'nested_mu', 'cnlmu', 'cnl') or len(bc.get('util', [])) < 2 or bc.get('fault'):
        return out
    if fam in ('cnlmu', 'cnl') and not base.cnl_alphas_positive(bc):
        return out
    syn = (bc.get('syntaxes') or ['legacy'])[0]

    def fresh():
        c = copy.deepcopy(bc)
        for k in ('fault', 'syntaxes'):
            c.pop(k, None)
        c['util'] = [[k, v if 'e' in v else {'e': ['Num', v['n']]}] for k, v in c['util']]
        return c

    if fam == 'nested':
        c = fresh()
        finish(rng, c)
        calls = [{'name': 'AV', 'fn': 'AV'}, {'name': 'V', 'fn': 'V'},
                 {'name': 'lnG', 'fn': 'lnG_nested', 'syntax': syn}, {'name': 'G', 'fn': 'gen', 'syntax': syn}]
        for k, _ in c['util']:
            calls.append({'name': f'Gp{k}', 'fn': 'gen', 'bump': [k, H_BUMP], 'syntax': syn})
            calls.append({'name': f'Gm{k}', 'fn': 'gen', 'bump': [k, -H_BUMP], 'syntax': syn})
        c['calls'] = calls
        c['pair_kind'] = 'gen'
        out.append(c)
        c = fresh()
        force = {}
        for j, nst in enumerate(c['nests']):
            nst[0] = one_variant(rng, f'MU{j + 1}')
            for nm in beta_names(nst[0]):
                force[nm] = 1
        finish(rng, c, force)
        c['calls'] = [{'name': 'AV', 'fn': 'AV'},
                      {'name': 'lhs', 'fn': 'nested', 'syntax': syn}, {'name': 'rhs', 'fn': 'logit'},
                      {'name': 'lhs_log', 'fn': 'lognested', 'syntax': syn}, {'name': 'rhs_log', 'fn': 'loglogit'}]
        c['pair_kind'] = 'mu1'
        out.append(c)
    else:
        c = fresh()
        c['mu'] = one_variant(rng, 'MU')
        finish(rng, c, {'MU': 1})
        fns = (('nested_mev_mu', 'nested', 'lognested_mev_mu', 'lognested') if fam == 'nested_mu'
               else ('cnlmu', 'cnl', 'logcnlmu', 'logcnl'))
        c['calls'] = [{'name': 'AV', 'fn': 'AV'},
                      {'name': 'lhs', 'fn': fns[0], 'syntax': syn}, {'name': 'rhs', 'fn': fns[1], 'syntax': syn},
                      {'name': 'lhs_log', 'fn': fns[2], 'syntax': syn}, {'name': 'rhs_log', 'fn': fns[3], 'syntax': syn}]
        c['pair_kind'] = 'mu_one_nested' if fam == 'nested_mu' else 'mu_one_cnl'
        out.append(c)
    return out


def search_failing_input(ctx):
    st = ctx.streams.get('build')
    if st is None or not st.disagreements:
        return
    rng = ctx.sub_rng('search')
    cases = []
    for d in st.disagreements[:40]:
        try:
            cases += pair_cases_from_build(rng, d['case'])
        except Exception:  # noqa
            continue
    if not cases:
        return
    results = run_value_cases(ctx, cases)
    n = 0
    ps = ctx.stream('pairs', '')
    for c, res in zip(cases, results):
        if 'exc' in res:
            continue
        kind = c['pair_kind']
        for r in range(len(c['rows'])):
            bad = oracle_gen(c, res, r) if kind == 'gen' else oracle_pair(c, res, r)
            ps.record({'search': True, 'kind': kind, 'row': c['rows'][r], 'util': c['util']}, nontrivial=bad is not None)
            for what_kind, what, detail in bad or []:
                if 'exc' in str(what):
                    continue
                n += 1
                ctx.violation(f'C06/pairs/{kind}/{what_kind}', what,
                              {'case': c, 'row_index': r, 'row': c['rows'][r]},
                              'both sides agree', detail,
                              how='PYTHONPATH=/repo/src /venv/bin/python /verif/lib/impl/c05_values.py < [case]')
    ctx.notes['failing_input_search'] = {'cases': len(cases), 'oracle_failures': n}


def run(ctx):
    ctx.assumptions += ASSUME
    ctx.trusted += TRUSTED
    ctx.build()
    base.stream_build(ctx, n_quick=200, n_thorough=3000)
    stream_pairs(ctx)
    if ctx.broken and not ctx.violations:
        search_failing_input(ctx)


def gen_all(ctx):
    pass


def replay(ctx, path):
    return base.replay(ctx, path)
