"""C02 -- gradient, Hessian and BHHH returned with a value are its true derivatives.

Theorems (rocq/Properties/C02.v): the symbolic derivative D of Model/Deriv.v is correct on the smooth
fragment (Coquelicot), its domain is open, the Hessian trees are the second partial derivatives and are
symmetric, entry i belongs to the i-th sorted name, aggregation / BHHH / scaling, packaging (tie A, Gen/Pack.v
regenerated from function_output.py / calculator.py / idmanager.py / base_expressions.py / biogeme.py on every run).
Streams:
  deriv_engine  every entry of the per-observation value / gradient / Hessian returned by the engine vs the
                proved enclosure of evalX (D b e) / evalX (D b' (D b e)) computed in Coq; BHHH, aggregation,
                symmetry, the 2x2x2 modes, named outputs, renamed parameters, BIOGEME scaled / unscaled:
                exact rational arithmetic on the doubles.
                Known findings (engine, external): Hessian of x**2, gradient of a bioLinearUtility with a repeated
                parameter -- attributed by re-running the engine on the rewritten formula (x*x, sum of products).
  pack          the generated packaging functions evaluated in Coq on integer-tagged inputs vs the wrappers.
"""
import json
import math
from fractions import Fraction

from bridge import json_to_coq, heads_in, tree_size, tree_depth
from common import coq_string, parse_bools
from gen_expr import strip_sids, count_shared
from values import coq_env, coq_dy
from py2v import Untranslatable

from props import c02_gen
from props import c02_pack

ASSUME = [
    'the compiled engine (cythonbiogeme, C++) is external: its derivative code is not verified; it is compared, entry by entry, '
    'with proved enclosures of the value of the derivative trees D b e / D b\' (D b e) (stream deriv_engine)',
    'normal CDF: Section hypothesis Phi_derive of Proofs/DerivP.v -- Phi is differentiable with derivative c*exp(-x^2/2), c the double '
    'nearest to 1/sqrt(2 pi) (what a derivative tree can express; |c*sqrt(2 pi) - 1| < 2^-53). The engine itself uses the 10-digit '
    'constant 0.3989422804 (relative deviation 3.6e-12, below the tolerance of the stream)',
    'IEEE rounding inside the engine is covered by the relative tolerance of the membership test (2^-30 for values and first '
    'derivatives, 2^-24 for second derivatives, relative to max(|y|, 1)), not modelled; an entry that fails this test is re-judged with '
    'the magnitude-aware tolerance 2^-36 * (sum over the sub-trees of the model tree of |enclosure|): differences explained by cancellation '
    'in an ill-conditioned evaluation are counted (ill_conditioned_entries), not reported',
    'differentiable formula = smooth fragment of Model/Deriv.v at an interior point (predicate dom, proved open: T02a_dom_open): comparisons, And/Or, min/max, '
    'logzero, Elem keys, ConditionalSum conditions, chosen alternative and availabilities only over parameter-free sub-trees; '
    'MonteCarlo / PanelLikelihoodTrajectory / Integrate / Derive are outside the fragment (C09 / C10)',
    'numpy: division of an array by a float divides every entry (scaling), ndarray[0] selects the first entry',
]
TRUSTED = [
    'engine semantics modelled (rocq/Model/EvalX.v), not verified; the interval evaluator evalI is proved sound (T01f)',
    'expression bridge lib/impl/bio_bridge.py / bio_build.py (round trip checked on every case)',
    'specialised fail-closed extractors of lib/props/c02_pack.py (tie A)',
]

HEADER = ('From BV Require Import Model.Expr Model.EvalI Model.Deriv.\n'
          'Open Scope Z_scope. Open Scope string_scope.\n')

# Conditioning pass (only for the entries that fail the strict test): M = sum over the sub-trees of the model tree of |enclosure| bounds
# the magnitudes the engine's floating-point evaluation goes through (same sub-expressions, forward mode); a double that differs from the
# enclosure by at most 2^-36 * M is within the rounding error of an ill-conditioned evaluation (cancellation) and nothing is claimed.
COND_HEADER = HEADER + '''
Definition imag (v : ival) : I.type := match v with VI i => I.abs i | _ => I.nai end.
Fixpoint evalVM (e : expr) (en : denv) {struct e} : ival * I.type :=
  match e with
  | Node h kids =>
      let r := map (fun k => evalVM k en) kids in
      let vs := map fst r in
      let m := fold_right (fun x acc => I.add prec (snd x) acc) izero r in
      let v := match h, vs with
               | HNum d, [] => VI (I_of_dyadic d)
               | HBeta n _, [] => ilook n (d_beta en)
               | HVar n, [] => ilook n (d_var en)
               | HBin op, [a; b] => ibin op a b
               | HUn MonteCarlo, _ | HUn PanelTraj, _ => VNaN
               | HUn op, [a] => iun PhiI_none op a
               | HPowC c, [a] => ipowc c a
               | HBelongs s, [a] => ibelongs s a
               | HMultSum, _ => isum vs
               | HCondSum, _ => icondsum vs
               | HElem keys, _ => ielem keys vs
               | HLinUtil, _ => ilinutil vs
               | HLogLogit uk ak, _ => iloglogit uk ak vs
               | _, _ => VNaN
               end in
      (v, I.add prec (imag v) m)
  end.
Inductive cverdict := COk | CBad | CUnk.
Definition cond_judge (t : expr) (en : denv) (y : dyadic) : cverdict :=
  let '(v, M) := evalVM t en in
  match v, M with
  | VI (Float.Ibnd _ _ as i), Float.Ibnd _ _ =>
      let d := I.abs (I.sub prec (I_of_dyadic y) i) in
      let tol := I.mul prec M (I.power_int prec (I.fromZ prec 2) (-36)) in
      match isign (I.sub prec tol d) with SPos | SZero => COk | SNeg => CBad | SUnk => CUnk end
  | _, _ => CUnk
  end.
'''

REL_F, REL_G, REL_H = -30, -30, -24
TWO = Fraction(2)


def fr(x):
    return Fraction(x)


def finite(x):
    return isinstance(x, (int, float)) and math.isfinite(x)


def all_finite(a):
    if a is None:
        return True
    if isinstance(a, list):
        return all(all_finite(x) for x in a)
    if isinstance(a, dict):
        return all(all_finite(x) for x in a.values())
    return finite(a)


def close(a, b, bits=-40, scale=1.0):
    """|a - b| <= 2^bits * max(|a|, |b|, scale): exact rational arithmetic on the doubles"""
    if not (finite(a) and finite(b)):
        return False
    fa, fb = fr(a), fr(b)
    return abs(fa - fb) <= TWO ** bits * max(abs(fa), abs(fb), fr(scale))


def sum_close(total, terms, extra_roundings=0):
    """total is a floating-point sum of the doubles `terms` (each possibly the result of `extra_roundings` roundings),
    in any order / grouping: |total - exact sum| <= 8 (n + extra) 2^-53 sum |terms|"""
    if not finite(total) or not all(finite(t) for t in terms):
        return False
    ex = sum((fr(t) for t in terms), Fraction(0))
    mag = sum((abs(fr(t)) for t in terms), Fraction(0))
    n = len(terms) + extra_roundings
    return abs(fr(total) - ex) <= 8 * n * TWO ** -53 * mag + TWO ** -1000


def root_kind(t):
    h = t['h']
    return h[1] if h[0] in ('Bin', 'Un') else h[0]


def shape_ok(a, dims):
    if not dims:
        return not isinstance(a, list)
    return isinstance(a, list) and len(a) == dims[0] and all(shape_ok(x, dims[1:]) for x in a)


# ----------------------------------------------------------------------------------------- Coq side
def coq_case_text(idx, c, names, obs, rows_idx):
    """definitions + judge items for one case.  obs = {'f': [n], 'g': [n][k], 'h': [n][k][k]}.
    returns (definitions text, [items], [meta])"""
    tree = strip_sids(c['tree'])
    benv = {k: v['value'] for k, v in c['betas'].items()}
    k = len(names)
    defs = [f'Definition t{idx} := {json_to_coq(tree)}.']
    for i, n in enumerate(names):
        defs.append(f'Definition g{idx}_{i} := Eval vm_compute in D (WBeta {coq_string(n)}) t{idx}.')
    for i in range(k):
        for j in range(i, k):
            defs.append(f'Definition h{idx}_{i}_{j} := Eval vm_compute in D (WBeta {coq_string(names[j])}) g{idx}_{i}.')
    items, meta = [], []
    for r in rows_idx:
        row = c['rows'][r]
        defs.append(f'Definition e{idx}_{r} := {coq_env({"beta": benv, "var": row})}.')

        def it(term, y, rel):
            yy = y if finite(y) else 0.0
            return f'(judge (evalI PhiI_none {term} e{idx}_{r}) {coq_dy(yy)} ({rel}))'
        items.append(it(f't{idx}', obs['f'][r], REL_F))
        meta.append(('f', r, None, obs['f'][r]))
        for i in range(k):
            items.append(it(f'g{idx}_{i}', obs['g'][r][i], REL_G))
            meta.append(('g', r, (i,), obs['g'][r][i]))
        for i in range(k):
            for j in range(i, k):
                items.append(it(f'h{idx}_{i}_{j}', obs['h'][r][i][j], REL_H))
                meta.append(('h', r, (i, j), obs['h'][r][i][j]))
    return '\n'.join(defs) + '\n', items, meta


def coq_judge(ctx, prefix, blocks, per_file=260):
    """blocks: list of (defs, items).  Returns the flat list of verdict tokens (None where the evaluation failed)."""
    import re
    files, spans = {}, []
    cur_defs, cur_items, cur_blocks = [], [], []
    fi = 0

    def flush():
        nonlocal cur_defs, cur_items, cur_blocks, fi
        if not cur_blocks:
            return
        files[f'{prefix}_{fi}'] = (HEADER + ''.join(cur_defs) + 'Eval vm_compute in [\n' + ';\n'.join(cur_items) + '].\n')
        spans.append((f'{prefix}_{fi}', list(cur_blocks)))
        fi += 1
        cur_defs, cur_items, cur_blocks = [], [], []
    for bi, (defs, items) in enumerate(blocks):
        if cur_items and len(cur_items) + len(items) > per_file:
            flush()
        cur_defs.append(defs)
        cur_items += items
        cur_blocks.append((bi, len(items)))
    flush()
    outs = ctx.coq_eval_many(files, timeout=1500)
    res = {}
    for name, bl in spans:
        ok, out = outs[name]
        n = sum(x for _, x in bl)
        toks = re.findall(r'\b(Agree|Differ|Undecided|ModelNaN|ModelMInf|Huge)\b', out) if ok else []
        if len(toks) != n:
            raise RuntimeError(f'C02: model evaluation failed for {name}: {out[-1500:]}')
        p = 0
        for bi, ln in bl:
            res[bi] = toks[p:p + ln]
            p += ln
    return [res[i] for i in range(len(blocks))]


def enclosures(ctx, reqs):
    """enclosures of the entries reqs = [(case, names, kind, row, entry)], for the report (one coqc)"""
    import re
    from values import parse_encl
    if not reqs:
        return []
    lines = []
    for (c, names, kind, r, ent) in reqs:
        tree = strip_sids(c['tree'])
        benv = {k: v['value'] for k, v in c['betas'].items()}
        term = json_to_coq(tree)
        if kind == 'g':
            term = f'(D (WBeta {coq_string(names[ent[0]])}) {term})'
        elif kind == 'h':
            term = f'(D (WBeta {coq_string(names[ent[1]])}) (D (WBeta {coq_string(names[ent[0]])}) {term}))'
        lines.append('Eval vm_compute in (match evalI PhiI_none ' + term + ' ' + coq_env({'beta': benv, 'var': c['rows'][r]}) +
                     ' with VI i => Some (F.toF (I.lower i), F.toF (I.upper i)) | _ => None end).\n')
    ok, out = ctx.coq_eval('c02_encl', HEADER + 'Set Printing Width 100000.\n' + ''.join(lines))
    m = re.findall(r'= (Some\s*\(.*?\)|None)\s*:\s*option', ' '.join(out.split()))
    if len(m) != len(reqs):
        return [None] * len(reqs)
    return [parse_encl(x) if x != 'None' else None for x in m]


# ----------------------------------------------------------------------------------------- the stream
def make_cases(ctx, n):
    rng = ctx.sub_rng('deriv')
    cases = []
    for i in range(n):
        c = c02_gen.gen_case(rng, max_depth=rng.choice([2, 3, 3, 4]), n_rows=3, p_powc2=0.04, p_replin=0.04)
        add_renamed(c)
        c['threads'] = rng.choice([1, 1, 2, 3])
        cases.append(c)
    return cases


def add_renamed(c):
    frn = sorted(c02_gen.free_names(c['tree']))
    mp = c02_gen.reversing_rename(frn)
    c['renamed'] = {'tree': c02_gen.rename_tree(c['tree'], mp), 'betas': {mp.get(k, k): v for k, v in c['betas'].items()},
                    'map': mp}


def corpus_cases():
    import glob
    out = []
    for p in sorted(glob.glob('/verif/corpus/C02/*.json')):
        try:
            c = json.load(open(p))
        except Exception:  # noqa
            continue
        if 'tree' in c:
            add_renamed(c)
            c['corpus'] = p
            out.append(c)
    return out


MODE_KEYS = [g + h + b for g in 'TF' for h in 'TF' for b in 'TF']


def witness(c, names=None, row=None, entry=None, extra=None):
    w = {'tree': c['tree'], 'betas': c['betas'], 'rows': c['rows'], 'names': names}
    if row is not None:
        w['row'] = row
    if entry is not None:
        w['entry'] = list(entry)
    if extra:
        w.update(extra)
    return w


HOW = ('build the tree with lib/impl/bio_build.py and call get_value_and_derivatives(betas, database, gradient, hessian, bhhh, '
       'aggregation, prepare_ids=True): ./check C02 --replay <this file>')


def check_packaging(ctx, st, c, r, names):
    """property oracles on the outputs of one case that need no model: modes, refusals, BHHH, aggregation, symmetry,
    named outputs, renamed parameters, BIOGEME.  Returns the reference per-observation outputs or None."""
    k = len(names)
    n = len(c['rows'])
    modes = r.get('modes', {})
    key0 = root_kind(c['tree'])

    def viol(key, what, expected, observed, **kw):
        st.disagree({'tree': strip_sids(c['tree'])}, expected, observed, what)
        ctx.violation(key, what, witness(c, names, **kw), expected, observed, HOW)

    full = modes.get('TTT_dis')
    agg = modes.get('TTT_agg')
    if not full or 'exc' in full or not agg or 'exc' in agg:
        return None
    if not (shape_ok(full['f'], [n]) and shape_ok(full['g'], [n, k]) and shape_ok(full['h'], [n, k, k]) and shape_ok(full['b'], [n, k, k])
            and shape_ok(agg['f'], []) and shape_ok(agg['g'], [k]) and shape_ok(agg['h'], [k, k]) and shape_ok(agg['b'], [k, k])):
        viol('C02/shape', 'outputs do not have the shape (rows x free parameters)', f'n={n}, k={k}',
             {kk: (vv if not isinstance(vv, list) else f'list of {len(vv)}') for kk, vv in full.items()})
        return None
    if not (all_finite(full['f']) and all_finite(full['g']) and all_finite(full['h'])):
        return full   # the enclosure check will decide (model NaN => nothing claimed)
    # ---- 2x2x2 modes x aggregation
    for mk in MODE_KEYS:
        g, h, b = (x == 'T' for x in mk)
        for ag in ('agg', 'dis'):
            m = modes.get(f'{mk}_{ag}')
            if m is None:
                continue
            ref = agg if ag == 'agg' else full
            if (h or b) and not g:
                if 'exc' not in m or m['exc'] != 'BiogemeError':
                    viol(f'C02/refusal/{mk}', 'Hessian / BHHH requested without the gradient is not refused', 'BiogemeError', m,
                         extra={'mode': f'{mk}_{ag}'})
                continue
            if 'exc' in m:
                viol(f'C02/modes/{mk}_{ag}/exception', 'a consistent request for derivatives fails', 'outputs', m, extra={'mode': f'{mk}_{ag}'})
                continue
            want_type = 'BiogemeFunctionOutput' if ag == 'agg' else 'BiogemeDisaggregateFunctionOutput'
            if m.get('data_type') != want_type:
                viol(f'C02/modes/{mk}_{ag}/type', 'wrong kind of output object', want_type, m.get('data_type'), extra={'mode': f'{mk}_{ag}'})
            for fld, asked in (('g', g), ('h', h), ('b', b)):
                if not asked:
                    if m[fld] is not None:
                        viol(f'C02/modes/{mk}_{ag}/not-None', f'output "{fld}" was not asked but is not None', None, m[fld], extra={'mode': f'{mk}_{ag}'})
                    continue
                if m[fld] is None:
                    viol(f'C02/modes/{mk}_{ag}/None', f'output "{fld}" was asked but is None', 'an array', None, extra={'mode': f'{mk}_{ag}'})
                    continue
                bad = first_diff(m[fld], ref[fld])
                if bad is not None:
                    viol(f'C02/modes/{mk}_{ag}/{fld}', f'output "{fld}" depends on which other outputs are requested', ref[fld], m[fld],
                         extra={'mode': f'{mk}_{ag}', 'at': bad})
            bad = first_diff(m['f'], ref['f'])
            if bad is not None:
                viol(f'C02/modes/{mk}_{ag}/f', 'the value depends on which derivatives are requested', ref['f'], m['f'], extra={'mode': f'{mk}_{ag}'})
    # ---- Hessian symmetric, BHHH = outer product per observation
    for ri in range(n):
        g, h, b = full['g'][ri], full['h'][ri], full['b'][ri]
        for i in range(k):
            for j in range(k):
                if j > i and not close(h[i][j], h[j][i], -45, 2.0 ** -200):
                    viol('C02/hessian-asymmetric/' + key0, 'the Hessian is not symmetric', h[i][j], h[j][i], row=ri, entry=(i, j))
                if not sum_close(b[i][j], [g[i] * g[j]], 1) and not close(fr(b[i][j]), fr(g[i]) * fr(g[j]), -50, 2.0 ** -1000):
                    viol('C02/bhhh/row', 'per-observation BHHH entry is not g_i g_j', float(fr(g[i]) * fr(g[j])), b[i][j], row=ri, entry=(i, j))
    # ---- aggregated = sum over observations
    if not sum_close(agg['f'], full['f']):
        viol('C02/aggregate/f', 'aggregated value is not the sum of the per-observation values', float(sum(map(fr, full['f']))), agg['f'])
    for i in range(k):
        if not sum_close(agg['g'][i], [full['g'][ri][i] for ri in range(n)]):
            viol('C02/aggregate/g', 'aggregated gradient is not the sum of the per-observation gradients',
                 float(sum(fr(full['g'][ri][i]) for ri in range(n))), agg['g'][i], entry=(i,))
        for j in range(k):
            if not sum_close(agg['h'][i][j], [full['h'][ri][i][j] for ri in range(n)]):
                viol('C02/aggregate/h', 'aggregated Hessian is not the sum of the per-observation Hessians',
                     float(sum(fr(full['h'][ri][i][j]) for ri in range(n))), agg['h'][i][j], entry=(i, j))
            terms = [fr(full['g'][ri][i]) * fr(full['g'][ri][j]) for ri in range(n)]
            ex = sum(terms, Fraction(0))
            mag = sum((abs(t) for t in terms), Fraction(0))
            if not (finite(agg['b'][i][j]) and abs(fr(agg['b'][i][j]) - ex) <= 8 * (2 * n) * TWO ** -53 * mag + TWO ** -1000):
                viol('C02/bhhh/aggregate', 'BHHH is not the sum over observations of the outer products of the gradients',
                     float(ex), agg['b'][i][j], entry=(i, j))
            if j > i and not close(agg['h'][i][j], agg['h'][j][i], -45, 2.0 ** -200):
                viol('C02/hessian-asymmetric/aggregate', 'the aggregated Hessian is not symmetric', agg['h'][i][j], agg['h'][j][i], entry=(i, j))
    # ---- named outputs: entry i belongs to the i-th sorted name
    na, nd = r.get('named_agg'), r.get('named_dis')
    if na is None or 'exc' in na or nd is None or 'exc' in nd:
        viol('C02/named/exception', 'named_results=True fails', 'named outputs', {'agg': na, 'dis': nd})
    else:
        if na['mapping'] != {nm: i for i, nm in enumerate(names)} or nd['mapping'] != na['mapping']:
            viol('C02/named/mapping', 'the reported mapping is not name -> rank in the sorted list of free parameters',
                 {nm: i for i, nm in enumerate(names)}, na['mapping'])
        exp_g = {nm: agg['g'][i] for i, nm in enumerate(names)}
        exp_h = {a: {b2: agg['h'][i][j] for j, b2 in enumerate(names)} for i, a in enumerate(names)}
        exp_b = {a: {b2: agg['b'][i][j] for j, b2 in enumerate(names)} for i, a in enumerate(names)}
        for fld, exp_ in (('g', exp_g), ('h', exp_h), ('b', exp_b)):
            bad = first_diff_named(na[fld], exp_)
            if bad is not None:
                viol(f'C02/named/agg/{fld}', f'named output "{fld}": an entry is attached to the wrong name', exp_, na[fld], extra={'at': bad})
        for ri in range(n):
            eg = {nm: full['g'][ri][i] for i, nm in enumerate(names)}
            eh = {a: {b2: full['h'][ri][i][j] for j, b2 in enumerate(names)} for i, a in enumerate(names)}
            eb = {a: {b2: full['b'][ri][i][j] for j, b2 in enumerate(names)} for i, a in enumerate(names)}
            for fld, exp_ in (('g', eg), ('h', eh), ('b', eb)):
                bad = first_diff_named(nd[fld][ri], exp_)
                if bad is not None:
                    viol(f'C02/named/dis/{fld}', f'named per-observation output "{fld}": an entry is attached to the wrong name', exp_, nd[fld][ri],
                         row=ri, extra={'at': bad})
    # ---- renamed parameters: entries follow the names
    rn = r.get('renamed')
    if rn is not None:
        mp = c['renamed']['map']
        if 'exc' in rn:
            viol('C02/rename/exception', 'the formula with renamed parameters fails', 'outputs', rn)
        else:
            new_sorted = sorted(mp.values())
            inv = {v: kk for kk, v in mp.items()}
            pos = {nm: i for i, nm in enumerate(names)}
            d = rn['dis']
            okshape = shape_ok(d['g'], [n, k]) and shape_ok(d['h'], [n, k, k])
            if not okshape:
                viol('C02/rename/shape', 'renamed formula: wrong shapes', f'n={n}, k={k}', None)
            else:
                for ri in range(n):
                    for i2, nm2 in enumerate(new_sorted):
                        i = pos[inv[nm2]]
                        if not close(d['g'][ri][i2], full['g'][ri][i], -40, scale_of(full['g'][ri])):
                            viol('C02/rename/g', 'after renaming the parameters the gradient entries do not follow the names',
                                 full['g'][ri][i], d['g'][ri][i2], row=ri, entry=(i,), extra={'renaming': mp})
                        for j2, nmj in enumerate(new_sorted):
                            j = pos[inv[nmj]]
                            if not close(d['h'][ri][i2][j2], full['h'][ri][i][j], -40, scale_of(full['h'][ri])):
                                viol('C02/rename/h', 'after renaming the parameters the Hessian entries do not follow the names',
                                     full['h'][ri][i][j], d['h'][ri][i2][j2], row=ri, entry=(i, j), extra={'renaming': mp})
                an = rn['agg_named']
                for nm in names:
                    if not close(an['g'].get(mp[nm], float('nan')), agg['g'][pos[nm]], -40, scale_of(agg['g'])):
                        viol('C02/rename/named', 'after renaming, the named gradient entry of a parameter changed', agg['g'][pos[nm]],
                             an['g'].get(mp[nm]), entry=(pos[nm],), extra={'renaming': mp})
    # ---- BIOGEME.calculate_likelihood_and_derivatives
    bg = r.get('biogeme')
    if bg is not None:
        if 'exc' in bg:
            viol('C02/biogeme/exception', 'BIOGEME.calculate_likelihood_and_derivatives fails', 'outputs', bg)
        else:
            if bg['names'] != names:
                viol('C02/biogeme/names', 'BIOGEME reports another list of free parameters', names, bg['names'])
            N = bg['N']
            for sc in ('unscaled', 'scaled'):
                for suffix in ('_hb', '_g'):
                    o = bg.get(sc + suffix)
                    if o is None:
                        continue
                    if 'exc' in o:
                        viol(f'C02/biogeme/{sc}/exception', 'calculate_likelihood_and_derivatives fails', 'outputs', o)
                        continue
                    div = N if sc == 'scaled' else 1
                    flds = ('f', 'g', 'h', 'b') if suffix == '_hb' else ('f', 'g')
                    for fld in flds:
                        bad = first_diff(o[fld], agg[fld], div=div, bits=-36)
                        if bad is not None:
                            viol(f'C02/biogeme/{sc}/{fld}', f'calculate_likelihood_and_derivatives(scaled={sc == "scaled"}): output "{fld}" is not the '
                                 f'aggregated one{" divided by the sample size" if div != 1 else ""}', agg[fld], o[fld], extra={'at': bad, 'N': N})
    # ---- Expression.create_function at a second point: position i of the array is the i-th sorted name
    cf = r.get('create_function')
    if cf is not None:
        if 'exc' in cf:
            # the second point may leave the domain (engine error): only a failure INSIDE the domain would be a violation; not claimed here
            st.extra['create_function_errors'] = st.extra.get('create_function_errors', 0) + 1
        elif all_finite(cf['ref']) and all_finite(cf['fn']):
            sc = max(1.0, scale_of([list(cf['ref']['g'].values())] + [list(rw.values()) for rw in cf['ref']['h'].values()]))
            bad = None
            if not close(cf['fn']['f'], cf['ref']['f'], -40, sc):
                bad = 'f'
            for fld in ('g', 'h', 'b'):
                if bad is None and first_diff_named_tol(cf['fn'][fld], cf['ref'][fld], sc) is not None:
                    bad = fld
            if bad is not None:
                viol('C02/create_function/' + bad, 'the function built by create_function does not read its argument in the sorted order of the free '
                     'parameter names (or attaches its outputs to other names)', cf['ref'][bad], cf['fn'][bad], extra={'x2': cf['x2']})
    return full


def first_diff_named_tol(a, exp_, sc, path=()):
    if isinstance(exp_, dict):
        if not isinstance(a, dict) or list(a.keys()) != list(exp_.keys()):
            return list(path) + ['keys']
        for kk in exp_:
            d = first_diff_named_tol(a[kk], exp_[kk], sc, path + (kk,))
            if d is not None:
                return d
        return None
    return None if close(a, exp_, -40, sc) else list(path)


def scale_of(a):
    m = 1.0
    stack = [a]
    while stack:
        x = stack.pop()
        if isinstance(x, list):
            stack += x
        elif finite(x):
            m = max(m, abs(x))
    return m


def first_diff(a, b, div=1, bits=-40, sc=None, path=()):
    """first index where a differs from b / div (relative to the largest magnitude in b / div)"""
    if sc is None:
        sc = scale_of(b) / div
    if isinstance(b, list):
        if not isinstance(a, list) or len(a) != len(b):
            return list(path) + ['shape']
        for i, (x, y) in enumerate(zip(a, b)):
            d = first_diff(x, y, div, bits, sc, path + (i,))
            if d is not None:
                return d
        return None
    if not (finite(a) and finite(b)):
        return None if (a == b or (isinstance(a, float) and isinstance(b, float) and math.isnan(a) and math.isnan(b))) else list(path)
    if abs(fr(a) - fr(b) / div) <= TWO ** bits * max(fr(sc), 1):
        return None
    return list(path)


def first_diff_named(a, exp_, path=()):
    if isinstance(exp_, dict):
        if not isinstance(a, dict) or list(a.keys()) != list(exp_.keys()):
            return list(path) + ['keys', list(a.keys()) if isinstance(a, dict) else None]
        for kk in exp_:
            d = first_diff_named(a[kk], exp_[kk], path + (kk,))
            if d is not None:
                return d
        return None
    if finite(a) and finite(exp_) and fr(a) == fr(exp_):
        return None
    # two separate runs of a deterministic computation: allow 2^-40 (threads)
    return None if close(a, exp_, -40, 1.0) else list(path)


def stream_deriv(ctx, only=None):
    st = ctx.stream('deriv_engine',
                    'differentiable typed random DAGs (depth <= 4, sharing, 1-5 free parameters with scrambled names, fixed parameters, 3 dyadic rows, '
                    'interior points): EVERY per-observation value / gradient / Hessian entry of get_value_and_derivatives vs the proved enclosure of '
                    'evalX t / evalX (D b t) / evalX (D b\' (D b t)) (membership decided in Coq); exact-rational oracles for symmetry, BHHH, aggregation, '
                    'the 2x2x2 modes, refusals, named outputs, order-reversing renaming, BIOGEME scaled/unscaled; '
                    'non-trivial = decided entry of a tree with >= 4 nodes; distinct by (tree, row, entry)')
    cases = only if only is not None else (corpus_cases() + make_cases(ctx, ctx.n(150, 3000)))
    import time
    t0 = time.time()
    res = ctx.impl_cases('c02_deriv.py', cases, chunk=ctx.n(10, 40), timeout=1500)
    t_impl = time.time() - t0
    cov, blocks, binfo = {}, [], []
    nparams = {}
    for ci, (c, r) in enumerate(zip(cases, res)):
        heads_in(c['tree'], cov)
        plain = strip_sids(c['tree'])
        names = sorted(c02_gen.free_names(c['tree']))
        nparams[len(names)] = nparams.get(len(names), 0) + 1
        if r is None or 'crash' in r:
            ctx.violation(f'C02/engine-crash/{root_kind(c["tree"])}', 'the process died while differentiating a well-formed formula',
                          witness(c, names), 'outputs', (r or {}).get('crash'), HOW)
            continue
        if 'build_exc' in r or 'harness_exc' in r:
            ctx.violation('C02/build/exception', 'a well-formed differentiable formula could not be built / evaluated', witness(c, names), 'outputs',
                          r.get('build_exc') or r.get('harness_exc'), HOW)
            continue
        if strip_sids(r.get('tree_back') or {'h': ['none'], 'k': []}) != plain:
            st.disagree({'tree': plain}, 'bridge round trip differs', r.get('tree_back'))
            continue
        full = r.get('modes', {}).get('TTT_dis') or r.get('modes', {}).get('TTT_agg')
        if full is None or 'exc' in full:
            # the engine refused: the model must say that some row is outside the domain (checked below through the value)
            exc_ = full or {'exc': 'no result'}
            obs = {'f': ['error'] * len(c['rows']), 'g': [[0.0] * len(names)] * len(c['rows']), 'h': [[[0.0] * len(names)] * len(names)] * len(c['rows'])}
            defs, items, meta = coq_case_text(ci, c, [], obs, range(len(c['rows'])))
            blocks.append((defs, items))
            binfo.append((ci, c, names, meta, 'refused', exc_))
            continue
        try:
            full = check_packaging(ctx, st, c, r, names)
        except (TypeError, KeyError, IndexError, AttributeError, ValueError) as ex:
            # outputs of an unexpected shape (None where an array was asked, missing names, ...): a failure of the packaging, with its witness
            st.disagree({'tree': plain}, 'outputs of the documented shape', f'{type(ex).__name__}: {ex}')
            ctx.violation('C02/shape/unexpected', 'the outputs do not have the documented structure (arrays per requested quantity, one entry per free '
                          'parameter name)', witness(c, names), 'arrays / dicts indexed by the sorted free parameter names',
                          {'error': f'{type(ex).__name__}: {ex}', 'outputs': {k: v for k, v in r.items() if k not in ('tree_back',)}}, HOW)
            continue
        if full is None:
            continue
        defs, items, meta = coq_case_text(ci, c, names, full, range(len(c['rows'])))
        blocks.append((defs, items))
        binfo.append((ci, c, names, meta, 'values', r))
    t0 = time.time()
    verdicts = coq_judge(ctx, 'c02', blocks)
    t_coq = time.time() - t0
    und = 0
    decided = {'f': 0, 'g': 0, 'h': 0}
    suspects = {}
    for (ci, c, names, meta, kind, r), toks in zip(binfo, verdicts):
        plain = strip_sids(c['tree'])
        if kind == 'refused':
            st.record({'tree': plain, 'refused': r}, nontrivial=True)
            if all(t in ('Agree', 'Differ', 'Huge') for t in toks):
                # the model finds a real value on every row: the formula is inside the domain, the refusal is a failure
                st.disagree({'tree': plain}, 'inside the domain on every row', r)
                ctx.violation(f'C02/engine-error/{root_kind(c["tree"])}', 'derivatives of a formula inside the smooth domain are refused',
                              witness(c, names), 'outputs', r, HOW)
            continue
        for (what, ri, ent, y), t in zip(meta, toks):
            case = {'tree': plain, 'betas': {k: b['value'] for k, b in c['betas'].items()}, 'row': ri, 'what': what, 'entry': ent}
            if t in ('Undecided', 'Huge', 'ModelNaN', 'ModelMInf'):
                und += 1
                st.evaluations += 1
                continue
            st.record(case, nontrivial=tree_size(c['tree']) >= 4)
            decided[what] += 1
            if t == 'Differ' or not finite(y):
                suspects.setdefault(ci, (c, names, r, []))[3].append((what, ri, ent, y))
    # ---- failing-input search on the suspects: enclosure for the report, x**2 attribution, finite differences
    t0 = time.time()
    if suspects:
        investigate(ctx, st, suspects)
    st.extra['wall_investigate_s'] = round(time.time() - t0, 1)
    st.extra['refused_cases'] = sum(1 for b in binfo if b[4] == 'refused')
    st.extra.update({'wall_impl_s': round(t_impl, 1), 'wall_coq_s': round(t_coq, 1), 'undecided': und, 'decided_entries': decided, 'operator_coverage': cov, 'free_parameters_histogram': nparams,
                     'max_depth': max([tree_depth(c['tree']) for c in cases] or [0]),
                     'trees_with_sharing': sum(1 for c in cases if count_shared(c['tree']) > 0)})
    if st.disagreements:
        ctx.stream_broken('deriv_engine', f'{len(st.disagreements)} disagreements; first: {json.dumps(st.disagreements[0], default=str)[:800]}')


KNOWN_REWRITES = [
    # (name, applies to the tree?, rewrite, key)
    ('lin', c02_gen.has_replin, lambda t: c02_gen.rewrite_powc2(t, powc2=False, linutil=True),
     'C02/derivative/bioLinearUtility-repeated-parameter'),
    ('pow', c02_gen.has_powc2, lambda t: c02_gen.rewrite_powc2(t, powc2=True, linutil=False),
     'C02/hessian/PowerConstant-2'),
    ('both', lambda t: c02_gen.has_powc2(t) and c02_gen.has_replin(t), lambda t: c02_gen.rewrite_powc2(t, powc2=True, linutil=True),
     'C02/derivative/bioLinearUtility-repeated-parameter+PowerConstant-2'),
]


def conditioning_pass(ctx, st, suspects):
    """re-judge the failing entries with the magnitude-aware tolerance; returns the suspects that still fail"""
    import re
    reqs = []
    for ci, (c, names, r, bad) in suspects.items():
        for (what, ri, ent, y) in bad:
            if finite(y):
                reqs.append((ci, what, ri, ent, y))
    if not reqs:
        return suspects
    lines = []
    for (ci, what, ri, ent, y) in reqs:
        c, names = suspects[ci][0], suspects[ci][1]
        tree = strip_sids(c['tree'])
        benv = {k: v['value'] for k, v in c['betas'].items()}
        term = json_to_coq(tree)
        if what == 'g':
            term = f'(D (WBeta {coq_string(names[ent[0]])}) {term})'
        elif what == 'h':
            term = f'(D (WBeta {coq_string(names[ent[1]])}) (D (WBeta {coq_string(names[ent[0]])}) {term}))'
        lines.append(f'(cond_judge {term} {coq_env({"beta": benv, "var": c["rows"][ri]})} {coq_dy(y)})')
    files = {}
    B = 40
    for j in range(0, len(lines), B):
        files[f'c02cond_{j // B}'] = COND_HEADER + 'Eval vm_compute in [\n' + ';\n'.join(lines[j:j + B]) + '].\n'
    outs = ctx.coq_eval_many(files, timeout=1500)
    toks = []
    for j in range(0, len(lines), B):
        ok, out = outs[f'c02cond_{j // B}']
        t = re.findall(r'\b(COk|CBad|CUnk)\b', out) if ok else []
        if len(t) != len(lines[j:j + B]):
            raise RuntimeError('C02: conditioning pass failed: ' + out[-1200:])
        toks += t
    keep = {}
    for (ci, what, ri, ent, y), t in zip(reqs, toks):
        if t == 'COk':
            st.extra['ill_conditioned_entries'] = st.extra.get('ill_conditioned_entries', 0) + 1
        elif t == 'CUnk':
            st.extra['conditioning_unknown_entries'] = st.extra.get('conditioning_unknown_entries', 0) + 1
        else:
            keep.setdefault(ci, (suspects[ci][0], suspects[ci][1], suspects[ci][2], []))[3].append((what, ri, ent, y))
    for ci, (c, names, r, bad) in suspects.items():
        nf = [x for x in bad if not finite(x[3])]
        if nf:
            keep.setdefault(ci, (c, names, r, []))[3].extend(nf)
    return keep


def investigate(ctx, st, suspects):
    """failing-input search on the cases with an entry outside its enclosure.  Every such entry is a violation; its class is
    refined: when the engine becomes right on EVERY entry once x**2 is rewritten x*x (resp. a bioLinearUtility with a repeated
    parameter is rewritten as a sum of products -- same mathematical function, same model tree), the violation is attributed
    to that operator (known findings).  Finite differences (third opinion) are attached to the report."""
    suspects = conditioning_pass(ctx, st, suspects)
    items = list(suspects.items())
    extra_cases, index = [], []
    for ci, (c, names, r, bad) in items:
        c3 = {k: v for k, v in c.items() if k != 'renamed'}
        c3['third_opinion'] = True
        extra_cases.append(c3)
        index.append((ci, 'fd'))
        only_h = all(w == 'h' for (w, _, _, _) in bad)
        for nm, applies, rewrite, _ in KNOWN_REWRITES:
            if applies(c['tree']) and (nm != 'pow' or only_h):
                c4 = {k: v for k, v in c.items() if k != 'renamed'}
                c4['tree'] = rewrite(c['tree'])
                extra_cases.append(c4)
                index.append((ci, nm))
    eres = ctx.impl_cases('c02_deriv.py', extra_cases, chunk=4, timeout=1500)
    fd, rw = {}, {}
    for (ci, kind), rr in zip(index, eres):
        if kind == 'fd':
            fd[ci] = rr
        else:
            rw[(ci, kind)] = rr
    # model verdicts on the engine outputs of the rewritten formulas (the model tree is unchanged: same semantics)
    cmap = dict(items)
    blocks, binfo = [], []
    for (ci, kind), rr in rw.items():
        c, names = cmap[ci][0], cmap[ci][1]
        full = (rr or {}).get('modes', {}).get('TTT_dis') if rr else None
        n, k = len(c['rows']), len(names)
        if full and 'exc' not in full and shape_ok(full['f'], [n]) and shape_ok(full['g'], [n, k]) and shape_ok(full['h'], [n, k, k]):
            defs, its, meta = coq_case_text(ci, c, names, full, range(n))
            blocks.append((defs, its))
            binfo.append((ci, kind))
    rw_ok = {}
    if blocks:
        for key_, toks in zip(binfo, coq_judge(ctx, 'c02rw', blocks)):
            rw_ok[key_] = all(t != 'Differ' for t in toks)
    reqs = [(c, names, what, ri, ent) for ci, (c, names, r, bad) in items for (what, ri, ent, y) in bad[:6]]
    encs = iter(enclosures(ctx, reqs))
    for ci, (c, names, r, bad) in items:
        attributed = None
        for nm, _, _, key_ in KNOWN_REWRITES:
            if rw_ok.get((ci, nm)):
                attributed = key_
                break
        for (what, ri, ent, y) in bad[:6]:
            enc = next(encs)
            third = None
            f3 = fd.get(ci) or {}
            if 'findiff' in f3 and 'exc' not in f3['findiff']:
                try:
                    if what == 'g':
                        third = f3['findiff']['g'][ri][ent[0]]
                    elif what == 'h':
                        third = f3['findiff']['h'][ri][ent[0]][ent[1]]
                except Exception:  # noqa
                    third = None
            label = {'f': 'value', 'g': 'gradient', 'h': 'hessian'}[what]
            key = attributed or f'C02/{label}/{root_kind(c["tree"])}'
            case = {'tree': strip_sids(c['tree']), 'row': ri, 'what': what, 'entry': ent}
            fresh = ctx.violation(key, f'{label} entry {list(ent) if ent else ""} of observation {ri} returned by the engine lies outside the proved '
                                  f'enclosure of the {"value" if what == "f" else "derivative"}',
                                  witness(c, names, row=ri, entry=ent or ()),
                                  {'model_enclosure': enc, 'finite_differences_third_opinion': third,
                                   'check_derivatives': (f3.get('findiff') or {}).get('check_derivatives')}, y, HOW)
            if fresh:    # (an entry attributed to a known finding does not break the stream)
                st.disagree(case, {'model_enclosure': enc, 'finite_differences': third}, y)
            else:
                st.extra['known_finding_entries'] = st.extra.get('known_finding_entries', 0) + 1


# ----------------------------------------------------------------------------------------- driver
def gen_all(ctx):
    c02_pack.gen_pack(ctx)


def run(ctx):
    ctx.assumptions += ASSUME
    ctx.trusted += TRUSTED
    try:
        gen_all(ctx)
    except Untranslatable as e:
        ctx.tie_broken('py2v:Pack', str(e))
    b = ctx.build()
    stream_deriv(ctx)
    c02_pack.stream_pack(ctx)
    if ctx.broken and not ctx.violations:
        # something no longer checks: look for a failing input with more cases of the property oracles
        stream_deriv(ctx, only=make_cases_search(ctx))


def make_cases_search(ctx):
    rng = ctx.sub_rng('search')
    cases = []
    for i in range(ctx.n(60, 600)):
        c = c02_gen.gen_case(rng, max_depth=rng.choice([2, 3]), n_rows=3, p_powc2=0.0, p_replin=0.0)
        add_renamed(c)
        cases.append(c)
    return cases


def replay(ctx, path):
    w = json.load(open(path))
    wit = w.get('witness') or {}
    if 'tree' not in wit:
        print('replay: this file names an obligation/stream; re-run ./check C02')
        return 2
    c = {'tree': wit['tree'], 'betas': wit['betas'], 'rows': wit['rows']}
    add_renamed(c)
    ctx.build()
    stream_deriv(ctx, only=[c])
    c02_pack.stream_pack(ctx)
    still = bool(ctx.violations or ctx.known_hits or ctx.broken)
    print(json.dumps({'still_fails': still, 'violations': [v['key'] for v in ctx.violations], 'known': [k['key'] for k in ctx.known_hits],
                      'recorded_key': w.get('key')}))
    import shutil
    shutil.rmtree(ctx.scratch, ignore_errors=True)
    return 1 if still else 0
