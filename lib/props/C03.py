"""C03 -- parameters are identified by name everywhere, never by position of appearance."""
import json

from bridge import tree_size
from gen_expr import Gen, strip_sids
from values import check_values

ASSUME = [
    '"every estimate up to the optimiser\'s tolerance" depends on the external optimiser: sampled in the thorough tier only (partial)',
    'engine semantics modelled (evalX), tied by differential runs',
]


def rename_tree(t, rho):
    h = list(t['h'])
    if h[0] == 'Beta':
        h[1] = rho[h[1]]
    n = {'h': h, 'k': [rename_tree(k, rho) for k in t['k']]}
    if 'sid' in t:
        n['sid'] = t['sid']
    return n


def gen_rename_case(rng):
    g = Gen(rng, variables=True, max_depth=rng.choice([3, 4]), share_p=0.1, heads={'exclude': ['NormalCdf']})
    tree = g.real(g.max_depth)
    tries = 0
    while len([b for b in g.betas.values() if not b['fixed']]) < 2 and tries < 6:
        tree = g.node(['Bin', 'Plus'], [tree, g.node(['Bin', 'Times'], [g.beta() or g.num(), g.var()])], 'real')
        tries += 1
    betas = g.betas
    for i, (nm, b) in enumerate(sorted(betas.items())):
        if not b['fixed'] and rng.random() < 0.7:
            b['lb'] = -float(rng.randint(10, 19)) - i / 4.0
            b['ub'] = float(rng.randint(10, 19)) + i / 8.0
    names = sorted(betas)
    # renamings: identity, a random bijection onto fresh names, the order-reversing bijection
    fresh = [f'p{rng.randint(0, 9)}_{i}' for i in range(len(names))]
    rng.shuffle(fresh)
    rho_rand = dict(zip(names, fresh))
    rev = sorted(names, reverse=True)
    rho_rev = {n: 'r_' + chr(ord('a') + rev.index(n)) + n for n in names}   # sorted order reversed
    free = [n for n in names if not betas[n]['fixed']]
    over = {n: float(rng.randint(-8, 8)) / 4.0 for n in free if rng.random() < 0.5}
    variants = []
    for rho in ({n: n for n in names}, rho_rand, rho_rev):
        variants.append({'rho': rho, 'tree': rename_tree(tree, rho),
                         'betas': {rho[n]: b for n, b in betas.items()},
                         'override': {rho[n]: v for n, v in over.items()}})
    # a history of partial dictionaries for ONE prepared expression (persistent IdManager)
    hist = []
    for _ in range(rng.randint(2, 4)):
        hist.append({n: float(rng.randint(-8, 8)) / 4.0 for n in free if rng.random() < 0.5})
    if rng.random() < 0.5:
        hist.append({})
    return {'tree': tree, 'betas': betas, 'rows': g.rows(3), 'variants': variants, 'override': over, 'history': hist}


def stream_rename(ctx):
    st = ctx.stream('rename', 'one formula under identity / random bijection / order-reversing bijection of its parameter names, with '
                    'bounds and a partial name->value dictionary: per-row values, BIOGEME likelihood by position, bounds by name, '
                    'dict->list, change_init_values; non-trivial = at least 2 free parameters; distinct by case')
    rng = ctx.sub_rng('rename')
    cases = [gen_rename_case(rng) for _ in range(ctx.n(60, 1200))]
    res = ctx.impl_cases('c03_rename.py', cases, chunk=10)
    vcases, meta = [], []
    for c, r in zip(cases, res):
        light = {'tree': strip_sids(c['tree']), 'betas': {k: [v['value'], v['fixed'], v['lb'], v['ub']] for k, v in c['betas'].items()},
                 'override': c['override'], 'rows': c['rows']}
        if 'crash' in r:
            ctx.violation('C03/rename/crash', 'the process died', light, None, r['crash'])
            continue
        nfree = len([b for b in c['betas'].values() if not b['fixed']])
        st.record(light, nontrivial=nfree >= 2)
        plain = strip_sids(c['tree'])
        base = None
        for var, vr in zip(c['variants'], r['variants']):
            rho = var['rho']
            inv = {v: k for k, v in rho.items()}
            if 'build_exc' in vr:
                ctx.violation('C03/rename/build', 'renamed formula cannot be built', light, None, vr['build_exc'])
                continue
            # model environment: init values overridden by the dictionary for FREE parameters it names
            env_beta = {n: b['value'] for n, b in c['betas'].items()}
            for n, v in c['override'].items():
                env_beta[n] = v
            for key in ('by_dict', 'simulate'):
                if key in vr:
                    for row, v in zip(c['rows'], vr[key]):
                        vcases.append({'expr': plain, 'env': {'beta': env_beta, 'var': row}, 'observed': v})
                        meta.append((c, light, f'{key} under renaming {rho}'))
            if 'names' not in vr:
                continue
            # ---- direct statements of the property on the implementation's output
            exp_names = sorted(rho[n] for n, b in c['betas'].items() if not b['fixed'] and uses(c['tree'], n))
            if vr['names'] != exp_names:
                ctx.violation('C03/rename/names', 'reported free-parameter list is not the sorted list of (renamed) names',
                              light, exp_names, vr['names'])
                continue
            for n in vr['names']:
                b = c['betas'][inv[n]]
                if vr['bounds_by_name'][n] != [b['lb'], b['ub']]:
                    ctx.violation('C03/rename/bounds-by-name', 'bounds reported for a name are not the bounds declared for that parameter',
                                  {**light, 'rho': rho, 'name': n}, [b['lb'], b['ub']], vr['bounds_by_name'][n])
            exp_list = [[c['betas'][inv[n]]['lb'], c['betas'][inv[n]]['ub']] for n in vr['names']]
            if vr['bounds_list'] != exp_list:
                ctx.violation('C03/rename/bounds-list', 'entry i of the bounds list does not belong to the i-th reported name',
                              {**light, 'rho': rho}, exp_list, vr['bounds_list'])
            if 'x' in vr:
                exp_x = [env_beta[inv[n]] for n in vr['names']]
                if vr['x'] != exp_x:
                    ctx.violation('C03/rename/dict-to-list', 'beta_values_dict_to_list does not follow the reported name order',
                                  {**light, 'rho': rho}, exp_x, vr['x'])
            if 'iter_file' in vr and 'x' in vr:
                exp_file = {n: v for n, v in zip(vr['names'], vr['x'])}
                if vr['iter_file'] != exp_file:
                    ctx.violation('C03/rename/iteration-file-names', 'the saved-iteration file stores a value under another parameter\'s name',
                                  {**light, 'rho': rho}, exp_file, vr['iter_file'])
            if 'after_change' in vr:
                exp_after = {n: env_beta[inv[n]] for n in vr['names']}
                if vr['after_change'] != exp_after:
                    ctx.violation('C03/rename/dict-overrides-only-named', 'change_init_values touched a parameter the dictionary does not name '
                                  '(or missed one it names)', {**light, 'rho': rho}, exp_after, vr['after_change'])
                exp_fixed = {n: c['betas'][inv[n]]['value'] for n in vr['fixed_names']}
                if vr['fixed_after_change'] != exp_fixed:
                    ctx.violation('C03/rename/fixed-untouched', 'a fixed parameter does not keep the value it was given',
                                  {**light, 'rho': rho}, exp_fixed, vr['fixed_after_change'])
            if 'loglike' in vr and isinstance(vr['loglike'], float):
                if base is None:
                    base = vr['loglike']
                elif abs(vr['loglike'] - base) > 1e-9 * (1 + abs(base)):
                    ctx.violation('C03/rename/loglike-changes', 'the log likelihood changes under a bijective renaming of the parameters',
                                  {**light, 'rho': rho}, base, vr['loglike'])
        # history: every call is judged against init values overridden by THAT call's dictionary only
        if isinstance(r.get('history'), list):
            for step, (d, vals) in enumerate(zip(c['history'], r['history'])):
                if not isinstance(vals, list):
                    continue
                envb = {n: b['value'] for n, b in c['betas'].items()}
                for n, v in d.items():
                    if not c['betas'][n]['fixed']:
                        envb[n] = v
                for row, v in zip(c['rows'], vals):
                    vcases.append({'expr': plain, 'env': {'beta': envb, 'var': row}, 'observed': v})
                    meta.append((c, {**light, 'history': c['history'], 'step': step},
                                 f'call {step} of a history of partial dictionaries on one prepared expression'))
    verdicts = check_values(ctx, 'c03', vcases, relbits=-30)
    und = 0
    for (c, light, what), (v, info) in zip(meta, verdicts):
        if v == 'undecided':
            und += 1
        elif v == 'differ':
            if ctx.violation('C03/rename/value', f'value {what} is outside the enclosure of the mathematical value of the ORIGINAL formula '
                             'with the values attached by name', light, info, None):
                st.disagree(light, info, what)
    st.extra['value_checks'] = len(vcases)
    st.extra['undecided'] = und
    if st.disagreements:
        ctx.stream_broken('rename', f'{len(st.disagreements)} disagreements; first: {json.dumps(st.disagreements[0], default=str)[:600]}')


def stream_results_names(ctx):
    st = ctx.stream('results_names', 'synthetic estimation outcomes whose every number is tagged by its parameter (estimate 10+j, bootstrap '
                    'column 100j+row, bounds +-(j+1), Hessian diag -(1+j)): every name-based accessor of bioResults called with full, partial and '
                    're-ordered lists of names; non-trivial = a request that is not the full sorted list; distinct by (names, request)')
    rng = ctx.sub_rng('results')
    from gen_expr import BETA_NAMES
    cases = []
    for _ in range(ctx.n(40, 600)):
        K = rng.randint(1, 6)
        names = sorted(rng.sample(BETA_NAMES, K))
        reqs = [list(names), list(reversed(names))]
        for _ in range(3):
            k = rng.randint(1, K)
            reqs.append(rng.sample(names, k))
        cases.append({'names': names, 'B': rng.choice([0, 3, 5]), 'requests': reqs})
    res = ctx.impl_cases('c03_results.py', cases, chunk=20)
    for c, r in zip(cases, res):
        names = c['names']
        tag = {n: j for j, n in enumerate(names)}
        if 'exc' in r or 'crash' in r:
            ctx.violation('C03/results/exception', 'a results object could not be built / queried', c, None, r.get('exc') or r.get('crash'))
            continue

        def expect(what, got, want, req=None):
            if got != want:
                ctx.violation(f'C03/results/{what}', f'{what}: a value is attached to another parameter\'s name',
                              {'names': names, 'request': req, 'B': c['B']}, want, got)
                st.disagree({'names': names, 'request': req}, want, got, what)

        expect('get_beta_values', r['get_beta_values_all'], {n: 10.0 + tag[n] for n in names})
        expect('estimated-parameters-table', r['estimated'], {n: 10.0 + tag[n] for n in names})
        expect('betas-bounds', r['betas_lb'], {n: -(tag[n] + 1.0) for n in names})
        expect('betas-values', r['betas_val'], {n: 10.0 + tag[n] for n in names})
        expect('varcovar-labels', {n: round(v, 9) for n, v in r['varcovar_diag'].items()}, {n: round(1.0 / (1.0 + tag[n]), 9) for n in names})
        expect('stderr', {n: round(v, 9) for n, v in r['stderr'].items()}, {n: round((1.0 / (1.0 + tag[n])) ** 0.5, 9) for n in names})
        for q in r['requests']:
            req = q['names']
            st.record({'names': names, 'request': req, 'B': c['B']}, nontrivial=req != names)
            if 'get_beta_values' in q:
                expect('get_beta_values-subset', q['get_beta_values'], {n: 10.0 + tag[n] for n in req}, req)
            if 'sens_boot' in q:
                want = [{n: 100.0 * tag[n] + row for n in req} for row in range(c['B'])]
                expect('sensitivity-bootstrap', q['sens_boot'], want, req)
    if st.disagreements:
        ctx.stream_broken('results_names', f'{len(st.disagreements)} disagreements; first: {json.dumps(st.disagreements[0], default=str)[:500]}')


def uses(t, nm):
    if t['h'][0] == 'Beta' and t['h'][1] == nm:
        return True
    return any(uses(k, nm) for k in t['k'])


def run(ctx):
    from sigstream import run_sig_streams
    ctx.assumptions += ASSUME
    ctx.trusted += ['engine semantics modelled (rocq/Model/EvalX.v), not verified',
                    'IdManager modelled by hand (rocq/Model/IdMgr.v), tied by stream ids on every run']
    ctx.build()
    st_sig = ctx.stream('sig', 'signature lines vs Model/Sig.v (shared with C01): the class index written next to every parameter name')
    st_ids = ctx.stream('ids', 'IdManager tables vs Model/IdMgr.v prepare; malformed sub-stream: one name for two kinds of element must be refused')
    run_sig_streams(ctx, st_sig, st_ids, ctx.n(80, 2000), ctx.n(30, 400))
    stream_rename(ctx)
    stream_results_names(ctx)
    # values follow NAMES also over histories of models sharing a sub-formula (stream shared with C01): a model built later with
    # another numbering of the same parameters must not change which value a name receives in simulate / create_function / get_value_c
    from props import C01
    C01.stream_models(ctx)


def replay(ctx, path):
    w = json.load(open(path))
    print(json.dumps({'recorded': {k: w.get(k) for k in ('key', 'what', 'expected', 'observed')},
                      'how': 're-run ./check C03 with the same VERIF_SEED'}))
    return 0
