"""Generator of DIFFERENTIABLE expression trees for C02 (a subclass of gen_expr.Gen).

The tree is a smooth function of its free parameters on a neighbourhood of the generated point:
  * comparisons, And / Or, BelongsTo, min / max, logzero, the key of an Elem, the conditions of a
    ConditionalSum, the chosen alternative and the availabilities of a LogLogit are built over
    PARAMETER-FREE sub-trees (numbers and data columns only);
  * log / division / power arguments are positive by construction (exp(.), c + s*s, products ...);
  * squares are written s*s (one shared object) except with a small probability as s**2
    (PowerConstant with exponent 2: known finding on its Hessian, kept observable).
"""
import gen_expr
from gen_expr import Gen, dy, val, norm, VAR_NAMES, AV_NAMES, KEY_NAME

FREE_NAMES = ['B_z', 'a9', 'B_10', 'b_2', 'Zeta', 'beta', 'ASC_1', 'asc_10', '_b', 'mu']


class DGen(Gen):
    def __init__(self, rng, max_depth=4, share_p=0.15, p_powc2=0.05, p_fixed=0.2, n_names=4, p_replin=0.04):
        super().__init__(rng, variables=True, max_depth=max_depth, share_p=share_p)
        self.nobeta = 0
        self.p_powc2 = p_powc2
        self.p_fixed = p_fixed
        self.p_replin = p_replin
        self.names = rng.sample(FREE_NAMES, n_names)
        # the engine refuses to differentiate any formula containing BelongsTo (even over data only)
        self.exclude = {'Belongs'}

    # ------------------------------------------------------------- leaves
    def beta(self, positive=False):
        if self.nobeta:
            return None
        name = self.rng.choice(self.names)
        if name not in self.betas:
            fixed = self.rng.random() < self.p_fixed
            v = dy(self.rng, positive=True) if positive else dy(self.rng, nonzero=True)
            self.betas[name] = {'value': val(v), 'fixed': fixed, 'positive': val(v) > 0, 'lb': None, 'ub': None}
        b = self.betas[name]
        if positive and not b['positive']:
            return None
        return self.node(['Beta', name, b['fixed']])

    def leaf_real(self):
        r = self.rng.random()
        if r < 0.2:
            return self.num()
        if r < 0.7:
            return self.beta() or self.num()
        return self.var()

    def maybe_shared(self, kind):
        if self.nobeta:
            return None      # pools may hold trees with parameters
        return super().maybe_shared(kind)

    def node(self, h, k=(), kind=None):
        if self.nobeta:
            kind = None      # ... and parameter-free trees are not worth pooling separately
        return super().node(h, k, kind)

    def ok(self, name):
        if self.nobeta and name == 'LinUtil':
            return False
        return super().ok(name)

    def pfree(self, f):
        self.nobeta += 1
        try:
            return f()
        finally:
            self.nobeta -= 1

    def square(self, s):
        if self.rng.random() < self.p_powc2:
            return self.node(['PowC', 1, 1], [s])
        if 'sid' not in s and s['k']:
            self.sid += 1
            s['sid'] = self.sid
        return self.node(['Bin', 'Times'], [s, s])

    # ------------------------------------------------------------- typed generators
    def boolean(self, d):
        return self.pfree(lambda: Gen.boolean(self, d))

    def small(self, d):
        s = self.maybe_shared('small')
        if s is not None:
            return s
        if d <= 0 or self.rng.random() < 0.35:
            return self.leaf_real()
        r = self.rng.random()
        if r < 0.3:
            return self.node(['Bin', self.rng.choice(['Plus', 'Minus'])], [self.small(d - 1), self.small(d - 2)], 'small')
        if r < 0.45:
            return self.node(['Bin', 'Times'], [self.leaf_real(), self.small(d - 1)], 'small')
        if r < 0.6:
            return self.node(['Un', self.rng.choice(['Sin', 'Cos'])], [self.real(d - 1)], 'small')
        if r < 0.7:
            return self.node(['Un', 'UMinus'], [self.small(d - 1)], 'small')
        if r < 0.82 and not self.nobeta:
            terms, used = [], set()
            rep = self.rng.random() < self.p_replin
            for _ in range(self.rng.randint(1, 3)):
                b = self.beta() or self.beta() or self.beta()
                if b is None:
                    break
                if b['h'][1] in used and not rep:
                    continue      # the same parameter in two terms: known finding on the gradient, kept rare
                used.add(b['h'][1])
                terms += [b, self.var()]
            if terms:
                return self.node(['LinUtil'], terms, 'small')
        if r < 0.9:
            # min / max over parameter-free operands only
            return self.pfree(lambda: self.node(['Bin', self.rng.choice(['BMin', 'BMax'])],
                                                [Gen.small(self, d - 1), Gen.small(self, d - 1)]))
        return self.boolean(d - 1)

    def pos(self, d):
        s = self.maybe_shared('pos')
        if s is not None:
            return s
        r = self.rng.random()
        if d <= 0 or r < 0.25:
            return self.num(positive=True)
        if r < 0.5:
            return self.node(['Un', 'Exp'], [self.small(d - 1)], 'pos')
        if r < 0.65:
            return self.node(['Bin', 'Plus'], [self.num(positive=True), self.square(self.small(d - 1))], 'pos')
        if r < 0.75:
            return self.node(['Bin', 'Times'], [self.pos(d - 1), self.pos(d - 1)], 'pos')
        if r < 0.85:
            return self.node(['Bin', 'Plus'], [self.pos(d - 1), self.pos(d - 1)], 'pos')
        if r < 0.92:
            return self.node(['Bin', 'Divide'], [self.pos(d - 1), self.pos(d - 1)], 'pos')
        return self.beta(positive=True) or self.num(positive=True)

    def real(self, d):
        s = self.maybe_shared('real')
        if s is not None:
            return s
        if d <= 0:
            return self.leaf_real()
        r = self.rng.random()
        c = 0.0

        def lt(p):
            nonlocal c
            c += p
            return r < c
        if lt(0.08):
            return self.leaf_real()
        if lt(0.12):
            return self.node(['Bin', self.rng.choice(['Plus', 'Minus'])], [self.real(d - 1), self.real(d - 1)], 'real')
        if lt(0.09):
            return self.node(['Bin', 'Times'], [self.real(d - 1), self.small(d - 1)], 'real')
        if lt(0.08):
            return self.node(['Bin', 'Divide'], [self.real(d - 1), self.pos(d - 1)], 'real')
        if lt(0.07):
            return self.node(['Un', 'Log'], [self.pos(d - 1)], 'real')
        if lt(0.06):
            return self.node(['Un', 'Exp'], [self.small(d - 1)], 'real')
        if lt(0.04):
            return self.node(['Un', 'UMinus'], [self.real(d - 1)], 'real')
        if lt(0.07):
            q = self.rng.random()
            if q < 0.15:
                return self.square(self.small(d - 1))
            if q < 0.5:
                e = self.rng.choice([[3, 0], [1, 0], [0, 0], [1, 2], [5, 0]])
                return self.node(['PowC'] + e, [self.small(d - 1)], 'real')
            if q < 0.7:
                return self.node(['PowC'] + self.rng.choice([[-1, 0], [-1, 1], [-3, 0]]), [self.pos(d - 1)], 'real')
            return self.node(['PowC'] + self.rng.choice([[1, -1], [3, -1], [-1, -1], [5, -2], [5, -1]]), [self.pos(d - 1)], 'real')
        if lt(0.05):
            return self.node(['Bin', 'Power'], [self.pos(d - 1), self.small(d - 2)], 'real')
        if lt(0.06):
            return self.node(['MultSum'], [self.real(d - 1) for _ in range(self.rng.randint(1, 4))], 'real')
        if lt(0.06):
            ks = []
            for _ in range(self.rng.randint(1, 3)):
                cnd = self.fresh(lambda: self.boolean(d - 2))
                ks += [cnd, self.real(d - 1)]
            return self.node(['CondSum'], ks, 'real')
        if lt(0.06):
            return self.elem(d)
        if lt(0.09):
            return self.loglogit(d)
        if lt(0.02):
            return self.pfree(lambda: self.node(['Un', 'Logzero'], [self.rng.choice(
                [Gen.pos(self, d - 1), self.node(['Num', 0, 0]), Gen.boolean(self, d - 1)])]))
        if lt(0.02):
            return self.boolean(d - 1)
        if lt(0.03):
            return self.node(['Un', 'NormalCdf'], [self.small(d - 1)], 'real')
        return self.small(d)


def free_names(tree, acc=None):
    acc = acc if acc is not None else set()
    h = tree['h']
    if h[0] == 'Beta' and not h[2]:
        acc.add(h[1])
    for k in tree['k']:
        free_names(k, acc)
    return acc


def gen_case(rng, max_depth=4, n_rows=3, p_powc2=0.05, p_replin=0.04):
    """tree with 1..5 free parameters (scrambled names), the parameter table and the data rows"""
    for _ in range(400):
        target = rng.choice([1, 1, 2, 2, 2, 3, 3, 4, 5])
        g = DGen(rng, max_depth=max_depth, p_powc2=p_powc2, p_replin=p_replin, n_names=min(10, target + rng.choice([0, 0, 1, 2])))
        tree = g.real(max_depth)
        if rng.random() < 0.4:
            # two sub-formulas combined
            other = g.real(max_depth - 1)
            tree = g.node(['Bin', rng.choice(['Plus', 'Minus', 'Times'])], [tree, other], 'real')
        fr = free_names(tree)
        guard = 0
        while len(fr) < target and guard < 12:
            # one more free parameter, entering through a smooth term
            guard += 1
            cand = [n for n in g.names if n not in fr and not g.betas.get(n, {}).get('fixed')]
            if not cand:
                break
            nm = rng.choice(cand)
            g.betas.setdefault(nm, {'value': val(dy(rng, nonzero=True)), 'fixed': False, 'positive': False, 'lb': None, 'ub': None})
            b = g.node(['Beta', nm, False])
            kind = rng.random()
            if kind < 0.3:
                term = g.node(['Bin', 'Times'], [b, g.var()])
            elif kind < 0.5:
                term = g.node(['Un', 'Exp'], [g.node(['Bin', 'Times'], [b, g.small(1)])])
            elif kind < 0.65:
                term = g.node(['Bin', 'Times'], [b, b])
            elif kind < 0.8:
                term = g.node(['Un', rng.choice(['Sin', 'Cos'])], [g.node(['Bin', 'Plus'], [b, g.leaf_real()])])
            else:
                term = g.node(['Bin', 'Times'], [b, g.small(2)])
            tree = g.node(['Bin', rng.choice(['Plus', 'Plus', 'Minus', 'Times'])], [tree, term], 'real')
            fr = free_names(tree)
        if 1 <= len(fr) <= 5:
            # only the parameters that occur in the tree are declared
            used = set()
            collect_betas(tree, used)
            betas = {k: v for k, v in g.betas.items() if k in used}
            rows = g.rows(n_rows)
            fix_rows(tree, rows)
            if not well_conditioned(tree, betas, rows):
                continue      # huge / nearly singular intermediate values: not an interior, well-scaled point
            return {'tree': tree, 'betas': betas, 'rows': rows}
    raise RuntimeError('c02_gen: could not generate a case')


class OutOfRange(Exception):
    pass


def pyeval(tree, betas, row, big=2.0 ** 14, tiny=2.0 ** -10):
    """floating-point value of the tree (generator side only, to keep the cases WELL CONDITIONED: every intermediate value
    is finite and below `big` in magnitude, every argument of log / base of a power / divisor is above `tiny` in magnitude).
    Raises OutOfRange otherwise.  Every sub-tree is evaluated, read or not."""
    import math
    h, k = tree['h'], tree['k']
    t = h[0]

    def chk(v):
        if not isinstance(v, float) or not math.isfinite(v) or abs(v) > big:
            raise OutOfRange(t)
        return v
    vs = [pyeval(x, betas, row, big, tiny) for x in k]
    try:
        if t == 'Num':
            return chk(val(h[1:3]))
        if t == 'Beta':
            return chk(float(betas[h[1]]['value']))
        if t == 'Var':
            return chk(float(row[h[1]]))
        if t == 'Bin':
            a, b = vs
            op = h[1]
            if op == 'Plus':
                return chk(a + b)
            if op == 'Minus':
                return chk(a - b)
            if op == 'Times':
                return chk(a * b)
            if op == 'Divide':
                if abs(b) < tiny:
                    raise OutOfRange(t)
                return chk(a / b)
            if op == 'Power':
                if a < tiny:
                    raise OutOfRange(t)
                return chk(a ** b)
            if op == 'BMin':
                return chk(min(a, b))
            if op == 'BMax':
                return chk(max(a, b))
            if op == 'And':
                return float(a != 0 and b != 0)
            if op == 'Or':
                return float(a != 0 or b != 0)
            return float({'Eq': a == b, 'Ne': a != b, 'Le': a <= b, 'Ge': a >= b, 'Lt': a < b, 'Gt': a > b}[op])
        if t == 'Un':
            a = vs[0]
            op = h[1]
            if op == 'UMinus':
                return chk(-a)
            if op == 'Exp':
                return chk(math.exp(a))
            if op == 'Log':
                if a < tiny:
                    raise OutOfRange(t)
                return chk(math.log(a))
            if op == 'Logzero':
                if a == 0:
                    return 0.0
                if a < tiny:
                    raise OutOfRange(t)
                return chk(math.log(a))
            if op == 'Sin':
                return chk(math.sin(a))
            if op == 'Cos':
                return chk(math.cos(a))
            if op == 'NormalCdf':
                return chk(0.5 * math.erfc(-a / math.sqrt(2.0)))
            raise OutOfRange(t)
        if t == 'PowC':
            a = vs[0]
            c = val(h[1:3])
            if c != int(c) or c < 0:
                if abs(a) < tiny or (c != int(c) and a < tiny):
                    raise OutOfRange(t)
            return chk(float(a ** c))
        if t == 'MultSum':
            return chk(float(sum(vs)))
        if t == 'LinUtil':
            return chk(float(sum(vs[i] * vs[i + 1] for i in range(0, len(vs), 2))))
        if t == 'CondSum':
            return chk(float(sum(vs[i + 1] for i in range(0, len(vs), 2) if vs[i] != 0)))
        if t == 'Elem':
            keys = h[1]
            kv = vs[0]
            if kv != int(kv) or int(kv) not in keys:
                raise OutOfRange(t)
            return chk(vs[1 + keys.index(int(kv))])
        if t == 'LogLogit':
            uk, ak = h[1], h[2]
            us = dict(zip(uk, vs[1:1 + len(uk)]))
            avs = dict(zip(ak, vs[1 + len(uk):]))
            c = vs[0]
            if c != int(c) or int(c) not in us or not avs.get(int(c)):
                raise OutOfRange(t)
            den = sum(math.exp(us[kk]) for kk in uk if avs.get(kk))
            return chk(us[int(c)] - math.log(den))
    except (OverflowError, ZeroDivisionError, ValueError, KeyError):
        raise OutOfRange(t)
    raise OutOfRange(t)


def well_conditioned(tree, betas, rows):
    try:
        for row in rows:
            pyeval(tree, betas, row)
        return True
    except OutOfRange:
        return False


def fix_rows(tree, rows):
    """interior points: the chosen alternative of every LogLogit is available on every row"""
    h, k = tree['h'], tree['k']
    if h[0] == 'LogLogit':
        uk, ak = h[1], h[2]
        choice = k[0]
        avs = dict(zip(ak, k[1 + len(uk):]))
        for row in rows:
            c = val(choice['h'][1:3]) if choice['h'][0] == 'Num' else row[choice['h'][1]]
            a = avs.get(int(c))
            if a is not None and a['h'][0] == 'Var':
                row[a['h'][1]] = 1.0
    for x in k:
        fix_rows(x, rows)


def collect_betas(tree, acc):
    if tree['h'][0] == 'Beta':
        acc.add(tree['h'][1])
    for k in tree['k']:
        collect_betas(k, acc)


def has_powc2(tree):
    h = tree['h']
    if h[0] == 'PowC' and val(h[1:3]) == 2.0:
        return True
    return any(has_powc2(k) for k in tree['k'])


def has_replin(tree):
    """a bioLinearUtility in which one parameter occurs in two terms"""
    h = tree['h']
    if h[0] == 'LinUtil':
        bs = [k['h'][1] for k in tree['k'][0::2]]
        if len(set(bs)) < len(bs):
            return True
    return any(has_replin(k) for k in tree['k'])


def rewrite_powc2(tree, cache=None, powc2=True, linutil=False):
    """x**2 -> x*x (the same object twice) and / or bioLinearUtility -> bioMultSum of products;
    sharing preserved through 'sid'"""
    cache = cache if cache is not None else {}
    sid = tree.get('sid')
    if sid is not None and sid in cache:
        return cache[sid]
    h = tree['h']
    ks = [rewrite_powc2(k, cache, powc2, linutil) for k in tree['k']]
    if linutil and h[0] == 'LinUtil':
        n = {'h': ['MultSum'], 'k': [{'h': ['Bin', 'Times'], 'k': [ks[i], ks[i + 1]]} for i in range(0, len(ks), 2)]}
    elif powc2 and h[0] == 'PowC' and val(h[1:3]) == 2.0:
        a = ks[0]
        if 'sid' not in a and a['k']:
            a = dict(a)
            cache['_ctr'] = cache.get('_ctr', 0) + 1
            a['sid'] = 1_000_000 + cache['_ctr']
        n = {'h': ['Bin', 'Times'], 'k': [a, a]}
    else:
        n = {'h': h, 'k': ks}
    if sid is not None:
        n['sid'] = sid
        cache[sid] = n
    return n


def reversing_rename(names):
    """a bijection old name -> new name that reverses the sorted order"""
    s = sorted(names)
    k = len(s)
    return {s[i]: f'r{k - 1 - i:02d}_{s[i]}' for i in range(k)}


def rename_tree(tree, mp, cache=None):
    cache = cache if cache is not None else {}
    sid = tree.get('sid')
    if sid is not None and sid in cache:
        return cache[sid]
    h = list(tree['h'])
    if h[0] == 'Beta' and h[1] in mp:
        h[1] = mp[h[1]]
    n = {'h': h, 'k': [rename_tree(k, mp, cache) for k in tree['k']]}
    if sid is not None:
        n['sid'] = sid
        cache[sid] = n
    return n
