"""C10 -- simulated and numerical integrals equal the average / integral they denote.

Rocq: Model/Draws.v, Proofs/DrawsP.v, Properties/C10.v (tie B: the model is hand-written from
Database.generate_draws / set_random_number_generators, IdManager.prepare / draw_types, bioDraws.set_id_manager and
the engine's bioExprDraws / bioExprMontecarlo / bioExprDerive / bioGaussHermite).

Streams (implementation runner lib/impl/c10_draws.py):
  table     Database.set_random_number_generators / generate_draws called directly (user generators of every
            shape, unknown types, missing entries, reserved names, shadowing attempts) and through
            IdManager (numbering + table of every mc formula) vs Model/Draws.v evaluated by vm_compute: exact
  mc        MonteCarlo formulas with 1-3 draw variables of different user types (deterministic tagged
            generators) through get_value_c (prepare_ids True / two-step) and BIOGEME.simulate vs the proved
            enclosure of the mean (check_values); expected series come from the declared type's generator
  native    native draw types: every array returned by a native generator is recorded; the engine's
            value vs the enclosure of the mean computed from the arrays recorded for the declared types
  seed      BIOGEME(seed=s) twice: identical tables and values; another seed: different (RNG-based types)
  integrate Integrate(f(omega) density(omega), omega) vs closed forms, relative tolerance 1e-4
  derive    Derive(f, beta | variable) vs the enclosure of the symbolic derivative D of Model/Deriv.v
"""
import json
import math
import struct
from fractions import Fraction

from bridge import json_to_coq, cz, heads_in, tree_size
from common import coq_string, coq_list, parse_bools, VERIF
from gen_expr import Gen, VAR_NAMES, strip_sids, dy, val
from values import check_values, coq_env, coq_dy, HEADER as VHEADER

ASSUME = [
    'the compiled engine (cythonbiogeme) is external: bioExprDraws / bioExprMontecarlo / bioExprDerive / bioGaussHermite are '
    'MODELLED (Model/Draws.v, Model/EvalX.v) from reading the C++ and tied by differential runs only',
    'numpy: np.array(list of K arrays of shape (N,R)) has shape (K,N,R) with [k][o][r] = list[k][o][r]; np.moveaxis(a,0,-1)[o][r][k] '
    '= a[k][o][r]; array.shape of a generator result (checked on every case of stream table)',
    'numpy global random state: a native generator is an arbitrary function of that state (theorems hold for every outcome); '
    'np.random.seed(s) makes the sequence of outcomes a function of s (stream seed)',
    'IEEE rounding in the engine (sum of R terms, division by R) is covered by the relative tolerance 2^-30 of the membership test',
    'Integrate: quadrature accuracy (100-point Gauss-Hermite table of the external engine) is a numerical fact, sampled with relative '
    'tolerance 1e-4 on smooth, normally decaying integrands (scale <= 2); T10g is partial; reference values: exact rationals for moments, '
    'math.exp for exp(b^2/2), a harness-side trapezoid sum (h = 1/32 on [-14,14]) for logistic-normal mixtures',
    'Derive: the engine\'s automatic differentiation is compared with the symbolic derivative D of Model/Deriv.v (correct by '
    'Proofs/DerivP.v D_correct, property C02) on the smooth fragment; derivatives with respect to a draw variable are not modelled',
    'a draw variable declared twice with two different types must be refused (IdManager._check_types_of_draws, repaired defect): '
    'corpus/C10/mc_conflicting_types.json; the model refuses it too (T10a_conflicting_types_refused)',
    'panel data (one series per individual) is covered by C09; here every observation is an individual',
]
TRUSTED = ['engine semantics modelled, not verified', 'expression bridge lib/impl/bio_bridge.py / bio_build.py (round trip checked on every case)',
           'harness-side instrumentation in the implementation subprocess: wrappers recording the arrays returned by the native '
           'generators and the table passed to pyBiogeme.setDraws (no edit of /repo)']

SCALE = 4096
DRAW_NAMES = ['zz', 'aa', 'mm', 'Q1', '_d', 'xi9', 'Bd', 'omega9', 'a_1', 'Z']
USER_TYPES = ['TA', 'TB', 'TC', 'TD', 'T_e', 'MINE', 'lognormal']
NATIVE_RNG = ['UNIFORM', 'UNIFORM_ANTI', 'UNIFORM_MLHS', 'UNIFORM_MLHS_ANTI', 'UNIFORMSYM', 'UNIFORMSYM_ANTI', 'UNIFORMSYM_MLHS',
              'UNIFORMSYM_MLHS_ANTI', 'NORMAL', 'NORMAL_ANTI', 'NORMAL_MLHS', 'NORMAL_MLHS_ANTI']
NATIVE_ALL = NATIVE_RNG + ['UNIFORM_HALTON2', 'UNIFORM_HALTON3', 'UNIFORM_HALTON5', 'UNIFORMSYM_HALTON2', 'UNIFORMSYM_HALTON3',
                           'UNIFORMSYM_HALTON5', 'NORMAL_HALTON2', 'NORMAL_HALTON3', 'NORMAL_HALTON5']


def tag_value(k, o, r):
    return (k * 1024 + o * 32 + r) / SCALE


def N(x):
    """Numeric node holding the double x"""
    x = float(x)
    if x == 0:
        return {'h': ['Num', 0, 0], 'k': []}
    n, d = x.as_integer_ratio()
    e = -(d.bit_length() - 1)
    while n % 2 == 0:
        n //= 2
        e += 1
    return {'h': ['Num', n, e], 'k': []}


def B(op, a, b):
    return {'h': ['Bin', op], 'k': [a, b]}


def U(op, a):
    return {'h': ['Un', op], 'k': [a]}


def V(n):
    return {'h': ['Var', n], 'k': []}


def first_appearance(tree, acc=None):
    acc = acc if acc is not None else []
    if tree['h'][0] == 'Draws' and tree['h'][1] not in acc:
        acc.append(tree['h'][1])
    for k in tree['k']:
        first_appearance(k, acc)
    return acc


def bits(x):
    return struct.pack('<d', float(x)) if isinstance(x, (int, float)) else x


# ------------------------------------------------------------------------------------------ generators
class DGen(Gen):
    """gen_expr.Gen with draw-variable leaves"""

    def __init__(self, rng, draws, positive=True, p=0.35, **kw):
        super().__init__(rng, **kw)
        self.draws = draws
        self.positive = positive
        self.p = p

    def draw_leaf(self):
        n, t = self.rng.choice(self.draws)
        return self.node(['Draws', n, t])

    def leaf_real(self):
        if self.draws and self.rng.random() < self.p:
            return self.draw_leaf()
        return super().leaf_real()

    def pos(self, d):
        if self.draws and self.positive and self.rng.random() < 0.15:
            return self.draw_leaf()
        return super().pos(d)


def pick_draws(rng, k, types_pool):
    """k draw variables of different types; names such that sorted order, order given and registration order differ"""
    names = rng.sample(DRAW_NAMES, k)
    types = rng.sample(types_pool, k)
    return list(zip(names, types))


def anchor(rng, draws):
    """sum of c_i * d_i with pairwise different coefficients: any exchange of series changes the value"""
    coefs = rng.sample([1, 2, 3, 5, 7], len(draws))
    terms = [B('Times', N(c / 4), {'h': ['Draws', n, t], 'k': []}) for c, (n, t) in zip(coefs, draws)]
    return terms[0] if len(terms) == 1 else {'h': ['MultSum'], 'k': terms}


def gen_mc_case(rng, tier_quick=True):
    k = rng.choice([1, 2, 2, 3, 3])
    for _ in range(20):
        draws = pick_draws(rng, k, USER_TYPES)
        tags = rng.sample(range(1, 8), k)
        reg = list(range(k))
        rng.shuffle(reg)
        g = DGen(rng, draws, max_depth=rng.choice([2, 3, 4]), heads={'exclude': ['NormalCdf']})
        shape = rng.random()
        order = list(draws)
        rng.shuffle(order)
        if shape < 0.55:
            f = B('Plus', g.real(g.max_depth), anchor(rng, order))
            tree = U('MonteCarlo', f)
        elif shape < 0.7:
            f = B('Plus', g.real(g.max_depth), anchor(rng, order))
            tree = B('Times', V(rng.choice(VAR_NAMES)), U('MonteCarlo', f))
        elif shape < 0.85:
            h = max(1, k // 2)
            f1 = B('Plus', g.real(g.max_depth - 1), anchor(rng, order[:h]))
            f2 = B('Minus', g.small(g.max_depth - 1), anchor(rng, order[h:] or order[:1]))
            tree = B('Plus', U('MonteCarlo', f1), B('Times', V('x1'), U('MonteCarlo', f2)))
        else:
            f = B('Plus', g.small(g.max_depth), anchor(rng, order))
            tree = U('Log', U('MonteCarlo', U('Exp', f)))
        app = first_appearance(tree)
        srt = sorted(n for n, _ in draws)
        regnames = [draws[i][0] for i in reg]
        if k == 1 or (app != srt and regnames != srt and regnames != app):
            break
    gens = [[draws[i][1], 'tag', tags[i]] for i in reg]
    if rng.random() < 0.3:
        gens.insert(rng.randrange(len(gens) + 1), ['UNUSED', 'tag', 9])
    Nobs = rng.choice([1, 3, 6])
    R = rng.choice([1, 2, 5, 16])
    return {'tree': tree, 'betas': g.betas, 'rows': g.rows(Nobs), 'gens': gens, 'R': R, 'threads': rng.choice([1, 2, 3]),
            'paths': ['gv', 'sim'], 'want_table': True, 'draws': [list(d) for d in draws],
            'orders': {'appearance': app, 'sorted': srt, 'registration': regnames}}


def series_env(c, o):
    """one lookup per draw r: {name: series_(type of name)[o][r]} from the DECLARED type's registered tag"""
    tag = {g[0]: g[2] for g in c['gens']}
    return [{n: tag_value(tag[t], o, r) for n, t in c['draws']} for r in range(c['R'])]


# ------------------------------------------------------------------------------------------ stream mc (+ table through IdManager)
def run_eval(ctx, cases, chunk=12):
    return ctx.impl_cases('c10_draws.py', cases, {'mode': 'eval'}, chunk=chunk)


def fmt_formula(t):
    return json.dumps(strip_sids(t))[:1500]


def witness(c, **kw):
    trees = c.get('trees') or [c['tree']]
    w = {'formula': strip_sids(trees[0]) if len(trees) == 1 else [strip_sids(t) for t in trees],
         'tree': c.get('tree'), 'betas': c.get('betas'), 'rows': c.get('rows'),
         'generators': c.get('gens'), 'N': len(c.get('rows') or []), 'R': c.get('R'), 'threads': c.get('threads'),
         'draws': c.get('draws'), 'case': c}
    w.update(kw)
    return w


CONFLICT_CASES = [
    # the same name declared with two types; each occurrence should read its own type's series (or the formula be refused)
    {'tree': U('MonteCarlo', B('Plus', {'h': ['Draws', 'aa', 'TA'], 'k': []},
                               B('Times', N(100.0), {'h': ['Draws', 'aa', 'TB'], 'k': []}))),
     'betas': {}, 'rows': [{'x1': 1.0}, {'x1': 2.0}, {'x1': 3.0}], 'gens': [['TA', 'tag', 2], ['TB', 'tag', 1]], 'R': 5,
     'threads': 1, 'paths': ['gv', 'sim'], 'want_table': True, 'conflict': True},
    {'tree': U('MonteCarlo', B('Minus', B('Times', {'h': ['Draws', 'zz', 'TB'], 'k': []}, V('x1')), {'h': ['Draws', 'zz', 'TA'], 'k': []})),
     'betas': {}, 'rows': [{'x1': 0.5}, {'x1': 2.0}], 'gens': [['TA', 'tag', 3], ['TB', 'tag', 5]], 'R': 2,
     'threads': 2, 'paths': ['gv', 'sim'], 'want_table': True, 'conflict': True},
]


def rename_by_type(t):
    """each occurrence reads the series of ITS declared type: name -> name@type"""
    h = t['h']
    if h[0] == 'Draws':
        return {'h': ['Draws', f'{h[1]}@{h[2]}', h[2]], 'k': []}
    return {'h': h, 'k': [rename_by_type(k) for k in t['k']]}


def stream_mc(ctx, only=None):
    st = ctx.stream('mc', 'MonteCarlo formulas (random typed DAGs, depth<=4, 1-3 draw variables of different user types, tagged deterministic '
                    'generators, names with sorted order != appearance != registration order; + 2-3 formulas side by side through one '
                    'IdManager([...]) and one BIOGEME(db, {...}).simulate sharing draw names, same type = accepted, two types = refused) '
                    'x N in {1,3,6} x R in {1,2,5,16} x threads '
                    '1-3; get_value_c (prepare_ids / two-step) and BIOGEME.simulate per observation vs proved enclosure of the mean over the '
                    'declared types\' series; non-trivial = >= 2 draw variables with the three orders pairwise different and verdict decided; '
                    'distinct by (formula, generators, N, R, path, observation)')
    stt = ctx.stream('table', 'draw tables: IdManager numbering + Database.theDraws of every mc formula, and direct '
                     'set_random_number_generators / generate_draws calls (see stream_table) vs Model/Draws.v (vm_compute, exact); '
                     'non-trivial = at least 2 series or a refusal; distinct by case')
    rng = ctx.sub_rng('mc')
    if only is not None:
        cases = only
    else:
        cases = corpus_cases('mc') + [gen_mc_case(rng) for _ in range(ctx.n(60, 500))]
    res = run_eval(ctx, cases)
    vcases, meta = [], []
    tcases = []
    cov = {}
    for c, r in zip(cases, res):
        heads_in(c['tree'], cov)
        how = 'lib/impl/c10_draws.py mode eval on witness.case (builds the tree, registers the tagged generators, evaluates)'
        if 'crash' in r or 'harness_exc' in r:
            ctx.violation('C10/mc/crash', 'the process died / the runner failed on a well-formed Monte-Carlo formula', witness(c),
                          'a value per observation', r.get('crash') or r.get('harness_exc'), how)
            continue
        conflict = c.get('conflict')
        if 'build_exc' in r:
            if conflict:
                st.record({'conflict': strip_sids(c['tree']), 'refused': True})
                tcases.append(('refused', c, 'build', None))
                continue
            ctx.violation('C10/mc/build', 'a well-formed formula could not be built', witness(c), 'an Expression', r['build_exc'], how)
            continue
        if strip_sids(r['tree_back']) != strip_sids(c['tree']):
            st.disagree(fmt_formula(c['tree']), 'bridge round trip differs', r['tree_back'])
            continue
        benv = {k: v['value'] for k, v in c['betas'].items()}
        plain = strip_sids(c['tree'])
        expr = rename_by_type(plain) if conflict else plain
        for path in c['paths']:
            o = r.get(path)
            if o is None:
                continue
            if 'exc' in o:
                if conflict:
                    st.record({'conflict': plain, 'path': path, 'refused': o['exc'][:80]})
                    tcases.append(('refused', c, path, None))
                    continue
                # the model must say "outside the domain" for some observation
                for i, row in enumerate(c['rows']):
                    vcases.append({'expr': expr, 'env': {'beta': benv, 'var': row, 'draws': series_env(c, i)}, 'observed': 'error'})
                    meta.append((c, path, i, o['exc'], 'any'))
                continue
            series = [('values', o['values'])] + ([('values_prepared', o['values_prepared'])] if 'values_prepared' in o else [])
            for label, vals in series:
                if len(vals) != len(c['rows']):
                    ctx.violation('C10/mc/count', 'number of simulated values differs from the number of observations', witness(c, path=path),
                                  len(c['rows']), len(vals), how)
                    continue
                for i, (row, v) in enumerate(zip(c['rows'], vals)):
                    if conflict:
                        env = {'beta': benv, 'var': row,
                               'draws': [{f'{n}@{t}': tag_value({g[0]: g[2] for g in c['gens']}[t], i, rr)
                                          for n, t in draws_of(plain)} for rr in range(c['R'])]}
                    else:
                        env = {'beta': benv, 'var': row, 'draws': series_env(c, i)}
                    vcases.append({'expr': expr, 'env': env,
                                   'observed': v if isinstance(v, float) else ('minf' if v == 'minf' else 'error')})
                    meta.append((c, path if label == 'values' else path + '/two-step', i, v, None))
            # numbering and table -> stream table (exact, in Coq); consistent declarations only
            if not conflict and o.get('names') is not None and (path == 'sim' or o.get('table')):
                tcases.append(('formula', c, path, o))
    verdicts = check_values(ctx, 'c10mc', vcases, relbits=-30, batch=max(20, min(150, len(vcases) // 15 + 1))) if vcases else []
    und = 0
    anyrow = {}
    for (c, path, i, obs, flag), (v, info) in zip(meta, verdicts):
        conflict = c.get('conflict')
        case = {'formula': strip_sids(c['tree']), 'gens': c['gens'], 'N': len(c['rows']), 'R': c['R'], 'path': path, 'obs': i}
        if flag == 'any':
            anyrow.setdefault((id(c), path), [c, path, obs, []])[3].append(v)
            continue
        if v == 'undecided':
            und += 1
            st.evaluations += 1
            continue
        o = c.get('orders')
        nontriv = bool(o) and len(c['draws']) >= 2 and o['appearance'] != o['sorted'] and o['registration'] != o['sorted'] \
            and o['registration'] != o['appearance']
        st.record(case, nontrivial=nontriv)
        if v == 'differ':
            if conflict:
                ctx.violation('C10/mc/conflicting-types',
                              'a draw variable declared with two types is accepted (instead of refused) and an occurrence does not read the '
                              'series of its declared type (variable declared TA is fed series TB)', witness(c, path=path, observation=i),
                              {'each occurrence reads the series of its declared type, or the formula is refused': info}, obs,
                              'lib/impl/c10_draws.py mode eval on witness.case')
                continue
            st.disagree(case, info, obs)
            ctx.violation(f'C10/mc/{path}', 'a MonteCarlo formula does not return the mean, over the R draws, of its argument evaluated with each '
                          'draw variable replaced by the series of its declared type', witness(c, path=path, observation=i, seed=ctx.seed),
                          info, obs, 'lib/impl/c10_draws.py mode eval on witness.case')
    for (c, path, exc_, vs) in anyrow.values():
        st.record({'formula': strip_sids(c['tree']), 'path': path, 'error': exc_[:80]}, nontrivial=False)
        if vs and all(x == 'agree' for x in vs) is False and not any(x in ('agree', 'undecided') for x in vs):
            ctx.violation(f'C10/mc/{path}/error', 'the evaluation fails on a formula that is inside the regular domain at every observation and draw',
                          witness(c, path=path), 'a value per observation', exc_)
    st.extra.update({'undecided': und, 'operator_coverage': cov,
                     'R_values': sorted({c['R'] for c in cases}), 'N_values': sorted({len(c['rows']) for c in cases}),
                     'draw_variables': {str(k): sum(1 for c in cases if len(c.get('draws') or []) == k) for k in (1, 2, 3)}})
    if st.disagreements:
        ctx.stream_broken('mc', f'{len(st.disagreements)} disagreements; first: {json.dumps(st.disagreements[0], default=str)[:700]}')
    return tcases


def gen_multi_case(rng, conflict):
    """2-3 formulas side by side sharing draw variables; conflict: one shared name carries ANOTHER type in one of the
    formulas (each formula is consistent by itself)"""
    nf = rng.choice([2, 2, 3])
    k = rng.choice([2, 3])
    draws = pick_draws(rng, k, USER_TYPES[:5])
    tags = rng.sample(range(1, 7), k)
    gens = [[t, 'tag', tg] for (_, t), tg in zip(draws, tags)] + [['T_other', 'tag', 7]]
    rng.shuffle(gens)
    shared = draws[0]
    cj = rng.randrange(1, nf) if rng.random() < 0.7 else 0
    g = DGen(rng, draws, max_depth=rng.choice([2, 3]), heads={'exclude': ['NormalCdf']})
    trees = []
    for j in range(nf):
        sub = [shared] + rng.sample(draws[1:], rng.randint(0, k - 1))
        if conflict and j == cj:
            sub[0] = (shared[0], 'T_other')
        g.pool = {kk: [] for kk in g.pool}          # no sub-tree shared between two formulas
        g.draws = sub
        order = list(sub)
        rng.shuffle(order)
        trees.append(U('MonteCarlo', B('Plus', g.real(g.max_depth), anchor(rng, order))))
    return {'trees': trees, 'betas': g.betas, 'rows': g.rows(rng.choice([1, 3])), 'gens': gens, 'R': rng.choice([1, 2, 5]),
            'threads': rng.choice([1, 2]), 'paths': ['gv', 'sim'], 'conflict': conflict,
            'draws': [list(d) for d in dict.fromkeys(d for t in trees for d in draws_of(strip_sids(t)))]}


def stream_multi(ctx, only=None):
    """2-3 formulas through one IdManager([...]) and one BIOGEME(db, {...}).simulate (streams mc and table)"""
    st = ctx.stream('mc', 'see stream_mc')
    rng = ctx.sub_rng('multi')
    if only is not None:
        cases = only
    else:
        cases = corpus_cases('multi') + [gen_multi_case(rng, i % 3 == 2) for i in range(ctx.n(24, 240))]
    res = run_eval(ctx, cases)
    how = 'lib/impl/c10_draws.py mode eval on witness.case (formulas side by side: IdManager([...]) and BIOGEME(db, {...}).simulate)'
    vcases, meta, tcases = [], [], []
    for c, r in zip(cases, res):
        conflict = c.get('conflict')
        if 'crash' in r or 'harness_exc' in r or ('build_exc' in r and not conflict):
            ctx.violation('C10/multi/crash', 'the runner failed on well-formed formulas', witness(c), None,
                          r.get('crash') or r.get('harness_exc') or r.get('build_exc'), how)
            continue
        if 'build_exc' in r:
            continue
        if [strip_sids(t) for t in r['trees_back']] != [strip_sids(t) for t in c['trees']]:
            st.disagree({'formulas': [strip_sids(t) for t in c['trees']]}, 'bridge round trip differs', r['trees_back'])
            continue
        benv = {k: v['value'] for k, v in c['betas'].items()}
        tag = {g[0]: g[2] for g in c['gens']}
        for path in c['paths']:
            o = r.get(path)
            if o is None:
                continue
            if 'exc' in o:
                if conflict and o['exc'].startswith('BiogemeError'):
                    st.record({'formulas': [strip_sids(t) for t in c['trees']], 'path': path, 'refused': o['exc'][:80]}, nontrivial=True)
                    tcases.append(('refused', c, path, None))
                    continue
                ctx.violation(f'C10/multi/{path}/error', 'formulas side by side: the preparation / evaluation failed' +
                              (' with another exception than BiogemeError' if conflict else ''), witness(c, path=path),
                              'BiogemeError' if conflict else 'values', o['exc'], how)
                continue
            if len(o['values']) != len(c['trees']) or any(len(v) != len(c['rows']) for v in o['values']):
                ctx.violation('C10/multi/count', 'wrong number of simulated values', witness(c, path=path), None, o['values'], how)
                continue
            # every bioDraws OBJECT carries the index of its name
            if any(o['indices'].get(n) != i for n, _, i in o['objects']):
                ctx.violation('C10/multi/draw-id', 'a bioDraws object does not carry the index of its name', witness(c, path=path),
                              o['indices'], o['objects'], how)
            for fi, (t, vals) in enumerate(zip(c['trees'], o['values'])):
                plain = strip_sids(t)
                ds = draws_of(plain)
                expr = rename_by_type(plain)
                for i, (row, v) in enumerate(zip(c['rows'], vals)):
                    env = {'beta': benv, 'var': row,
                           'draws': [{f'{n}@{ty}': tag_value(tag[ty], i, rr) for n, ty in ds} for rr in range(c['R'])]}
                    vcases.append({'expr': expr, 'env': env, 'observed': v if isinstance(v, float) else ('minf' if v == 'minf' else 'error')})
                    meta.append((c, path, fi, i, v))
            if not conflict:
                o2 = dict(o)
                o2['ids'] = o['indices']
                tcases.append(('formula', c, path, o2))
    verdicts = check_values(ctx, 'c10multi', vcases, relbits=-30, batch=max(20, min(150, len(vcases) // 15 + 1))) if vcases else []
    for (c, path, fi, i, obs), (v, info) in zip(meta, verdicts):
        case = {'formulas': [strip_sids(t) for t in c['trees']], 'gens': c['gens'], 'R': c['R'], 'path': path, 'formula': fi, 'obs': i}
        if v == 'undecided':
            st.evaluations += 1
            continue
        st.record(case, nontrivial=True)
        if v == 'differ':
            if c.get('conflict'):
                ctx.violation('C10/multi/conflicting-types', 'a draw variable declared with two different types in two formulas evaluated side by '
                              'side is accepted (instead of refused) and a formula does not read the series of the type it declares',
                              witness(c, path=path, formula_index=fi, observation=i),
                              {'refusal (BiogemeError), or every formula reads the series of its own declared type': info}, obs, how)
            elif ctx.violation(f'C10/multi/{path}', 'formulas side by side: a MonteCarlo formula does not return the mean over the series of the '
                               'declared types', witness(c, path=path, formula_index=fi, observation=i), info, obs, how):
                st.disagree(case, info, obs)
    if st.disagreements:
        ctx.stream_broken('mc', f'{len(st.disagreements)} disagreements; first: {json.dumps(st.disagreements[0], default=str)[:700]}')
    return tcases


def draws_of(t, acc=None):
    acc = acc if acc is not None else []
    if t['h'][0] == 'Draws' and (t['h'][1], t['h'][2]) not in acc:
        acc.append((t['h'][1], t['h'][2]))
    for k in t['k']:
        draws_of(k, acc)
    return acc


# ------------------------------------------------------------------------------------------ stream table
GEN_HEADER = (
    'From BV Require Import Model.Draws.\nOpen Scope string_scope.\n'
    'Definition tagm (k : Z) (N R : nat) : matrix Z :=\n'
    '  map (fun o => map (fun r => (k * 1024 + Z.of_nat o * 32 + Z.of_nat r)%Z) (seq 0 R)) (seq 0 N).\n'
    'Definition gtag (k : Z) : generator Z unit := fun s N R => (tagm k N R, s).\n'
    'Definition gtransposed (k : Z) : generator Z unit := fun s N R => (tagm k R N, s).\n'
    'Definition gextra_row (k : Z) : generator Z unit := fun s N R => (tagm k (S N) R, s).\n'
    'Definition gextra_col (k : Z) : generator Z unit := fun s N R => (tagm k N (S R), s).\n'
    'Definition zl_eqb := list_eqb Z.eqb.\n'
    'Definition tensor_eqb (a b : tensor Z) : bool := list_eqb (list_eqb zl_eqb) a b.\n'
    'Definition sl_eqb := list_eqb String.eqb.\n'
    'Inductive obs := ObsOk (t : tensor Z) | ObsBadShape (n : string) | ObsUnknown (n : string) | ObsKey (n : string).\n'
    'Definition res_eqb (r : result (tensor Z * unit)) (o : obs) : bool :=\n'
    '  match r, o with\n'
    '  | Ok (t, _), ObsOk t\' => tensor_eqb t t\'\n'
    '  | Err (BadShape n), ObsBadShape n\' => String.eqb n n\'\n'
    '  | Err (UnknownType n _), ObsUnknown n\' => String.eqb n n\'\n'
    '  | Err (KeyErr n), ObsKey n\' => String.eqb n n\'\n'
    '  | _, _ => false end.\n'
    '(* formula level: IdManager numbering, drawId of every variable, table *)\n'
    'Definition chk_formula (native user : gdict Z unit) (fs : list expr) (cols : list string) (N R : nat)\n'
    '   (names : list string) (ids : list (string * Z)) (table : option (tensor Z)) : bool :=\n'
    '  match prepare_draws Z unit native user fs cols N R tt with\n'
    '  | Some (t, Ok (tb, _)) =>\n'
    '      sl_eqb (t_draws t) names &&\n'
    '      forallb (fun p => match draw_id t (fst p) with Some j => Z.eqb j (snd p) | None => false end) ids &&\n'
    '      match table with Some tb\' => tensor_eqb tb tb\' | None => true end\n'
    '  | _ => false end.\n'
    '(* direct calls: the sequence of set_random_number_generators (acceptance flags), then generate_draws *)\n'
    'Fixpoint apply_sets (native u : gdict Z unit) (calls : list (gdict Z unit)) : list bool * gdict Z unit :=\n'
    '  match calls with\n'
    '  | [] => ([], u)\n'
    '  | rng :: rest => match set_rng Z unit native rng with\n'
    '                   | Some u\' => let (fl, uf) := apply_sets native u\' rest in (true :: fl, uf)\n'
    '                   | None => let (fl, uf) := apply_sets native u rest in (false :: fl, uf) end\n'
    '  end.\n'
    'Definition chk_direct (native : gdict Z unit) (calls : list (gdict Z unit)) (flags : list bool) (keys : list string)\n'
    '   (types : list (string * string)) (names : list string) (N R : nat) (o : obs) : bool :=\n'
    '  let (fl, u) := apply_sets native [] calls in\n'
    '  list_eqb Bool.eqb fl flags && sl_eqb (map fst u) keys &&\n'
    '  res_eqb (generate_draws Z unit native u types names N R tt) o.\n'
)

GKIND = {'tag': 'gtag', 'transposed': 'gtransposed', 'extra_row': 'gextra_row', 'extra_col': 'gextra_col'}


def coq_gdict(gens):
    return coq_list([f'({coq_string(g[0])}, {GKIND[g[1]]} {cz(g[2])})' for g in gens])


def coq_tensor(t):
    return coq_list([coq_list([coq_list([cz(int(x)) for x in cell]) for cell in plane]) for plane in t])


def coq_natives(names):
    return coq_list([f'({coq_string(n)}, gtag 0%Z)' for n in names])


def gen_table_case(rng):
    K = rng.choice([1, 2, 3, 4])
    names = rng.sample(DRAW_NAMES, K)
    tys = rng.sample(USER_TYPES, K)
    kinds = ['tag'] * K
    Nn, R = rng.choice([1, 2, 3, 5]), rng.choice([1, 2, 3, 4, 7])
    mode = rng.random()
    if mode < 0.3:
        bad = rng.randrange(K)
        kinds[bad] = rng.choice(['transposed', 'extra_row', 'extra_col', 'vector', 'cube'])
        if rng.random() < 0.3 and K > 1:
            kinds[rng.randrange(K)] = rng.choice(['extra_row', 'extra_col'])
    gens = [[tys[i], kinds[i], i + 1] for i in range(K)]
    types = {names[i]: tys[i] for i in range(K)}
    order = list(names)
    o = rng.random()
    if o < 0.5:
        order = sorted(order)
    elif o < 0.75:
        order = sorted(order, reverse=True)
    else:
        rng.shuffle(order)
    if 0.3 <= mode < 0.4:
        types[rng.choice(names)] = rng.choice(['NOPE', 'normal', 'Uniform', ''])      # unknown type
    elif 0.4 <= mode < 0.45:
        del types[rng.choice(names)]                                                # KeyError
    elif 0.45 <= mode < 0.5:
        order = order + [rng.choice(order)]                                         # a name listed twice
    reg = list(gens)
    rng.shuffle(reg)
    set_calls = [reg]
    s = rng.random()
    if s < 0.25:
        # an attempt to redefine a native type: refused, the earlier dictionary stays
        bad_call = [[rng.choice(NATIVE_ALL), 'tag', 7]] + ([reg[0]] if rng.random() < 0.5 else [])
        rng.shuffle(bad_call)
        set_calls = [reg, bad_call] if rng.random() < 0.6 else [bad_call, reg]
    elif s < 0.4:
        # a second accepted call REPLACES the dictionary
        set_calls = [[['OLD', 'tag', 6]] + reg[:1], reg]
    elif s < 0.5:
        set_calls = [reg, [['OTHER', 'tag', 6]]]      # the used types are no longer registered
    return {'N': Nn, 'R': R, 'set_calls': set_calls, 'types': types, 'names': order}


def gen_shadow_case(rng):
    """a native type name written directly into the user dictionary (bypassing the check): the native generator still wins"""
    nat = rng.choice(NATIVE_ALL)
    Nn, R = rng.choice([2, 3]), rng.choice([2, 4, 6])
    return {'N': Nn, 'R': R, 'set_calls': [[['TA', 'tag', 1]]], 'force': [[nat, 'tag', 5]],
            'types': {'aa': 'TA', 'zz': nat}, 'names': ['aa', 'zz'], 'shadow': nat}


def parse_direct(r):
    if r.get('ok'):
        t = r['table']
        if t is None or 'int' not in t:
            return None
        return ('ok', t)
    msg = r.get('msg', '')
    if r.get('exc') == 'BiogemeError' and msg.startswith('The draw generator for '):
        return ('badshape', msg[len('The draw generator for '):].split(' must')[0])
    if r.get('exc') == 'BiogemeError' and msg.startswith('Unknown type of draws for variable '):
        return ('unknown', msg[len('Unknown type of draws for variable '):].split(':')[0])
    if r.get('exc') == 'KeyError':
        return ('key', msg.strip('\'"'))
    return ('other', r.get('exc'))


def stream_table(ctx, tcases, only=None):
    stt = ctx.streams['table'] if 'table' in ctx.streams else ctx.stream('table', 'draw tables vs Model/Draws.v')
    rng = ctx.sub_rng('table')
    if only is not None:
        dcases = only
    else:
        dcases = corpus_cases('table') + [gen_table_case(rng) for _ in range(ctx.n(120, 1500))] + \
            [gen_shadow_case(rng) for _ in range(ctx.n(12, 120))]
    dres = ctx.impl_cases('c10_draws.py', dcases, {'mode': 'table'}, chunk=40, key='cases')
    items, icases = [], []
    native_names = None
    how = 'lib/impl/c10_draws.py mode table on the witness'
    for c, r in zip(dcases, dres):
        if 'crash' in r or 'harness_exc' in r:
            ctx.violation('C10/table/crash', 'generate_draws: the runner failed', c, None, r.get('crash') or r.get('harness_exc'), how)
            continue
        native_names = native_names or r['native_names']
        # ---- property oracles on the implementation's output
        for call, s in zip(c['set_calls'], r['sets']):
            reserved = [g[0] for g in call if g[0] in r['native_names']]
            if reserved and s['ok']:
                ctx.violation('C10/reserved/accepted', 'set_random_number_generators accepted a native type name', c, 'ValueError', s, how)
            if not reserved and not s['ok']:
                ctx.violation('C10/reserved/refused', 'set_random_number_generators refused a dictionary without native names', c, 'accepted', s, how)
            if reserved and not s['ok'] and s.get('exc') != 'ValueError':
                ctx.violation('C10/reserved/exception', 'reserved name: wrong exception type', c, 'ValueError', s, how)
            if any(k in r['native_names'] for k in s['keys']):
                ctx.violation('C10/reserved/stored', 'a native type name is stored in the user dictionary', c, None, s, how)
        pd_ = parse_direct(r)
        kinds = {g[0]: g[1] for call in c['set_calls'] for g in call}
        if c.get('shadow'):
            stt.record({'shadow': c['shadow'], 'N': c['N'], 'R': c['R']}, nontrivial=True)
            ok = r.get('ok') and r['table'] and 'float' in r['table']
            if not ok:
                # an antithetic native type with an odd R returns another shape: refusal is the correct outcome
                if not (r.get('exc') == 'BiogemeError' and 'must generate a numpy array' in r.get('msg', '')):
                    ctx.violation('C10/shadow/failed', 'generate_draws failed with a native type', c, 'a table', r, how)
                continue
            if r['table'].get('shape') != [c['N'], c['R'], 2]:
                ctx.violation('C10/table/shape', 'generate_draws: the table does not have shape (observations, draws, variables)', c,
                              [c['N'], c['R'], 2], r['table'].get('shape'), how)
                continue
            tb = r['table']['float']
            col = [[tb[o][j][1] for j in range(c['R'])] for o in range(c['N'])]       # 'zz' is second in sorted order
            forced = [[tag_value(5, o, j) for j in range(c['R'])] for o in range(c['N'])]
            nat_out = [a for n, a in r['native_calls'] if n == c['shadow']]
            if col == forced or any(g[0] == c['shadow'] for g in r['gen_calls']):
                ctx.violation('C10/shadow/user-generator-used', 'a user generator stored under a native type name shadows the native generator',
                              c, 'the native generator', {'column': col}, how)
            elif not nat_out or [[bits(x) for x in row] for row in nat_out[0]] != [[bits(x) for x in row] for row in col]:
                ctx.violation('C10/shadow/not-native-output', 'the series of a native-typed variable is not what the native generator returned',
                              c, nat_out[:1], col, how)
            continue
        nontriv = len(c['names']) >= 2 or not r.get('ok')
        stt.record({k: c[k] for k in ('N', 'R', 'set_calls', 'types', 'names')}, nontrivial=nontriv)
        if pd_ is None or pd_[0] == 'other':
            ctx.violation('C10/table/unexpected', 'generate_draws: unexpected outcome', c, 'a table or BiogemeError / KeyError', r, how)
            continue
        # python-side oracle (independent of the Coq model): the first name (in the given order) whose generator is
        # unknown / of another shape decides; otherwise table[o][r][k] = series_k[o][r]
        exp = expected_direct(c, r['native_names'])
        if exp[0] != pd_[0] or (exp[0] != 'ok' and exp[1] != pd_[1]):
            ctx.violation('C10/table/outcome', 'generate_draws: wrong outcome (refusal / acceptance / offending variable)', c, exp[:2], pd_[:2], how)
        elif exp[0] == 'ok' and (pd_[1]['shape'] != exp[2] or pd_[1]['int'] != exp[1]):
            ctx.violation('C10/table/indexing', 'generate_draws: table[o][r][k] is not series_k[o][r]', c, {'shape': exp[2], 'table': exp[1]}, pd_[1], how)
        if r.get('ok') and (not r.get('same_object') or r.get('number_of_draws') != c['R']):
            ctx.violation('C10/table/state', 'generate_draws: returned table is not database.theDraws / number_of_draws not stored', c, None, r, how)
        # ---- model (vm_compute): only the generator kinds the model can express
        if all(k in GKIND for k in kinds.values()):
            obs = {'ok': lambda: f'(ObsOk {coq_tensor(pd_[1]["int"])})', 'badshape': lambda: f'(ObsBadShape {coq_string(pd_[1])})',
                   'unknown': lambda: f'(ObsUnknown {coq_string(pd_[1])})', 'key': lambda: f'(ObsKey {coq_string(pd_[1])})'}[pd_[0]]()
            if pd_[0] == 'ok' and len(pd_[1]['shape']) != 3:
                continue
            flags = coq_list(['true' if s['ok'] else 'false' for s in r['sets']])
            keys = coq_list([coq_string(k) for k in (r['sets'][-1]['keys'] if r['sets'] else [])])
            types = coq_list([f'({coq_string(k)}, {coq_string(v)})' for k, v in c['types'].items()])
            items.append(f'(chk_direct NAT {coq_list([coq_gdict(call) for call in c["set_calls"]])} {flags} {keys} {types} '
                         f'{coq_list([coq_string(n) for n in c["names"]])} {c["N"]}%nat {c["R"]}%nat {obs})')
            icases.append((c, r))
    # ---- formula level (from stream mc)
    for (kind_, c, path, o) in tcases:
        if any(g[1] not in GKIND for g in c['gens']):
            continue
        if kind_ == 'refused':
            # a formula refused for conflicting draw types: the model must refuse it too
            trees_ = c.get('trees') or [c['tree']]
            case = {'formula': [strip_sids(t) for t in trees_], 'gens': c['gens'], 'refused': path}
            stt.record(case, nontrivial=True)
            items.append(f'(match prepare_draws Z unit NAT {coq_gdict(c["gens"])} [{"; ".join(json_to_coq(strip_sids(t)) for t in trees_)}] '
                         f'{coq_list([coq_string(x) for x in c["rows"][0].keys()])} {len(c["rows"])}%nat {c["R"]}%nat tt '
                         f'with None => true | Some _ => false end)')
            icases.append((case, 'refused by the implementation'))
            continue
        tb = o.get('table')
        trees_ = c.get('trees') or [c['tree']]
        case = {'formula': [strip_sids(t) for t in trees_] if len(trees_) > 1 else strip_sids(trees_[0]),
                'gens': c['gens'], 'N': len(c['rows']), 'R': c['R'], 'path': path}
        stt.record(case, nontrivial=len(o['names']) >= 2)
        # python-side oracles
        srt = sorted(n for n, _ in c['draws'])
        if o['names'] != srt or any(o['ids'].get(n) != srt.index(n) for n in srt):
            # the numbering convention (sorted names) is a fact of the model, not of the property: a disagreement, not a violation
            stt.disagree(case, {'names': srt}, {'names': o['names'], 'ids': o['ids']}, 'numbering is not the position in the sorted names')
        if tb is not None:
            # property oracle: the column the engine reads for each variable (its drawId) holds the series of its declared type
            tag = {g[0]: g[2] for g in c['gens']}
            ty = dict(c['draws'])
            K = len(srt)
            okshape = tb.get('shape') == [len(c['rows']), c['R'], K] and 'int' in tb
            ids_ok = sorted(o['ids'].get(n, -1) for n in srt) == list(range(K))
            if not okshape or not ids_ok or any(
                    tb['int'][ob][rr][o['ids'][n]] != tag[ty[n]] * 1024 + ob * 32 + rr
                    for n in srt for ob in range(len(c['rows'])) for rr in range(c['R'])):
                ctx.violation('C10/table/formula-table', 'the table handed to the engine is not [observation][draw][variable] with the column '
                              'of each variable (its drawId) holding the series of its declared type', witness(c, path=path),
                              {'shape': [len(c['rows']), c['R'], K], 'column of n': 'tag(type n)*1024 + 32*o + r'}, {'ids': o['ids'], 'table': tb})
        cols = list(c['rows'][0].keys())
        ids = coq_list([f'({coq_string(n)}, {cz(i)})' for n, i in o['ids'].items()])
        tbl = f'(Some {coq_tensor(tb["int"])})' if tb is not None and 'int' in tb else 'None'
        items.append(f'(chk_formula NAT {coq_gdict(c["gens"])} [{"; ".join(json_to_coq(strip_sids(t)) for t in trees_)}] '
                     f'{coq_list([coq_string(x) for x in cols])} {len(c["rows"])}%nat {c["R"]}%nat '
                     f'{coq_list([coq_string(n) for n in o["names"]])} {ids} {tbl})')
        icases.append((case, {'names': o['names'], 'ids': o['ids']}))
    if items:
        native_names = native_names or NATIVE_ALL
        if sorted(native_names) != sorted(NATIVE_ALL):
            ctx.stream_broken('table', f'the list of native draw types changed: {native_names}')
        header = GEN_HEADER + f'Definition NAT : gdict Z unit := {coq_natives(native_names)}.\n'
        Bsz = 60
        files = {f'c10tab_{i // Bsz}': header + 'Eval vm_compute in [\n' + ';\n'.join(items[i:i + Bsz]) + '].\n'
                 for i in range(0, len(items), Bsz)}
        outs = ctx.coq_eval_many(files)
        for name in sorted(files, key=lambda s: int(s.rsplit('_', 1)[1])):
            ok, out = outs[name]
            i0 = int(name.rsplit('_', 1)[1]) * Bsz
            n_here = len(items[i0:i0 + Bsz])
            if not ok:
                ctx.stream_broken('table', 'model evaluation failed: ' + out[-800:])
                continue
            bs = parse_bools(out)
            if len(bs) != n_here:
                ctx.stream_broken('table', f'could not parse the model output ({len(bs)} results for {n_here} cases)')
                continue
            for j, b in enumerate(bs):
                if not b:
                    cc, rr = icases[i0 + j]
                    stt.disagree(cc, 'Model/Draws.v gives another outcome / table / numbering', rr)
    stt.extra.update({'direct_cases': len(dcases), 'formula_cases': len(tcases), 'modelled_in_coq': len(items)})
    if stt.disagreements:
        ctx.stream_broken('table', f'{len(stt.disagreements)} disagreements; first: {json.dumps(stt.disagreements[0], default=str)[:900]}')


def expected_direct(c, native_names):
    """independent Python statement of generate_draws on tagged generators"""
    user = {}
    for call in c['set_calls']:
        if not any(g[0] in native_names for g in call):
            user = {g[0]: g for g in call}
    series = []
    for n in c['names']:
        if n not in c['types']:
            return ('key', n)
        t = c['types'][n]
        if t in native_names:
            return ('native', n)
        if t not in user:
            return ('unknown', n)
        g = user[t]
        if g[1] != 'tag' and not (g[1] == 'transposed' and c['N'] == c['R']):
            return ('badshape', n)
        series.append(g[2])
    K = len(series)
    tb = [[[series[k] * 1024 + o * 32 + r for k in range(K)] for r in range(c['R'])] for o in range(c['N'])]
    return ('ok', tb, [c['N'], c['R'], K])


# ------------------------------------------------------------------------------------------ stream native
def gen_native_case(rng, i):
    k = rng.choice([1, 2, 2, 3])
    types = [NATIVE_ALL[(3 * i + j * 7) % len(NATIVE_ALL)] for j in range(k)]
    if len(set(types)) < k:
        types = rng.sample(NATIVE_ALL, k)
    names = rng.sample(DRAW_NAMES, k)
    draws = list(zip(names, types))
    gens = []
    if rng.random() < 0.3:
        draws.append((rng.choice([n for n in DRAW_NAMES if n not in names]), 'TA'))
        gens = [['TA', 'tag', 3]]
    g = DGen(rng, draws, positive=False, max_depth=rng.choice([2, 3]), heads={'exclude': ['NormalCdf']})
    order = list(draws)
    rng.shuffle(order)
    f = B('Plus', g.small(g.max_depth), anchor(rng, order))
    tree = U('MonteCarlo', f)
    path = 'gv' if rng.random() < 0.5 else 'sim'
    R = rng.choice([2, 4, 6, 10]) if rng.random() < 0.85 else rng.choice([1, 3, 5])
    return {'tree': tree, 'betas': g.betas, 'rows': g.rows(rng.choice([1, 3, 6])), 'gens': gens, 'R': R, 'threads': rng.choice([1, 2]),
            'paths': [path], 'want_table': True, 'native': True, 'np_seed': rng.randrange(1, 10 ** 6), 'seed': rng.randrange(1, 10 ** 6),
            'draws': [list(d) for d in draws]}


def shape_refusal(msg):
    return msg.startswith('BiogemeError') and 'must generate a numpy array of dimensions' in msg


def native_series(c, o):
    """series per variable from the arrays RECORDED at the generators' exit, by declared type.
    Returns (dict name -> N x R nested list, generation index) or (None, why)."""
    K = len(c['draws'])
    nat = [d for d in c['draws'] if d[1] in NATIVE_ALL]
    calls = o.get('native_calls') or []
    kn = len(nat)
    if kn == 0 or len(calls) % kn != 0:
        return None, f'{len(calls)} native generator calls for {kn} native variables'
    gens_ = [calls[i:i + kn] for i in range(0, len(calls), kn)]
    tb = o.get('table')
    tbf = tb.get('float') if tb else None
    if tb and 'int' in tb:
        tbf = [[[x / SCALE for x in cell] for cell in plane] for plane in tb['int']]
    if tb and tb.get('shape') != [len(c['rows']), c['R'], K]:
        return None, f'the table handed to the engine has shape {tb.get("shape")} instead of {[len(c["rows"]), c["R"], K]}'
    chosen = None
    for gi, gen in enumerate(gens_):
        by_type = {n: a for n, a in gen}
        if len(by_type) != kn:
            continue
        if tbf is None:
            chosen = (gi, by_type)
            break
        # the engine's table is made of this generation's arrays (as columns, in some order)
        cols = [[[bits(tbf[ob][r][k]) for r in range(c['R'])] for ob in range(len(c['rows']))] for k in range(K)]
        if all([[bits(x) for x in row] for row in by_type[t]] in cols for _, t in nat):
            chosen = (gi, by_type)
            break
    if chosen is None:
        return None, 'the table handed to the engine is not made of the arrays returned by the generators'
    gi, by_type = chosen
    tag = {g[0]: g[2] for g in c['gens']}
    ser = {}
    for n, t in c['draws']:
        if t in by_type:
            ser[n] = by_type[t]
        else:
            ser[n] = [[tag_value(tag[t], ob, r) for r in range(c['R'])] for ob in range(len(c['rows']))]
    return ser, gi


def stream_native(ctx, only=None):
    st = ctx.stream('native', 'MonteCarlo formulas over 1-3 draw variables of different NATIVE types (all 21 types; + a user type), seeded numpy; '
                    'every array returned by a native generator is recorded at its exit; engine value (get_value_c or BIOGEME.simulate) per '
                    'observation vs proved enclosure of the mean computed from the arrays recorded for the declared types; the table handed to the '
                    'engine must consist of exactly those arrays; non-trivial = >= 2 variables and verdict decided; distinct by (case, observation)')
    rng = ctx.sub_rng('native')
    cases = only if only is not None else [gen_native_case(rng, i) for i in range(ctx.n(42, 300))]
    res = run_eval(ctx, cases, chunk=8)
    vcases, meta = [], []
    gens_used = {}
    types_seen = set()
    how = 'lib/impl/c10_draws.py mode eval on witness.case'
    for c, r in zip(cases, res):
        if 'crash' in r or 'harness_exc' in r or 'build_exc' in r:
            ctx.violation('C10/native/crash', 'the runner failed on a well-formed formula', witness(c), None,
                          r.get('crash') or r.get('harness_exc') or r.get('build_exc'), how)
            continue
        path = c['paths'][0]
        o = r.get(path) or {}
        if 'exc' in o:
            odd_anti = c['R'] % 2 == 1 and any('ANTI' in t for _, t in c['draws'])
            if odd_anti and o['exc'].startswith(('BiogemeError', 'ValueError')):
                # antithetic types need an even number of draws: refusing an odd R is the correct outcome
                st.record({'refused_odd_R_antithetic': [t for _, t in c['draws']], 'R': c['R']}, nontrivial=False)
                continue
            ctx.violation(f'C10/native/{path}/error', 'evaluation of a Monte-Carlo formula over native draws failed', witness(c, path=path),
                          'a value per observation', o['exc'], how)
            continue
        ser, gi = native_series(c, o)
        if ser is None:
            ctx.violation(f'C10/native/{path}/table', 'native draws: ' + gi, witness(c, path=path), None,
                          {'table': o.get('table'), 'calls': [n for n, _ in o.get('native_calls', [])]}, how)
            continue
        gens_used[gi] = gens_used.get(gi, 0) + 1
        types_seen.update(t for _, t in c['draws'])
        # the recorded arrays have the requested shape
        bad_shape = False
        for n, a in ser.items():
            if not isinstance(a, list) or len(a) != len(c['rows']) or any(not isinstance(row, list) or len(row) != c['R'] for row in a):
                bad_shape = True
        if bad_shape:
            ctx.violation('C10/native/shape', 'a native generator returned another shape and was not refused', witness(c), None, None, how)
            continue
        if len(o['values']) != len(c['rows']):
            ctx.violation('C10/native/count', 'number of simulated values differs from the number of observations', witness(c, path=path),
                          len(c['rows']), len(o['values']), how)
            continue
        benv = {k: v['value'] for k, v in c['betas'].items()}
        plain = strip_sids(c['tree'])
        for i, (row, v) in enumerate(zip(c['rows'], o['values'])):
            env = {'beta': benv, 'var': row, 'draws': [{n: ser[n][i][rr] for n, _ in c['draws']} for rr in range(c['R'])]}
            vcases.append({'expr': plain, 'env': env, 'observed': v if isinstance(v, float) else 'error'})
            meta.append((c, path, i, v))
    verdicts = check_values(ctx, 'c10nat', vcases, relbits=-30, batch=max(10, min(150, len(vcases) // 15 + 1))) if vcases else []
    und = 0
    for (c, path, i, obs), (v, info) in zip(meta, verdicts):
        case = {'formula': strip_sids(c['tree']), 'draws': c['draws'], 'R': c['R'], 'np_seed': c['np_seed'], 'seed': c['seed'], 'path': path, 'obs': i}
        if v == 'undecided':
            und += 1
            st.evaluations += 1
            continue
        st.record(case, nontrivial=len(c['draws']) >= 2)
        if v == 'differ':
            st.disagree(case, info, obs)
            ctx.violation(f'C10/native/{path}', 'the Monte-Carlo value is not the mean over the series the native generators returned for the '
                          'declared types', witness(c, path=path, observation=i, seed=c['seed'], np_seed=c['np_seed']), info, obs, how)
    st.extra.update({'undecided': und, 'generation_used_by_engine': gens_used, 'native_types_covered': sorted(types_seen)})
    if only is None and not ctx.quick and len(types_seen & set(NATIVE_ALL)) < len(NATIVE_ALL):
        ctx.stream_broken('native', f'coverage floor: native types not exercised: {sorted(set(NATIVE_ALL) - types_seen)}')
    if st.disagreements:
        ctx.stream_broken('native', f'{len(st.disagreements)} disagreements; first: {json.dumps(st.disagreements[0], default=str)[:700]}')


# ------------------------------------------------------------------------------------------ stream seed
def stream_seed(ctx, only=None):
    st = ctx.stream('seed', 'BIOGEME(seed = s != 0) built twice on the same formula / data: bitwise identical table handed to the engine and '
                    'identical simulated values; a different seed gives a different table when a numpy-based type is used (Halton types are '
                    'seed-independent); non-trivial = RNG-based type; distinct by (types, R, seeds)')
    rng = ctx.sub_rng('seed')
    if only is not None:
        groups = only
    else:
        groups = []
        for i in range(ctx.n(14, 80)):
            k = rng.choice([1, 2, 3])
            types = rng.sample(NATIVE_ALL, k) if rng.random() < 0.3 else rng.sample(NATIVE_RNG, k)
            names = rng.sample(DRAW_NAMES, k)
            draws = list(zip(names, types))
            g = DGen(rng, draws, positive=False, max_depth=2, heads={'exclude': ['NormalCdf']})
            tree = U('MonteCarlo', B('Plus', g.small(2), anchor(rng, draws)))
            sa = rng.randrange(1, 2 ** 31)
            sb = rng.randrange(1, 2 ** 31)
            base = {'tree': tree, 'betas': g.betas, 'rows': g.rows(rng.choice([2, 4])), 'gens': [], 'R': rng.choice([2, 4, 8]),
                    'threads': rng.choice([1, 2]), 'paths': ['sim'], 'want_table': True, 'native': True, 'draws': [list(d) for d in draws]}
            groups.append([dict(base, seed=sa), dict(base, seed=sa), dict(base, seed=sb if sb != sa else sa + 1)])
    flat = [c for g in groups for c in g]
    res = run_eval(ctx, flat, chunk=9)
    how = 'lib/impl/c10_draws.py mode eval on the three cases of witness.group (seeds a, a, b)'
    for gi, g in enumerate(groups):
        r1, r2, r3 = res[3 * gi: 3 * gi + 3]
        c = g[0]
        rngbased = any(t in NATIVE_RNG for _, t in c['draws'])
        case = {'types': [t for _, t in c['draws']], 'R': c['R'], 'seeds': [g[0]['seed'], g[2]['seed']], 'formula': strip_sids(c['tree'])}
        outs = [r.get('sim') if isinstance(r, dict) else None for r in (r1, r2, r3)]
        if any(o is None or 'exc' in o for o in outs):
            ctx.violation('C10/seed/error', 'simulation with a seed failed', {'group': g}, 'values', [o and o.get('exc') for o in outs], how)
            continue
        st.record(case, nontrivial=rngbased)
        if outs[0].get('seed') != g[0]['seed']:
            ctx.violation('C10/seed/not-stored', 'the seed parameter is not taken into account', {'group': g}, g[0]['seed'], outs[0].get('seed'), how)
        v = [[bits(x) for x in o['values']] for o in outs]
        t = [json.dumps(o['table']) for o in outs]
        if v[0] != v[1] or t[0] != t[1]:
            st.disagree(case, 'identical', 'different')
            ctx.violation('C10/seed/not-reproducible', 'the same non-zero seed gives different draws or different results',
                          {'group': g, 'formula': strip_sids(c['tree']), 'seed': g[0]['seed'], 'R': c['R'], 'N': len(c['rows'])},
                          {'values': outs[0]['values']}, {'values': outs[1]['values']}, how)
        if rngbased and t[0] == t[2]:
            ctx.violation('C10/seed/ignored', 'two different seeds give the same numpy-based draws (the seed has no effect)',
                          {'group': g, 'seeds': case['seeds']}, 'different tables', 'identical tables', how)
    if st.disagreements:
        ctx.stream_broken('seed', f'{len(st.disagreements)} disagreements; first: {json.dumps(st.disagreements[0], default=str)[:500]}')


# ------------------------------------------------------------------------------------------ stream integrate
INV_SQRT_2PI = 1.0 / math.sqrt(2.0 * math.pi)


def RV(n):
    return {'h': ['RV', n], 'k': []}


def density(w):
    return B('Times', N(INV_SQRT_2PI), U('Exp', U('UMinus', B('Divide', B('Times', w, w), N(2.0)))))


def logistic(v):
    return B('Divide', N(1.0), B('Plus', N(1.0), U('Exp', U('UMinus', v))))


def trapezoid(f, lo=-14.0, hi=14.0, h=1.0 / 32):
    n = int(round((hi - lo) / h))
    s = 0.5 * (f(lo) + f(hi))
    for i in range(1, n):
        s += f(lo + i * h)
    return s * h


def coef(rng, g, row_names):
    """a coefficient: numeric, parameter or column; returns (tree, function row -> Fraction)"""
    r = rng.random()
    d = dy(rng, lo_bits=3, emin=-2, emax=0)
    if r < 0.4:
        return N(val(d)), (lambda row, v=Fraction(val(d)): v)
    if r < 0.7:
        name = rng.choice(['b_int', 'a9', 'Zeta'])
        if name not in g['betas']:
            g['betas'][name] = {'value': val(d), 'fixed': rng.random() < 0.3, 'lb': None, 'ub': None}
        v = Fraction(g['betas'][name]['value'])
        return {'h': ['Beta', name, g['betas'][name]['fixed']], 'k': []}, (lambda row, v=v: v)
    col = rng.choice(row_names)
    g['uses_rows'] = True
    return V(col), (lambda row, col=col: Fraction(row[col]))


def gen_integrate_case(rng, i):
    w_name = rng.choice(['omega', 'eta', 'w_1'])
    w = RV(w_name)
    g = {'betas': {}, 'uses_rows': False}
    rows = [{'x1': val(dy(rng, lo_bits=3, emin=-2, emax=0)), 'x2': val(dy(rng, lo_bits=3, emin=-2, emax=0, positive=True))} for _ in range(rng.choice([1, 3]))]
    fam = ['poly', 'mgf', 'cos', 'sin', 'gauss', 'logit_sym', 'logit_pair', 'logit_mix', 'nested', 'double'][i % 10]
    exact = True
    if fam == 'poly':
        cs = [coef(rng, g, ['x1', 'x2']) for _ in range(rng.choice([3, 5, 7]))]
        terms = [B('Times', c[0], {'h': ['PowC', k, 0], 'k': [w]}) if k > 0 else c[0] for k, c in enumerate(cs)]
        body = B('Times', {'h': ['MultSum'], 'k': terms}, density(w))
        mom = [1, 0, 1, 0, 3, 0, 15]
        ref = lambda row: sum(c[1](row) * mom[k] for k, c in enumerate(cs))   # noqa: E731
        tree = {'h': ['Integrate', w_name], 'k': [body]}
    elif fam in ('mgf', 'cos', 'sin'):
        b = coef(rng, g, ['x1', 'x2'])
        op = {'mgf': 'Exp', 'cos': 'Cos', 'sin': 'Sin'}[fam]
        tree = {'h': ['Integrate', w_name], 'k': [B('Times', U(op, B('Times', b[0], w)), density(w))]}
        exact = fam == 'sin'
        ref = {'mgf': lambda row: math.exp(float(b[1](row)) ** 2 / 2), 'cos': lambda row: math.exp(-float(b[1](row)) ** 2 / 2),
               'sin': lambda row: Fraction(0)}[fam]
    elif fam == 'gauss':
        mu = val(dy(rng, lo_bits=3, emin=-3, emax=-1))
        sg = rng.choice([0.5, 0.75, 1.0, 1.5, 2.0])
        k = rng.choice([0, 1, 2])
        z = B('Divide', B('Minus', w, N(mu)), N(sg))
        dens = B('Times', N(INV_SQRT_2PI / sg), U('Exp', U('UMinus', B('Divide', B('Times', z, z), N(2.0)))))
        body = B('Times', {'h': ['PowC', k, 0], 'k': [w]}, dens) if k else dens
        tree = {'h': ['Integrate', w_name], 'k': [body]}
        ref = lambda row: [Fraction(1), Fraction(mu), Fraction(mu) ** 2 + Fraction(sg) ** 2][k]   # noqa: E731
    elif fam == 'logit_sym':
        b = coef(rng, g, ['x1', 'x2'])
        tree = {'h': ['Integrate', w_name], 'k': [B('Times', logistic(B('Times', b[0], w)), density(w))]}
        ref = lambda row: Fraction(1, 2)   # noqa: E731
    elif fam == 'logit_pair':
        a, b = coef(rng, g, ['x1', 'x2']), coef(rng, g, ['x1', 'x2'])
        v = B('Plus', a[0], B('Times', b[0], w))
        tree = {'h': ['Integrate', w_name], 'k': [B('Times', B('Plus', logistic(v), logistic(U('UMinus', v))), density(w))]}
        ref = lambda row: Fraction(1)   # noqa: E731
    elif fam == 'logit_mix':
        a, b = coef(rng, g, ['x1', 'x2']), coef(rng, g, ['x1', 'x2'])
        tree = {'h': ['Integrate', w_name], 'k': [B('Times', logistic(B('Plus', a[0], B('Times', b[0], w))), density(w))]}
        exact = False
        ref = lambda row: trapezoid(lambda t: 1.0 / (1.0 + math.exp(-(float(a[1](row)) + float(b[1](row)) * t)))   # noqa: E731
                                    * INV_SQRT_2PI * math.exp(-t * t / 2))
    elif fam == 'nested':
        c2 = coef(rng, g, ['x1', 'x2'])
        inner = {'h': ['Integrate', w_name], 'k': [B('Times', B('Times', w, w), density(w))]}
        tree = B('Plus', B('Times', V('x1'), inner), c2[0])
        g['uses_rows'] = True
        ref = lambda row: Fraction(row['x1']) + c2[1](row)   # noqa: E731
    else:
        # double integral over two different variables: E[(w + e)^2] = 2
        e_name = 'eps' if w_name != 'eps' else 'eps2'
        e = RV(e_name)
        s = B('Plus', w, e)
        inner = {'h': ['Integrate', e_name], 'k': [B('Times', B('Times', s, s), density(e))]}
        tree = {'h': ['Integrate', w_name], 'k': [B('Times', inner, density(w))]}
        ref = lambda row: Fraction(2)   # noqa: E731
    use_rows = g['uses_rows'] or rng.random() < 0.3
    c = {'tree': tree, 'betas': g['betas'], 'rows': rows if use_rows else [], 'gens': [], 'R': 1,
         'paths': ['gv'] + (['sim'] if use_rows and rng.random() < 0.4 else []), 'threads': rng.choice([1, 2]), 'family': fam}
    refs = [ref(row) for row in (rows if use_rows else [{}])] if (use_rows or not g['uses_rows']) else []
    c['ref'] = [[r.numerator, r.denominator] if isinstance(r, Fraction) else float(r) for r in refs]
    c['ref_exact'] = exact
    return c


def stream_integrate(ctx, only=None):
    st = ctx.stream('integrate', 'Integrate(f(omega) * density(omega), omega): polynomial moments (1,0,1,0,3,0,15) with parameter / column '
                    'coefficients, exp / cos / sin(b omega), N(mu, sigma^2) mass / mean / second moment (sigma <= 2), logistic-normal mixtures '
                    '(symmetric = 1/2, complementary pair = 1, general vs trapezoid reference), Integrate inside a formula, double integral; '
                    'get_value_c with and without database, BIOGEME.simulate; |engine - closed form| <= 1e-4 * max(1, |closed form|) in exact '
                    'rationals; all non-trivial; distinct by (family, case)')
    rng = ctx.sub_rng('integrate')
    cases = only if only is not None else [gen_integrate_case(rng, i) for i in range(ctx.n(60, 600))]
    res = run_eval(ctx, cases, chunk=15)
    how = 'lib/impl/c10_draws.py mode eval on witness.case; closed form in witness.ref'
    tol = Fraction(1, 10 ** 4)
    fams = {}
    for c, r in zip(cases, res):
        if 'crash' in r or 'harness_exc' in r or 'build_exc' in r:
            ctx.violation('C10/integrate/crash', 'the runner failed on a well-formed Integrate formula', witness(c), None,
                          r.get('crash') or r.get('harness_exc') or r.get('build_exc'), how)
            continue
        refs = [Fraction(x[0], x[1]) if isinstance(x, list) else Fraction(x) for x in c['ref']]
        for path in c['paths']:
            o = r.get(path)
            if o is None:
                continue
            if 'exc' in o:
                ctx.violation(f'C10/integrate/{c["family"]}/error', 'numerical integration of a smooth, normally decaying integrand failed',
                              witness(c, path=path), c['ref'], o['exc'], how)
                continue
            for i, (v, ref) in enumerate(zip(o['values'], refs)):
                st.record({'family': c['family'], 'formula': strip_sids(c['tree']), 'betas': c['betas'], 'row': (c['rows'] or [None])[i], 'path': path})
                fams[c['family']] = fams.get(c['family'], 0) + 1
                if not isinstance(v, float) or abs(Fraction(v) - ref) > tol * max(1, abs(ref)):
                    st.disagree({'family': c['family'], 'formula': strip_sids(c['tree'])}, float(ref), v)
                    ctx.violation(f'C10/integrate/{c["family"]}', 'Integrate does not return the integral over the real line (closed form, 1e-4 relative)',
                                  witness(c, path=path, observation=i), float(ref), v, how)
    st.extra['families'] = fams
    if st.disagreements:
        ctx.stream_broken('integrate', f'{len(st.disagreements)} disagreements; first: {json.dumps(st.disagreements[0], default=str)[:500]}')


# ------------------------------------------------------------------------------------------ stream derive
class SGen:
    """smooth formulas: every node differentiable in every leaf at the generated points"""

    def __init__(self, rng, draws=()):
        self.rng = rng
        self.betas = {}
        self.draws = list(draws)
        self.used = set()

    def num(self, positive=False):
        return N(val(dy(self.rng, positive=positive, nonzero=True)))

    def beta(self, positive=False):
        name = self.rng.choice(['b1', 'B_2', 'asc', 'mu_x'])
        if name not in self.betas:
            self.betas[name] = {'value': val(dy(self.rng, positive=True) if self.rng.random() < 0.6 else dy(self.rng, nonzero=True)),
                                'fixed': self.rng.random() < 0.3, 'lb': None, 'ub': None}
        if positive and self.betas[name]['value'] <= 0:
            return None
        self.used.add(('beta', name))
        return {'h': ['Beta', name, self.betas[name]['fixed']], 'k': []}

    def var(self, positive=False):
        n = self.rng.choice(['p1', 'p2']) if positive else self.rng.choice(['x1', 'x2', 'p1'])
        self.used.add(('var', n))
        return V(n)

    def leaf(self):
        r = self.rng.random()
        if self.draws and r < 0.2:
            n, t = self.rng.choice(self.draws)
            return {'h': ['Draws', n, t], 'k': []}
        if r < 0.25:
            return self.num()
        if r < 0.65:
            return self.beta()
        return self.var()

    def small(self, d):
        r = self.rng.random()
        if d <= 0 or r < 0.3:
            return self.leaf()
        if r < 0.5:
            return B(self.rng.choice(['Plus', 'Minus']), self.small(d - 1), self.small(d - 1))
        if r < 0.65:
            return B('Times', self.leaf(), self.small(d - 1))
        if r < 0.8:
            return U(self.rng.choice(['Sin', 'Cos']), self.real(d - 1))
        if r < 0.9:
            terms = []
            for _ in range(self.rng.randint(1, 3)):
                terms += [self.beta(), self.var()]
            return {'h': ['LinUtil'], 'k': terms}
        return U('UMinus', self.small(d - 1))

    def pos(self, d):
        r = self.rng.random()
        if d <= 0 or r < 0.2:
            return self.rng.choice([self.num(positive=True), self.var(positive=True), self.beta(positive=True) or self.num(positive=True)])
        if r < 0.45:
            return U('Exp', self.small(d - 1))
        if r < 0.6:
            return B('Plus', self.num(positive=True), {'h': ['PowC', 1, 1], 'k': [self.small(d - 1)]})
        if r < 0.8:
            return B(self.rng.choice(['Plus', 'Times']), self.pos(d - 1), self.pos(d - 1))
        return B('Divide', self.pos(d - 1), self.pos(d - 1))

    def real(self, d):
        r = self.rng.random()
        if d <= 0:
            return self.leaf()
        if r < 0.2:
            return B(self.rng.choice(['Plus', 'Minus']), self.real(d - 1), self.real(d - 1))
        if r < 0.35:
            return B('Times', self.real(d - 1), self.small(d - 1))
        if r < 0.47:
            return B('Divide', self.real(d - 1), self.pos(d - 1))
        if r < 0.57:
            return U('Log', self.pos(d - 1))
        if r < 0.67:
            return U('Exp', self.small(d - 1))
        if r < 0.77:
            e = self.rng.choice([[1, 1], [3, 0], [1, 0], [1, 2]])
            return {'h': ['PowC'] + e, 'k': [self.small(d - 1)]}
        if r < 0.84:
            return {'h': ['PowC'] + self.rng.choice([[-1, 0], [1, -1], [3, -1], [-1, -1]]), 'k': [self.pos(d - 1)]}
        if r < 0.9:
            return B('Power', self.pos(d - 1), self.small(d - 2))
        if r < 0.96:
            return {'h': ['MultSum'], 'k': [self.real(d - 1) for _ in range(self.rng.randint(1, 3))]}
        return self.small(d)

    def rows(self, n):
        return [{'x1': val(dy(self.rng, nonzero=True)), 'x2': val(dy(self.rng, nonzero=True)),
                 'p1': val(dy(self.rng, positive=True)), 'p2': val(dy(self.rng, positive=True))} for _ in range(n)]


def gen_derive_case(rng):
    with_draws = rng.random() < 0.25
    draws = pick_draws(rng, 2, USER_TYPES) if with_draws else []
    g = SGen(rng, draws)
    f = g.real(rng.choice([2, 3, 4]))
    # the target must occur: multiply / add it explicitly
    kind = rng.choice(['beta', 'beta', 'var'])
    if kind == 'beta':
        t = g.beta()
        name = t['h'][1]
    else:
        t = g.var()
        name = t['h'][1]
    f = B('Plus', f, B('Times', t, g.small(1))) if rng.random() < 0.7 else B('Times', B('Plus', f, N(0.5)), t)
    if with_draws:
        f = B('Plus', f, B('Times', t, anchor(rng, draws)))
    der = {'h': ['Derive', name], 'k': [f]}
    shape = rng.random()
    if with_draws:
        tree = U('MonteCarlo', der)
    elif shape < 0.7:
        tree = der
    elif shape < 0.85:
        tree = B('Plus', der, B('Times', g.var(), N(0.25)))
    else:
        tree = B('Times', {'h': ['Derive', name], 'k': [f]}, der)      # two Derive nodes (different objects, same child)
    tags = rng.sample(range(1, 8), len(draws))
    return {'tree': tree, 'betas': g.betas, 'rows': g.rows(rng.choice([1, 3])), 'gens': [[d[1], 'tag', k] for d, k in zip(draws, tags)],
            'R': rng.choice([1, 2, 5]) if with_draws else 1, 'paths': ['gv'] + (['sim'] if rng.random() < 0.3 else []),
            'threads': rng.choice([1, 2]), 'draws': [list(d) for d in draws], 'wrt': [kind, name]}


def json_to_coq_D(j, wrt):
    """Gallina term where every Derive(child, name) node is replaced by the symbolic derivative D w child"""
    if j['h'][0] == 'Derive':
        kind, name = wrt
        assert j['h'][1] == name
        w = f'(WBeta {coq_string(name)})' if kind == 'beta' else f'(WVar {coq_string(name)})'
        return f'(D {w} {json_to_coq_D(j["k"][0], wrt)})'
    from bridge import head_to_coq
    return '(Node ' + head_to_coq(j['h']) + ' [' + '; '.join(json_to_coq_D(k, wrt) for k in j['k']) + '])'


def check_values_D(ctx, stream, cases, relbits=-30, batch=100):
    """values.check_values with the expression text given by the caller (the tree contains D w child)"""
    import re
    header = 'From BV Require Import Model.Expr Model.EvalI Model.Deriv.\nOpen Scope Z_scope. Open Scope string_scope.\n'
    files = {}
    for b in range(0, len(cases), batch):
        items = []
        for c in cases[b:b + batch]:
            y = c['observed'] if isinstance(c['observed'], float) and math.isfinite(c['observed']) else 0.0
            items.append(f'(judge (evalI PhiI_none {c["expr_text"]} {coq_env(c.get("env"))}) {coq_dy(y)} ({relbits}))')
        files[f'{stream}_v{b // batch}'] = header + 'Eval vm_compute in [\n' + ';\n'.join(items) + '].\n'
    outs = ctx.coq_eval_many(files)
    verdicts = []
    for b in range(0, len(cases), batch):
        ok, out = outs[f'{stream}_v{b // batch}']
        n = len(cases[b:b + batch])
        toks = re.findall(r'\b(Agree|Differ|Undecided|ModelNaN|ModelMInf|Huge)\b', out) if ok else []
        if len(toks) != n:
            raise RuntimeError(f'check_values_D: model evaluation failed for {stream} batch {b // batch}: {out[-800:]}')
        for c, t in zip(cases[b:b + batch], toks):
            obs = c['observed']
            if t in ('Undecided', 'Huge', 'ModelMInf'):
                verdicts.append(('undecided', t))
            elif t == 'ModelNaN':
                verdicts.append(('agree', 'both outside') if obs == 'error' else ('undecided', 'outside the domain according to the model'))
            elif not (isinstance(obs, float) and math.isfinite(obs)):
                verdicts.append(('differ', {'model': 'a finite real', 'observed': obs}))
            else:
                verdicts.append(('agree', '') if t == 'Agree' else ('differ', {'model': 'enclosure of D', 'observed': obs}))
    bad = [i for i, v in enumerate(verdicts) if v[0] == 'differ'][:12]
    if bad:
        from values import parse_encl
        items = [f'(match evalI PhiI_none {cases[i]["expr_text"]} {coq_env(cases[i].get("env"))} with '
                 f'VI i => Some (F.toF (I.lower i), F.toF (I.upper i)) | _ => None end)' for i in bad]
        ok, out = ctx.coq_eval(f'{stream}_encl', header + 'Set Printing Width 100000.\n' + ''.join(f'Eval vm_compute in {it}.\n' for it in items))
        encl = re.findall(r'= (Some\s*\(.*?\)|None)\s*:\s*option', ' '.join(out.split()))
        for i, e in zip(bad, encl):
            verdicts[i] = ('differ', {'model_enclosure_of_D': parse_encl(e), 'observed': cases[i]['observed']})
    return verdicts


def stream_derive(ctx, only=None):
    st = ctx.stream('derive', 'Derive(f, name) for smooth random formulas f (+ - * / exp log sin cos x**c x**y bioMultSum bioLinearUtility; '
                    'depth<=4) with respect to a free / fixed parameter or a column, alone, inside a formula, twice, and under MonteCarlo with '
                    'tagged draws; get_value_c per observation and BIOGEME.simulate vs proved enclosure of the symbolic derivative D (Model/Deriv.v); '
                    'non-trivial = verdict decided and f has >= 6 nodes; distinct by (formula, target, observation, path)')
    rng = ctx.sub_rng('derive')
    cases = only if only is not None else corpus_cases('derive') + [gen_derive_case(rng) for _ in range(ctx.n(70, 500))]
    res = run_eval(ctx, cases, chunk=12)
    vcases, meta = [], []
    how = 'lib/impl/c10_draws.py mode eval on witness.case'
    for c, r in zip(cases, res):
        if 'crash' in r or 'harness_exc' in r or 'build_exc' in r:
            ctx.violation('C10/derive/crash', 'the runner failed on a well-formed Derive formula', witness(c), None,
                          r.get('crash') or r.get('harness_exc') or r.get('build_exc'), how)
            continue
        if strip_sids(r['tree_back']) != strip_sids(c['tree']):
            st.disagree(fmt_formula(c['tree']), 'bridge round trip differs', r['tree_back'])
            continue
        benv = {k: v['value'] for k, v in c['betas'].items()}
        text = json_to_coq_D(strip_sids(c['tree']), c['wrt'])
        for path in c['paths']:
            o = r.get(path)
            if o is None:
                continue
            for i, row in enumerate(c['rows']):
                env = {'beta': benv, 'var': row, 'draws': series_env(c, i) if c['draws'] else []}
                if 'exc' in o:
                    vcases.append({'expr_text': text, 'env': env, 'observed': 'error'})
                    meta.append((c, path, i, o['exc']))
                else:
                    v = o['values'][i]
                    vcases.append({'expr_text': text, 'env': env, 'observed': v if isinstance(v, float) else 'error'})
                    meta.append((c, path, i, v))
    verdicts = check_values_D(ctx, 'c10der', vcases, batch=max(10, min(100, len(vcases) // 15 + 1))) if vcases else []
    und = 0
    errs = {}
    for (c, path, i, obs), (v, info) in zip(meta, verdicts):
        case = {'formula': strip_sids(c['tree']), 'wrt': c['wrt'], 'betas': {k: b['value'] for k, b in c['betas'].items()},
                'row': c['rows'][i], 'path': path}
        if isinstance(obs, str) and obs not in ('nan', 'inf', 'minf'):
            errs.setdefault((id(c), path), [c, path, obs, []])[3].append(v)
            continue
        if v == 'undecided':
            und += 1
            st.evaluations += 1
            continue
        st.record(case, nontrivial=tree_size(c['tree']) >= 6)
        if v == 'differ':
            cls = 'bioLinearUtility/' if 'LinUtil' in heads_in(c['tree']) else ''
            if ctx.violation(f'C10/derive/{cls}{c["wrt"][0]}/{path}', 'Derive does not return the partial derivative of its argument with respect '
                             'to the named parameter / variable', witness(c, path=path, observation=i, wrt=c['wrt']), info, obs, how):
                st.disagree(case, info, obs)
    for (c, path, exc_, vs) in errs.values():
        st.record({'formula': strip_sids(c['tree']), 'error': exc_[:80]}, nontrivial=False)
        if vs and not any(x in ('agree', 'undecided') for x in vs):
            ctx.violation(f'C10/derive/{path}/error', 'Derive fails on a formula that is smooth at every observation', witness(c, path=path),
                          'a value per observation', exc_, how)
    st.extra['undecided'] = und
    if st.disagreements:
        ctx.stream_broken('derive', f'{len(st.disagreements)} disagreements; first: {json.dumps(st.disagreements[0], default=str)[:700]}')



# ------------------------------------------------------------------------------------------ stream history
def set_shared_leaf(t, name, leaf):
    """replace every bioDraws leaf called `name` by the ONE dict `leaf` (same sid -> same Python object)"""
    if t['h'][0] == 'Draws' and t['h'][1] == name:
        return leaf
    t['k'] = [set_shared_leaf(k, name, leaf) for k in t['k']]
    return t


def hist_to_coq(j, kinds):
    """Gallina term of the ORACLE tree: Derive(child, name) -> D w child, Integrate(...) -> its closed form"""
    from bridge import head_to_coq
    h = j['h']
    if h[0] == 'Derive':
        w = f'(WBeta {coq_string(h[1])})' if kinds[h[1]] == 'beta' else f'(WVar {coq_string(h[1])})'
        return f'(D {w} {hist_to_coq(j["k"][0], kinds)})'
    if h[0] == 'Integrate':
        return hist_to_coq(j['closed'], kinds)
    return '(Node ' + head_to_coq(h) + ' [' + '; '.join(hist_to_coq(k, kinds) for k in j['k']) + '])'


HIST_SCRIPTS = [
    # a model simulated for the first time after another one, sharing the object, was built (both orders)
    [['new', 'P'], ['new', 'Q'], ['sim', 'P', 0], ['sim', 'Q', 1], ['sim', 'P', 1]],
    [['new', 'Q'], ['new', 'P'], ['sim', 'Q', 0], ['sim', 'P', 1], ['sim', 'Q', 1]],
    [['new', 'P'], ['new', 'S'], ['sim', 'P', 1], ['sim', 'S', 0]],
    [['new', 'S'], ['new', 'P'], ['new', 'Q'], ['sim', 'S', 0], ['sim', 'Q', 1], ['sim', 'P', 0]],
    [['new', 'P'], ['sim', 'P', 0], ['new', 'Q'], ['sim', 'P', 1], ['sim', 'Q', 0], ['sim', 'P', 0]],
    # identifiers prepared once and reused, with a separate evaluation (temporary identifiers) in between
    [['prep', 'P'], ['gvp', 'P', 0], ['gvc', 'S', 1], ['gvp', 'P', 1]],
    [['prep', 'P'], ['gvc', 'S', 0], ['gvp', 'P', 0]],
    [['prep', 'Q'], ['gvp', 'Q', 1], ['gvc', 'P', 0], ['gvp', 'Q', 0]],
    [['prep', 'P'], ['gvc', 'Q', 1], ['gvp', 'P', 1], ['gvc', 'S', 0], ['gvp', 'P', 0]],
    [['fn', 'P', 0], ['gvc', 'S', 1], ['fn', 'P', 1]],
    [['fn', 'Q', 1], ['gvc', 'P', 0], ['fn', 'Q', 0], ['gvc', 'S', 0], ['fn', 'Q', 1]],
    # mixtures
    [['new', 'P'], ['gvc', 'S', 1], ['sim', 'P', 0], ['gvc', 'Q', 0], ['sim', 'P', 1]],
    [['new', 'P'], ['prep', 'Q'], ['sim', 'P', 0], ['gvp', 'Q', 1], ['new', 'S'], ['gvp', 'Q', 0], ['sim', 'P', 1]],
    [['prep', 'S'], ['new', 'P'], ['gvp', 'S', 0], ['sim', 'P', 1], ['gvp', 'S', 1]],
    [['gvc', 'P', 0], ['new', 'Q'], ['gvc', 'S', 1], ['sim', 'Q', 0], ['gvc', 'P', 1]],
]


def random_hist_script(rng, models):
    script, built, prepped = [], set(), set()
    for _ in range(rng.randint(4, 7)):
        m = rng.choice(models)
        ops = ['new', 'gvc', 'prep']
        if m in built:
            ops += ['sim', 'sim']
        if m in prepped:
            ops += ['gvp', 'gvp']
        op = rng.choice(ops)
        if op == 'new':
            built.add(m)
            script.append(['new', m])
        elif op == 'prep':
            prepped.add(m)
            script.append(['prep', m])
        else:
            script.append([op, m, rng.choice([0, 1])])
    if not any(s_[0] in ('sim', 'gvp') for s_ in script):
        m = rng.choice(models)
        script += [['new', m], ['sim', m, 1]]
    return script


def gen_history_case(rng, i):
    kind = ['leaf', 'mc', 'derive', 'integrate'][i % 4]
    names = rng.sample(DRAW_NAMES, 3)
    xi, d1, d2 = names                        # xi: the shared variable; d1 only in P, d2 only in Q (when used)
    tys = rng.sample(USER_TYPES[:5], 3)
    tags = rng.sample(range(1, 7), 3)
    gens = [[t, 'tag', k] for t, k in zip(tys, tags)]
    rng.shuffle(gens)
    DX, D1, D2 = (xi, tys[0]), (d1, tys[1]), (d2, tys[2])
    leaf = lambda d: {'h': ['Draws', d[0], d[1]], 'k': []}      # noqa: E731
    A = {'h': ['Beta', 'A_first', False], 'k': []}
    Z = {'h': ['Beta', 'z_last', False], 'k': []}
    extra = {'A_first': {'value': 0.75, 'fixed': False, 'positive': True, 'lb': None, 'ub': None},
             'z_last': {'value': -1.25, 'fixed': False, 'positive': False, 'lb': None, 'ub': None}}
    kinds = {}
    sid = 10 ** 6
    q_extra_draw = rng.random() < 0.5
    if kind in ('leaf', 'mc'):
        g = DGen(rng, [DX], max_depth=rng.choice([1, 2]), share_p=0.0, heads={'exclude': ['NormalCdf', 'LogLogit', 'Elem']})
        betas = g.betas
        if kind == 'leaf':
            shared = dict(leaf(DX), sid=sid)
            P = U('MonteCarlo', B('Plus', g.small(g.max_depth), {'h': ['MultSum'], 'k': [B('Times', N(0.25), leaf(D1)), B('Times', N(2.5), leaf(DX)),
                                                                                  B('Times', A, V('x1'))]}))
            q_in = B('Times', leaf(DX), leaf(DX))
            if q_extra_draw:
                q_in = B('Plus', q_in, B('Times', N(0.5), leaf(D2)))
            Q = U('MonteCarlo', B('Plus', q_in, B('Times', Z, g.small(1))))
            P, Q = set_shared_leaf(P, xi, shared), set_shared_leaf(Q, xi, shared)
            formulas, order = {'P': P, 'Q': Q}, ['P', 'Q']
        else:
            S = U('MonteCarlo', B('Plus', g.small(g.max_depth), B('Times', N(1.5), leaf(DX))))
            S['sid'] = sid
            P = B('Plus', S, U('MonteCarlo', B('Plus', B('Times', N(0.75), leaf(D1)), B('Times', A, V('x1')))))
            Q = B('Times', S, Z)
            if q_extra_draw:
                Q = B('Plus', Q, U('MonteCarlo', B('Times', leaf(D2), leaf(DX))))
            formulas, order = {'S': S, 'P': P, 'Q': Q}, ['S', 'P', 'Q']
        rows = g.rows(1)
    elif kind == 'derive':
        while True:
            # bioLinearUtility under Derive is the known engine finding C10/derive/bioLinearUtility (stream derive): not repeated here
            g = SGen(rng)
            f = g.real(rng.choice([2, 3]))
            if 'LinUtil' not in heads_in(f):
                break
        tk = rng.choice(['beta', 'var', 'var'])
        t = g.beta() if tk == 'beta' else g.var()
        name = t['h'][1]
        f = B('Plus', f, B('Times', B('Times', t, t), g.var(positive=True)))
        S = {'h': ['Derive', name], 'k': [f], 'sid': sid}
        kinds[name] = tk
        betas = g.betas
        P = B('Plus', B('Times', A, V('x2')), S)
        if rng.random() < 0.6:
            P = B('Plus', P, U('MonteCarlo', B('Times', N(0.5), leaf(D1))))
        Q = B('Times', S, Z)
        if q_extra_draw:
            Q = B('Plus', Q, U('MonteCarlo', B('Times', leaf(D2), V('p1'))))
        formulas, order = {'S': S, 'P': P, 'Q': Q}, ['S', 'P', 'Q']
        rows = g.rows(1)
    else:
        g = {'betas': {}, 'uses_rows': False}
        w_name = rng.choice(['omega', 'eta'])
        w = RV(w_name)
        cs = [coef(rng, g, ['x1', 'x2']) for _ in range(3)]
        body = B('Times', {'h': ['MultSum'], 'k': [cs[0][0], B('Times', cs[1][0], w), B('Times', cs[2][0], B('Times', w, w))]}, density(w))
        S = {'h': ['Integrate', w_name], 'k': [body], 'sid': sid, 'closed': B('Plus', cs[0][0], cs[2][0])}
        betas = g['betas']
        for b in betas.values():
            b.setdefault('positive', b['value'] > 0)
        P = B('Plus', B('Plus', S, B('Times', A, V('x1'))), U('MonteCarlo', B('Times', N(0.5), leaf(D1))))
        Q = B('Times', S, Z)
        if q_extra_draw:
            Q = B('Plus', Q, U('MonteCarlo', leaf(D2)))
        formulas, order = {'S': S, 'P': P, 'Q': Q}, ['S', 'P', 'Q']
        rows = [{'x1': val(dy(rng, nonzero=True)), 'x2': val(dy(rng, positive=True))}]
    betas = dict(betas)
    betas.update(extra)
    r = rng.random()
    script = [list(s_) for s_ in rng.choice(HIST_SCRIPTS)] if r < 0.6 else random_hist_script(rng, order)
    if 'S' not in formulas:
        script = [[s_[0], 'Q' if s_[1] == 'S' else s_[1]] + s_[2:] for s_ in script]
    if not any(s_[0] == 'fn' for s_ in script) and rng.random() < 0.6:
        # more than one observation (a function created by create_function returns a sum: one row only)
        if kind in ('leaf', 'mc', 'derive'):
            rows = rows + g.rows(rng.choice([1, 2]))
        else:
            rows = rows + [{'x1': val(dy(rng, nonzero=True)), 'x2': val(dy(rng, positive=True))}]
    v0 = {k: v['value'] for k, v in betas.items()}
    v1 = {k: (v['value'] if v['fixed'] else (v['value'] + 0.25 if v['value'] > 0 else v['value'] - 0.25)) for k, v in betas.items()}
    return {'kind': kind, 'formulas': formulas, 'order': order, 'shared_sid': sid, 'betas': betas, 'rows': rows, 'gens': gens,
            'R': rng.choice([1, 2, 5]), 'threads': rng.choice([1, 2]), 'script': script, 'valsets': [v0, v1], 'wrt_kinds': kinds}


def stream_history(ctx, only=None):
    st = ctx.stream('history', 'HISTORIES on one database: formulas S / P / Q sharing ONE object (a bioDraws leaf, or a MonteCarlo / Derive / '
                    'Integrate node), P and Q declaring different extra draw variables and parameters so that the slot of the shared '
                    'variable / the index of the differentiated literal differs; scripts of: build a model, simulate (both orders, first '
                    'simulation after another model was built), get_value_c with temporary identifiers, prepare once + get_value_c('
                    'prepare_ids=False), a function created once and called again; two value sets; every value vs the proved enclosure of '
                    'its own formula (Derive -> symbolic D, Integrate -> closed form); non-trivial = a step evaluates a formula after another '
                    'formula sharing the object was built / prepared / evaluated; distinct by case')
    rng = ctx.sub_rng('history')
    cases = only if only is not None else corpus_cases('history') + [gen_history_case(rng, i) for i in range(ctx.n(64, 640))]
    res = ctx.impl_cases('c10_history.py', cases, chunk=8)
    how = 'lib/impl/c10_history.py on witness.case (formulas built with one cache: the node with sid = shared_sid is one Python object)'
    vcases, meta = [], []
    kinds_seen = {}
    for c, r in zip(cases, res):
        wit = {'case': c, 'script': c['script'], 'formulas': {m: strip_closed(c['formulas'][m]) for m in c['order']},
               'generators': c['gens'], 'N': len(c['rows']), 'R': c['R'], 'betas': c['betas'], 'valsets': c['valsets'], 'rows': c['rows']}
        if 'crash' in r or 'harness_exc' in r or 'build_exc' in r:
            ctx.violation('C10/history/crash', 'a history on well-formed formulas sharing an object could not be run', wit, None,
                          r.get('crash') or r.get('harness_exc') or r.get('build_exc'), how)
            continue
        if any(strip_sids(r['back'][m]) != strip_sids(c['formulas'][m]) for m in c['order']):
            st.disagree({'script': c['script']}, 'bridge round trip differs', None)
            continue
        kinds_seen[c['kind']] = kinds_seen.get(c['kind'], 0) + 1
        touched = set()
        late = False
        for s_ in c['script']:
            if s_[0] in ('sim', 'gvp', 'fn') and touched - {s_[1]}:
                late = True
            touched.add(s_[1])
        st.record({'kind': c['kind'], 'script': c['script'], 'formulas': wit['formulas'], 'R': c['R']}, nontrivial=late)
        tag = {g[0]: g[2] for g in c['gens']}
        wk = dict(c.get('wrt_kinds') or {})
        for step, (s_, vals) in enumerate(zip(c['script'], r['steps'])):
            if vals == 'ok':
                continue
            m = s_[1]
            tree = c['formulas'][m]
            text = hist_to_coq(tree, wk)
            ds = draws_of(strip_sids(tree))
            k = s_[2] if len(s_) > 2 else 0
            if isinstance(vals, str):
                # an exception: the history stops here; regular everywhere according to the model => violation
                for i, row in enumerate(c['rows']):
                    env = {'beta': c['valsets'][k], 'var': row, 'draws': [{n: tag_value(tag[ty], i, rr) for n, ty in ds} for rr in range(c['R'])]}
                    vcases.append({'expr_text': text, 'env': env, 'observed': 'error'})
                    meta.append((c, wit, step, s_, i, vals, 'exc'))
                break
            if isinstance(vals, dict):
                vals = [vals['sum']]
            if len(vals) != len(c['rows']):
                ctx.violation('C10/history/count', f'step {step} {s_}: wrong number of values', dict(wit, step=step), len(c['rows']), vals, how)
                continue
            for i, (row, v) in enumerate(zip(c['rows'], vals)):
                env = {'beta': c['valsets'][k], 'var': row, 'draws': [{n: tag_value(tag[ty], i, rr) for n, ty in ds} for rr in range(c['R'])]}
                vcases.append({'expr_text': text, 'env': env, 'observed': v if isinstance(v, float) else 'error'})
                meta.append((c, wit, step, s_, i, v, None))
    verdicts = check_values_D(ctx, 'c10hist', vcases, batch=max(10, min(100, len(vcases) // 15 + 1))) if vcases else []
    und = 0
    excs = {}
    for (c, wit, step, s_, i, obs, flag), (v, info) in zip(meta, verdicts):
        if flag == 'exc':
            excs.setdefault((id(c), step), [c, wit, step, s_, obs, []])[5].append(v)
            continue
        if v == 'undecided':
            und += 1
            continue
        st.evaluations += 1
        if v == 'differ':
            if ctx.violation(f'C10/history/{c["kind"]}/{s_[0]}-{s_[1]}/{hist_cause(c, step)}',
                             f'in the history {c["script"]} step {step} {s_} returns a value outside the enclosure of its own formula at that '
                             'value set: identifiers (draw slot / literal index / parameter) left by another model or evaluation sharing an '
                             'object were used', dict(wit, step=step, observation=i), info, obs, how):
                st.disagree({'kind': c['kind'], 'script': c['script'], 'step': step}, info, obs)
    for (c, wit, step, s_, exc_, vs) in excs.values():
        if vs and not any(x in ('agree', 'undecided') for x in vs):
            if ctx.violation(f'C10/history/{c["kind"]}/{s_[0]}-{s_[1]}/{hist_cause(c, step)}/error',
                             f'in the history {c["script"]} step {step} {s_} fails although its formula is regular at every observation and draw',
                             dict(wit, step=step), 'a value per observation', exc_, how):
                st.disagree({'kind': c['kind'], 'script': c['script'], 'step': step}, 'a value', exc_)
    st.extra.update({'undecided': und, 'shared_object_kinds': kinds_seen})
    if st.disagreements:
        ctx.stream_broken('history', f'{len(st.disagreements)} disagreements; first: {json.dumps(st.disagreements[0], default=str)[:700]}')


def needs_draws(t):
    return t['h'][0] == 'Draws' or t['h'] == ['Un', 'MonteCarlo'] or any(needs_draws(k) for k in t['k'])


def hist_cause(c, step):
    """what happened to the formula of a prepare-once step (gvp / fn) since its identifiers were set: '' for the other steps.
    after-draws-regenerated : another formula declaring another set of draw variables had its identifiers (and so the table
                              database.theDraws) built on the same database, and this formula reads draws
    after-other-model       : another formula sharing the object had its identifiers set PERSISTENTLY (model built / simulated,
                              prepare(), a created function called)"""
    s_ = c['script'][step]
    if s_[0] not in ('gvp', 'fn'):
        return 'plain'
    m = s_[1]
    start = None
    for j in range(step, -1, -1):
        t = c['script'][j]
        if t[1] == m and (t[0] == 'prep' if s_[0] == 'gvp' else t[0] == 'fn'):
            start = j          # fn: the FIRST fn step created the function; gvp: the LAST prepare counts
            if s_[0] == 'gvp':
                break
    if start is None:
        return 'plain'
    mine = sorted(draws_of(strip_sids(c['formulas'][m])))
    regen = other = False
    for t in c['script'][start + 1: step]:
        if t[1] == m:
            continue
        tr = c['formulas'][t[1]]
        if t[0] in ('new', 'prep', 'gvc', 'fn') and needs_draws(tr) and needs_draws(c['formulas'][m]) \
                and sorted(draws_of(strip_sids(tr))) != mine:
            regen = True
        if t[0] in ('new', 'sim', 'prep', 'fn'):
            other = True
    if regen:
        return 'after-draws-regenerated' + ('+other-model' if other else '')
    return 'after-other-model' if other else 'plain'


def strip_closed(t):
    return {'h': t['h'], 'k': [strip_closed(k) for k in t['k']]}

# ------------------------------------------------------------------------------------------ corpus / driver
def corpus_cases(stream):
    out = []
    d = VERIF / 'corpus' / 'C10'
    if d.is_dir():
        for p in sorted(d.glob(f'{stream}_*.json')):
            try:
                data = json.loads(p.read_text())
            except Exception:  # noqa
                continue
            out += data if isinstance(data, list) else [data]
    return out


def run(ctx):
    ctx.assumptions += ASSUME
    ctx.trusted += TRUSTED
    import time
    t0 = time.time()
    ctx.build()
    walls = {'build': round(time.time() - t0, 1)}

    def timed(name, f, *a):
        t = time.time()
        r = f(ctx, *a)
        walls[name] = round(time.time() - t, 1)
        return r
    tcases = timed('mc', stream_mc)
    tcases = tcases + timed('multi', stream_multi)
    timed('table', stream_table, tcases)
    timed('native', stream_native)
    timed('seed', stream_seed)
    timed('integrate', stream_integrate)
    timed('derive', stream_derive)
    timed('history', stream_history)
    ctx.notes['stream_wall_s'] = walls


def replay(ctx, path):
    w = json.load(open(path))
    wit = w.get('witness') or {}
    key = w.get('key', '')
    n0 = len(ctx.violations) + len(ctx.known_hits)
    if 'group' in wit:
        stream_seed(ctx, only=[wit['group']])
    elif key.startswith('C10/history') and 'case' in wit:
        stream_history(ctx, only=[wit['case']])
    elif key.startswith('C10/multi') and 'case' in wit:
        t = stream_multi(ctx, only=[wit['case']])
        stream_table(ctx, t, only=[])
    elif key.startswith('C10/mc') and 'case' in wit:
        stream_mc(ctx, only=[wit['case']])
    elif key.startswith('C10/native') and 'case' in wit:
        stream_native(ctx, only=[wit['case']])
    elif key.startswith('C10/integrate') and 'case' in wit:
        stream_integrate(ctx, only=[wit['case']])
    elif key.startswith('C10/derive') and 'case' in wit:
        stream_derive(ctx, only=[wit['case']])
    elif key.startswith(('C10/table', 'C10/reserved', 'C10/shadow')):
        if 'case' in wit:
            t = stream_mc(ctx, only=[wit['case']])
            stream_table(ctx, t, only=[])
        else:
            ctx.stream('table', 'replay')
            stream_table(ctx, [], only=[wit])
    else:
        print('replay: this file names an obligation / stream; re-run ./check C10')
        return 2
    still = len(ctx.violations) + len(ctx.known_hits) - n0
    print(json.dumps({'still_fails': bool(still), 'violations_now': [v['key'] for v in ctx.violations], 'known': [k['key'] for k in ctx.known_hits]}))
    import shutil
    shutil.rmtree(ctx.scratch, ignore_errors=True)
    return 1 if still else 0
