"""C16 -- Catalogs span the product of their controllers; operators stay inside it.

tie A : Gen/Config.v regenerated from configuration.py / controller.py (props/c16_extract.py),
        theorems of Properties/C16.v are about the generated definitions; stream `config_gen`
        validates the generated definitions against the implementation.
tie B : Model/Catalog.v (hand model) compared with the library on generated structures
        (streams structure / configure / operators / history), property oracles evaluated directly on
        the implementation's output; stream malformed: two Controller objects of one name must be
        refused wherever they sit, one shared object must stay accepted (model all_controllers, T16j).
        Stream history: objects are created between moves of the controllers (every entry point) and
        every object is read after every step without selecting a configuration again.
"""
import itertools
import json
import math

from py2v import Untranslatable
from common import coq_list, parse_bools
import common
import bridge
from props import c16_extract

ASSUME = [
    'a Python set of Configuration objects / of id strings is modelled by a duplicate-free list; iteration order '
    'over it is arbitrary (theorems hold for every permutation)',
    'random.choices (modify_random_controllers) is an arbitrary oracle: theorems hold for every list of known '
    'controller names; the streams replay the recorded outcome',
    'a formula accepted by the library has one Controller object per controller name (T16j: get_all_controllers / '
    'merge_controllers, extracted from the source, refuse two objects of one name wherever they sit; stream malformed); '
    'cexpr identifies a controller by its name; catalogs of one controller list the same specification names (checked by '
    'Catalog.__init__), specification names are pairwise distinct and names are free of ; and :',
    'histories: every change of a controller goes through Controller.set_index (set_name, reset_selection, '
    'modify_controller, set_configuration, set_controller, operators, iterator); catalogs and formulas hold no '
    'selection state of their own -- T16i quantifies over every legal controller state, the stream `history` checks '
    'the library against it after every step of generated histories',
    'str.split / sorted / dict / set semantics of CPython as modelled in Model/Catalog.v (py_split, py_sorted_sel, '
    'dict_set); strings are ASCII',
]
TRUSTED = [
    'tie A extractor /verif/lib/props/c16_extract.py (py2v for get_string_id, modify_controller with set_index '
    'inlined, the_modification; normalised-AST template match, fail-closed, for the selections setter, '
    '__check_list_validity, from_string, from_dict, set_index, merge_controllers, Controller.__eq__/__hash__/__lt__, '
    'both get_all_controllers and Expression.set_central_controller (no hand-down)); validated on this run by '
    'streams config_gen / malformed / history',
    'object identity of controllers is modelled by an integer per Controller object assigned by the harness '
    '(skeleton otree)',
    'tie B: hand model Model/Catalog.v, tied by the sampled correspondence streams structure/configure/operators',
    'bio_bridge.expr_to_json (reads the selected member of every catalog) and the harness generators',
]


# =========================================================================== tie A
def gen_all(ctx):
    ctx.gen('Config', c16_extract.gen_config_text())


# =========================================================================== small helpers
def dyadic(v):
    x = float(v)
    if x == 0:
        return [0, 0]
    n, d = x.as_integer_ratio()
    e = -(d.bit_length() - 1)
    while n % 2 == 0:
        n //= 2
        e += 1
    return [n, e]


def coq_string(s):
    return common.coq_string(s) + '%string'


def cz(n):
    return f'({n})%Z' if n < 0 else f'{n}%Z'


def canon_id(sels):
    """the identifier of a configuration, computed by the harness: sorted by (controller, selection)"""
    return ';'.join(f'{c}:{s}' for c, s in sorted((tuple(x) for x in sels)))


def coq_sels(sels):
    return coq_list([f'({coq_string(a)}, {coq_string(b)})' for a, b in sels])


def coq_strs(l):
    return coq_list([coq_string(s) for s in l])


def ascii_ok(s):
    return all(32 <= ord(c) < 127 for c in s)


# =========================================================================== structures
BINOPS = ['Plus', 'Minus', 'Times', 'Divide', 'Power', 'BMin', 'BMax', 'And', 'Or', 'Eq', 'Ne', 'Le', 'Ge', 'Lt', 'Gt']
UNOPS = ['UMinus', 'Exp', 'Log', 'Logzero', 'Sin', 'Cos', 'NormalCdf']
VALUE_BIN = ['Plus', 'Minus', 'Times', 'BMin', 'BMax']
VALUE_UN = ['UMinus', 'Sin', 'Cos']
CTRL_NAMES = ['c', 'c1', 'c10', 'C2', 'a b', 'a-b', 'a_b', 'Z', 'alt', 'k', 'kk', 'K', '']
SPEC_NAMES = ['lin', 'log', 'sq', 's1', 's2', 'A', 'b c', 'x-y', '0', 'LIN', 'l', '', 'no_seg', 'generic']
SEG_VARS = ['inc', 'male', 'age', 'lang']
CATEGORIES = ['low', 'mid', 'high', 'f', 'm', 'x y', 'other']


class Gen:
    """seeded generator of structure specifications (see impl/c16_catalog.py for the format)"""

    def __init__(self, rng, value_mode=False):
        self.rng = rng
        self.value_mode = value_mode
        self.nleaf = 0

    def leaf(self):
        r = self.rng
        self.nleaf += 1
        k = r.random()
        if k < 0.45:
            i = r.randint(1, 6)  # status and value are functions of the name (one parameter, one definition)
            return {'t': 'beta', 'n': f'b{i}', 'fixed': i >= 5, 'v': [0, 1, -1, 0.5, 2, -0.25, 3][i]}
        if k < 0.75 and not self.value_mode:
            return {'t': 'var', 'n': r.choice(['x', 'y', 'z', 'tt', 'cost'])}
        return {'t': 'num', 'v': r.choice([0, 1, 2, -1, 3, 0.5, 10, -4])}

    def top(self, node):
        """sometimes make MonteCarlo (over a draw) or PanelLikelihoodTrajectory the TOP node of an
        alternative / operand: operations that search a class must see the selected node itself"""
        r = self.rng
        if self.value_mode or r.random() >= 0.18:
            return node
        if r.random() < 0.75:
            d = {'t': 'draws', 'n': r.choice(['xi', 'eta']), 'type': r.choice(['NORMAL', 'UNIFORM'])}
            return {'t': 'un', 'op': 'MonteCarlo', 'k': [{'t': 'bin', 'op': r.choice(['Times', 'Plus']), 'k': r.sample([node, d], 2)}]}
        return {'t': 'un', 'op': 'PanelTraj', 'k': [node]}

    def combine(self, parts, depth=0):
        """one expression containing every element of parts exactly once"""
        r = self.rng
        parts = list(parts)
        if not parts:
            parts = [self.leaf()]
        # sprinkle leaves
        for _ in range(r.randint(0, 2)):
            parts.append(self.leaf())
        r.shuffle(parts)
        while len(parts) > 1 or (depth == 0 and r.random() < 0.3):
            k = r.random()
            if k < 0.5 and len(parts) >= 2:
                a, b = parts.pop(), parts.pop()
                op = r.choice(VALUE_BIN if self.value_mode else BINOPS)
                parts.append({'t': 'bin', 'op': op, 'k': [a, b]})
            elif k < 0.65:
                a = parts.pop()
                parts.append({'t': 'un', 'op': r.choice(VALUE_UN if self.value_mode else UNOPS), 'k': [a]})
            elif k < 0.72:
                a = parts.pop()
                parts.append({'t': 'powc', 'c': r.choice([2, 3]), 'k': [a]})
            elif k < 0.86 and len(parts) >= 2:
                n = r.randint(2, min(4, len(parts)))
                ks = [parts.pop() for _ in range(n)]
                parts.append({'t': 'msum', 'k': ks})
            elif k < 0.94 and len(parts) >= 2 and not self.value_mode:
                n = r.randint(1, min(3, len(parts) - 1))
                key = parts.pop()
                ks = [parts.pop() for _ in range(n)]
                keys = r.sample([0, 1, 2, 3, 5, 8], n)
                parts.append({'t': 'elem', 'keys': keys, 'key': key, 'k': ks})
            elif len(parts) >= 3 and not self.value_mode:
                n = r.randint(2, min(3, len(parts) - 1))
                choice = parts.pop()
                util = [parts.pop() for _ in range(n)]
                keys = r.sample([1, 2, 3, 4], n)
                av = None
                if r.random() < 0.5:
                    av = [parts.pop() if parts and r.random() < 0.3 else self.leaf() for _ in range(n)]
                parts.append({'t': 'loglogit', 'keys': keys, 'choice': choice, 'util': util, 'av': av})
            r.shuffle(parts)
            depth += 1
        return parts[0]

    def structure(self, small=False):
        r = self.rng
        nctrl = r.choice([1, 1, 2, 2, 2, 3, 3, 4]) if not small else r.choice([1, 2, 2, 3])
        cnames = r.sample(CTRL_NAMES, nctrl)
        spec = {'controllers': {}, 'helpers': []}
        cats = []  # catalog descriptors, in nesting order: dict(name, ctrl, specs, ctor, explicit)
        used_cat_names = set()
        for j, cn in enumerate(cnames):
            size = r.choice([1, 2, 2, 3, 3, 4])
            specs = r.sample(SPEC_NAMES, size)
            ncat = r.choice([1, 1, 2, 3])
            explicit = ncat > 1 or r.random() < 0.4
            if explicit:
                spec['controllers'][cn] = specs
            for m in range(ncat):
                # a catalog with its own controller is named like the controller
                name = cn if not explicit else r.choice([f'{cn}#{m}', f'cat{j}{m}', cn + 'x' * (m + 1)])
                if name in used_cat_names:
                    name = f'{name}~{j}{m}'
                used_cat_names.add(name)
                cats.append({'name': name, 'ctrl': cn, 'explicit': explicit, 'specs': specs,
                             'ctor': r.choice(['list', 'dict'])})
        # helper generated catalogs (not in value mode: segmentations use variables)
        helper_parts = []
        if not self.value_mode and not small:
            gnames = ['G', 'H seg']
            r.shuffle(gnames)
            if r.random() < 0.35:
                h = self.helper('seg', gnames.pop())
                spec['helpers'].append(h)
                for bi in range(len(h['betas'])):
                    if r.random() < 0.8 or bi == 0:
                        helper_parts.append({'t': 'seg', 'h': len(spec['helpers']) - 1, 'b': bi})
            if r.random() < 0.35:
                h = self.helper('gas', gnames.pop())
                spec['helpers'].append(h)
                for bi in range(len(h['betas'])):
                    for alt in h['alts']:
                        if r.random() < 0.7 or (bi == 0 and alt == h['alts'][0]):
                            helper_parts.append({'t': 'gas', 'h': len(spec['helpers']) - 1, 'b': bi, 'alt': alt})
        # nesting: catalog i may sit inside a member of an earlier catalog
        r.shuffle(cats)
        slots = {('root', 0): []}
        for i, c in enumerate(cats):
            for k in range(len(c['specs'])):
                slots[(i, k)] = []
        for i, c in enumerate(cats):
            if i > 0 and r.random() < 0.4:
                j = r.randrange(i)
                k = r.randrange(len(cats[j]['specs']))
                slots[(j, k)].append(('cat', i))
            else:
                slots[('root', 0)].append(('cat', i))
        for hp in helper_parts:
            if cats and r.random() < 0.3:
                j = r.randrange(len(cats))
                k = r.randrange(len(cats[j]['specs']))
                slots[(j, k)].append(('node', hp))
            else:
                slots[('root', 0)].append(('node', hp))
        built = {}

        def build_cat(i):
            if i in built:
                return built[i]
            c = cats[i]
            members = []
            for k, sname in enumerate(c['specs']):
                parts = [build_cat(x) if kind == 'cat' else x for kind, x in slots[(i, k)]]
                members.append([sname, self.top(self.combine(parts, depth=1))])
            node = {'t': 'cat', 'name': c['name'], 'ctrl': c['ctrl'] if c['explicit'] else None,
                    'm': members, 'ctor': c['ctor']}
            built[i] = node
            return node

        # deeper catalogs first (indices only nest into smaller indices)
        for i in reversed(range(len(cats))):
            build_cat(i)
        root_parts = [built[x] if kind == 'cat' else x for kind, x in slots[('root', 0)]]
        spec['formula'] = self.combine(root_parts)
        return spec

    def helper(self, kind, gname):
        r = self.rng
        nb = r.choice([1, 2])
        betas = [[n, r.random() < 0.2, r.choice([0, 0.5, -1])] for n in r.sample(['asc', 'b_time', 'b_cost'], nb)]
        nseg = r.choice([1, 2, 2, 3]) if kind == 'seg' else r.choice([0, 0, 1, 2])
        segs = []
        for v in r.sample(SEG_VARS, nseg):
            ncat = r.choice([2, 2, 3])
            vals = r.sample([0, 1, 2, 3, 4, 6, -1], ncat)
            cs = r.sample(CATEGORIES, ncat)
            m = [[vals[i], cs[i]] for i in range(ncat)]
            seg = {'var': v, 'map': m, 'ref': r.choice([None, cs[r.randrange(ncat)]])}
            segs.append(seg)
        h = {'kind': kind, 'gname': gname, 'betas': betas, 'segs': segs,
             'max': r.choice([0, 1, 1, 2, 3, 5])}
        if kind == 'gas':
            h['alts'] = r.sample(['car', 'bus', 'train', 'walk'], r.choice([2, 2, 3]))
            h['none'] = r.random() < 0.5
        return h


# ------------------------------------------------------------------ harness-side expansion
def seg_reference(seg):
    return seg['ref'] if seg.get('ref') is not None else seg['map'][0][1]


def py_segmented_beta(beta, segs):
    """closed form of Segmentation.segmented_beta as a catalog-free spec node"""
    name, fixed, v = beta
    terms = [{'t': 'beta', 'n': name, 'fixed': fixed, 'v': v}]
    for s in segs:
        ref = seg_reference(s)
        for val, cat in s['map']:
            if cat == ref:
                continue
            terms.append({'t': 'bin', 'op': 'Times', 'k': [
                {'t': 'beta', 'n': f'{name}_{cat}', 'fixed': fixed, 'v': v},
                {'t': 'bin', 'op': 'Eq', 'k': [{'t': 'var', 'n': s['var']}, {'t': 'num', 'v': val}]}]})
    return {'t': 'msum', 'k': terms}


def py_seg_catalog(h, beta):
    segs = h['segs']
    members = []
    for comb in itertools.product([False, True], repeat=len(segs)):
        if sum(comb) > h['max']:
            continue
        kept = [s for keep, s in zip(comb, segs) if keep]
        name = 'no_seg' if not kept else '-'.join(s['var'] for s in kept)
        members.append([name, py_segmented_beta(beta, kept)])
    return {'t': 'cat', 'name': f'segmented_{beta[0]}', 'ctrl': h['gname'], 'm': members}


def py_gas_catalog(h, beta, alt):
    b_alt = [f'{beta[0]}_{alt}', beta[1], beta[2]]

    def get(b):
        if h['segs']:
            return py_seg_catalog(h, b)
        return {'t': 'beta', 'n': b[0], 'fixed': b[1], 'v': b[2]}

    return {'t': 'cat', 'name': f'{beta[0]}_{alt}_gen_altspec', 'ctrl': f"{h['gname']}_gen_altspec",
            'm': [['generic', get(beta)], ['altspec', get(b_alt)]]}


def expand(node, spec):
    """the structure with helper references replaced by the catalogs the helpers are documented
    to return, and every catalog carrying its controller name (harness-side, independent)"""
    t = node['t']
    if t in ('num', 'beta', 'var', 'draws'):
        return node
    if t == 'cat':
        return {'t': 'cat', 'name': node['name'], 'ctrl': node['ctrl'] if node.get('ctrl') is not None else node['name'],
                'm': [[nm, expand(m, spec)] for nm, m in node['m']]}
    if t == 'seg':
        h = spec['helpers'][node['h']]
        return py_seg_catalog(h, h['betas'][node['b']])
    if t == 'gas':
        h = spec['helpers'][node['h']]
        return py_gas_catalog(h, h['betas'][node['b']], node['alt'])
    out = dict(node)
    for f in ('k', 'util'):
        if f in node:
            out[f] = [expand(x, spec) for x in node[f]]
    for f in ('key', 'choice'):
        if f in node:
            out[f] = expand(node[f], spec)
    if node.get('av') is not None:
        out['av'] = [expand(x, spec) for x in node['av']]
    return out


def children(node):
    t = node['t']
    if t == 'cat':
        return [m for _, m in node['m']]
    if t == 'elem':
        return [node['key']] + node['k']
    if t == 'loglogit':
        return [node['choice']] + node['util'] + (node['av'] or [])
    return node.get('k', [])


def catalogs_of(node, acc=None):
    acc = [] if acc is None else acc
    if node['t'] == 'cat':
        acc.append(node)
    for c in children(node):
        catalogs_of(c, acc)
    return acc


def controllers_of(x):
    """sorted (name, specs); raises ValueError when two catalogs of one controller disagree"""
    d = {}
    for c in catalogs_of(x):
        specs = [nm for nm, _ in c['m']]
        if c['ctrl'] in d and d[c['ctrl']] != specs:
            raise ValueError(f"incoherent controller {c['ctrl']}")
        d[c['ctrl']] = specs
    return sorted(d.items())


def hand_subst(node, cfg):
    """the formula written out by hand (catalog-free spec node) for the configuration cfg (dict)"""
    t = node['t']
    if t in ('num', 'beta', 'var', 'draws'):
        return node
    if t == 'cat':
        want = cfg[node['ctrl']]
        for nm, m in node['m']:
            if nm == want:
                return hand_subst(m, cfg)
        raise KeyError(want)
    out = dict(node)
    for f in ('k', 'util'):
        if f in node:
            out[f] = [hand_subst(x, cfg) for x in node[f]]
    for f in ('key', 'choice'):
        if f in node:
            out[f] = hand_subst(node[f], cfg)
    if node.get('av') is not None:
        out['av'] = [hand_subst(x, cfg) for x in node['av']]
    return out


ENGINE_BIN = {'Plus', 'Minus', 'Times', 'BMin', 'BMax'}
ENGINE_UN = {'UMinus', 'Sin', 'Cos'}


def engine_ok(node, under_mc=False):
    """catalog-free formula that is safe to hand to the C++ engine on the 2-row database (the engine
    may crash the process on ill-formed formulas): total operators only, draws only under exactly
    one MonteCarlo, no panel trajectory"""
    t = node['t']
    if t in ('num', 'beta', 'var'):
        return True
    if t == 'draws':
        return under_mc
    if t == 'bin':
        return node['op'] in ENGINE_BIN and all(engine_ok(k, under_mc) for k in node['k'])
    if t == 'un':
        if node['op'] == 'MonteCarlo':
            return (not under_mc) and engine_ok(node['k'][0], True)
        return node['op'] in ENGINE_UN and engine_ok(node['k'][0], under_mc)
    if t in ('powc', 'msum'):
        return all(engine_ok(k, under_mc) for k in node['k'])
    return False


def to_tree(node):
    """catalog-free spec node -> the JSON tree format of bio_bridge.expr_to_json"""
    t = node['t']
    if t == 'num':
        return {'h': ['Num'] + dyadic(node['v']), 'k': []}
    if t == 'beta':
        return {'h': ['Beta', node['n'], bool(node.get('fixed'))], 'k': []}
    if t == 'var':
        return {'h': ['Var', node['n']], 'k': []}
    if t == 'draws':
        return {'h': ['Draws', node['n'], node['type']], 'k': []}
    if t == 'bin':
        return {'h': ['Bin', node['op']], 'k': [to_tree(k) for k in node['k']]}
    if t == 'un':
        return {'h': ['Un', node['op']], 'k': [to_tree(k) for k in node['k']]}
    if t == 'powc':
        return {'h': ['PowC'] + dyadic(node['c']), 'k': [to_tree(node['k'][0])]}
    if t == 'msum':
        return {'h': ['MultSum'], 'k': [to_tree(k) for k in node['k']]}
    if t == 'elem':
        return {'h': ['Elem', list(node['keys'])], 'k': [to_tree(node['key'])] + [to_tree(k) for k in node['k']]}
    if t == 'loglogit':
        av = node['av'] if node['av'] is not None else [{'t': 'num', 'v': 1} for _ in node['keys']]
        return {'h': ['LogLogit', list(node['keys']), list(node['keys'])],
                'k': [to_tree(node['choice'])] + [to_tree(k) for k in node['util']] + [to_tree(k) for k in av]}
    raise ValueError(t)


def tree_names(tree, acc=None):
    acc = acc if acc is not None else {'free': set(), 'fixed': set(), 'var': set()}
    h = tree['h']
    if h[0] == 'Beta':
        acc['fixed' if h[2] else 'free'].add(h[1])
    elif h[0] == 'Var':
        acc['var'].add(h[1])
    for k in tree['k']:
        tree_names(k, acc)
    return acc


# ------------------------------------------------------------------ Coq text of a structure
def coq_beta(b):
    return f'({coq_string(b[0])}, {"true" if b[1] else "false"})'


def coq_segs(segs):
    items = []
    for s in segs:
        m = coq_list([f'({cz(v)}, {coq_string(c)})' for v, c in s['map']])
        items.append(f'({coq_string(s["var"])}, {m}, {coq_string(seg_reference(s))})')
    return coq_list(items)


def spec_to_coq(node, spec):
    """Gallina term of type cexpr: helper references become calls of the Gallina builders"""
    t = node['t']
    if t == 'cat':
        ctrl = node['ctrl'] if node.get('ctrl') is not None else node['name']
        ms = coq_list([f'({coq_string(nm)}, {spec_to_coq(m, spec)})' for nm, m in node['m']])
        return f'(CCat {coq_string(node["name"])} {coq_string(ctrl)} {ms})'
    if t == 'seg':
        h = spec['helpers'][node['h']]
        return f'(seg_catalog {coq_string(h["gname"])} {coq_beta(h["betas"][node["b"]])} {coq_segs(h["segs"])} {cz(h["max"])})'
    if t == 'gas':
        h = spec['helpers'][node['h']]
        return (f'(gas_catalog {coq_string(h["gname"])} {coq_beta(h["betas"][node["b"]])} {coq_string(node["alt"])} '
                f'{coq_segs(h["segs"])} {cz(h["max"])})')
    if t in ('num', 'beta', 'var', 'draws'):
        head = to_tree(node)['h']
        return f'(CNode {bridge.head_to_coq(head)} [])'
    if t == 'loglogit':
        av = node['av'] if node['av'] is not None else [{'t': 'num', 'v': 1} for _ in node['keys']]
        head = ['LogLogit', list(node['keys']), list(node['keys'])]
        kids = [node['choice']] + node['util'] + av
    elif t == 'elem':
        head = ['Elem', list(node['keys'])]
        kids = [node['key']] + node['k']
    elif t == 'powc':
        head = ['PowC'] + dyadic(node['c'])
        kids = node['k']
    elif t == 'bin':
        head, kids = ['Bin', node['op']], node['k']
    elif t == 'un':
        head, kids = ['Un', node['op']], node['k']
    elif t == 'msum':
        head, kids = ['MultSum'], node['k']
    else:
        raise ValueError(t)
    return f'(CNode {bridge.head_to_coq(head)} {coq_list([spec_to_coq(k, spec) for k in kids])})'


def ctree_to_coq(j):
    """JSON catalog tree exported by the implementation runner -> Gallina cexpr"""
    if 'cat' in j:
        ms = coq_list([f'({coq_string(nm)}, {ctree_to_coq(m)})' for nm, m in j['m']])
        return f'(CCat {coq_string(j["cat"])} {coq_string(j["ctrl"])} {ms})'
    return f'(CNode {bridge.head_to_coq(j["h"])} {coq_list([ctree_to_coq(k) for k in j["k"]])})'


def all_strings_ok(x):
    if isinstance(x, str):
        return ascii_ok(x)
    if isinstance(x, dict):
        return all(all_strings_ok(k) and all_strings_ok(v) for k, v in x.items())
    if isinstance(x, (list, tuple)):
        return all(all_strings_ok(v) for v in x)
    return True


PRELUDE = '''From Coq Require Import ZArith List String Bool.
From BV Require Import Model.PyBase Model.Expr Model.Catalog Gen.Config.
Import ListNotations.
Open Scope Z_scope.
Definition same_set (a b : list string) : bool :=
  Nat.eqb (List.length a) (List.length b) && forallb (fun x => str_mem x b) a && forallb (fun x => str_mem x a) b.
Definition ctrls_eqb (a b : list controller) : bool := list_eqb ctrl_eqb a b.
Fixpoint list_eqb2 {A B} (f : A -> B -> bool) (l1 : list A) (l2 : list B) : bool :=
  match l1, l2 with
  | [], [] => true
  | x :: r1, y :: r2 => f x y && list_eqb2 f r1 r2
  | _, _ => false
  end.
Definition opt_str_eqb (a : option string) (b : string) : bool :=
  match a with Some x => String.eqb x b | None => false end.
(* one requested configuration: listing (any order), id, tree read through the catalogs, current
   configuration, (controller, selected name) of every catalog *)
Definition chk_cfg (e : cexpr) (q : list selection * string * expr * string * list (string * string)) : bool :=
  let '(listing, rid, tree, cur, sel) := q in
  match set_selections listing with
  | None => false
  | Some (c, cid) =>
      String.eqb cid rid && String.eqb cid cur && String.eqb (get_string_id c) rid &&
      match configure e c, set_configuration (central e) c with
      | Some x, Some st =>
          expr_eqb x tree && expr_eqb (subst c e) tree &&
          list_eqb2 (fun a b => String.eqb (fst a) (fst b) && opt_str_eqb (snd a) (snd b))
                    (selected_names (index_in (central e) st) e) sel
      | _, _ => false
      end
  end.
(* all operator calls on one structure.  ids = identifiers of the product in the harness's order
   (checked equal to the model's), names = operator names as returned by prepare_operators
   (checked equal to the model's); one call = (operator index, configuration index, step,
   recorded random choice, index of the returned identifier, returned count) *)
Definition chk_ops (cs : list controller) (ids names : list string)
  (calls : list (nat * nat * Z * list string * nat * Z)) : bool :=
  let ps := product cs in
  let ops := prepare_operators cs in
  list_eqb String.eqb (map string_id ps) ids && list_eqb String.eqb (map fst ops) names &&
  forallb (fun q : nat * nat * Z * list string * nat * Z =>
    let '(oi, ci, step, choice, ri, ret) := q in
    match nth_error ops oi, nth_error ps ci, nth_error ids ri with
    | Some o, Some c, Some rid =>
        match apply_op cs the_modification choice (snd o) c step with
        | Some (c', k) => String.eqb (string_id c') rid && (k =? ret)
        | None => false
        end
    | _, _, _ => false
    end) calls.
'''


# =========================================================================== stream config_gen
def gen_config_cases(rng, n):
    cases = []
    names = ['a', 'b', 'B', 'ab', 'a b', '', 'c1', 'c10', 'Z', 'a-', 'a_']
    sels = ['x', 'y', '', 'lin', 'X', 'x y', '0']
    for _ in range(n):
        k = rng.random()
        if k < 0.35:
            m = rng.randint(0, 5)
            if rng.random() < 0.75:
                cn = rng.sample(names, min(m, len(names)))
            else:
                cn = [rng.choice(names) for _ in range(m)]  # duplicates likely
            cases.append({'k': 'mk', 'sels': [[c, rng.choice(sels)] for c in cn]})
        elif k < 0.7:
            kind = rng.random()
            if kind < 0.55:
                m = rng.randint(1, 4)
                cn = [rng.choice(names) for _ in range(m)] if rng.random() < 0.3 else rng.sample(names, m)
                s = ';'.join(f'{c}:{rng.choice(sels)}' for c in cn)
            else:
                alphabet = ['a', 'b', ':', ';', ' ', 'x', '']
                s = ''.join(rng.choice(alphabet) for _ in range(rng.randint(0, 8)))
            cases.append({'k': 'parse', 's': s})
        else:
            size = rng.randint(1, 6)
            i = rng.randrange(size)
            step = rng.choice([0, 1, 2, -1, -2, size, size + 1, -size, -size - 1, 7, -7, 100, -100, rng.randint(-20, 20)])
            cases.append({'k': 'modify', 'size': size, 'i': i, 'step': step, 'circular': rng.random() < 0.7})
    return cases


def stream_config_gen(ctx):
    st = ctx.stream('config_gen', 'generated Gen/Config.v vs implementation: Configuration(list) with duplicates / '
                    'unsorted listings, from_string on well-formed and malformed ids, modify_controller (circular '
                    'and clamped, steps of both signs up to 100); non-trivial = 2+ selections, or a string with a '
                    'separator, or a non-zero step')
    cases = gen_config_cases(ctx.sub_rng('config_gen'), ctx.n(400, 6000))
    # corpus
    cases = [{'k': 'parse', 's': ''}, {'k': 'parse', 's': ':'}, {'k': 'parse', 's': 'a:;:b'},
             {'k': 'parse', 's': 'b:y;a:x;b:z'}, {'k': 'mk', 'sels': []},
             {'k': 'modify', 'size': 1, 'i': 0, 'step': -3, 'circular': True}] + cases
    res = ctx.impl('c16_catalog.py', {'mode': 'config', 'cases': cases})
    items = []
    kept = []
    for c, r in zip(cases, res):
        k = c['k']
        if r.get('ok') and k == 'modify' and not all(isinstance(r.get(f), int) and not isinstance(r.get(f), bool) for f in ('ret', 'idx')):
            ctx.violation('C16/config/modify-bad-result', 'modify_controller did not return / leave an integer', c, 'integers', r)
            continue
        if r.get('ok') and k != 'modify' and not (all_strings_ok(r) and isinstance(r.get('id'), str)):
            ctx.stream_broken('config_gen', f'uninterpretable result {r} for {c}')
            continue
        nontrivial = (k == 'mk' and len(c['sels']) >= 2) or (k == 'parse' and any(ch in c['s'] for ch in ';:')) \
            or (k == 'modify' and c['step'] != 0)
        st.record(c, nontrivial=nontrivial)
        if not r['ok'] and r.get('exc') != 'BiogemeError':
            # only BiogemeError is the library's refusal; anything else is a defect of the input handling
            ctx.violation(f'C16/config/{k}-unexpected-exception', f'{k} raised {r.get("exc")}', c,
                          'a result or BiogemeError', r)
            continue
        kept.append((c, r))
        if k == 'mk':
            want = (f'Some ({coq_sels(r["sels"])}, {coq_string(r["id"])})' if r['ok'] else 'None')
            items.append(f'(match set_selections {coq_sels(c["sels"])}, {want} with '
                         f'| Some (a, i), Some (b, j) => list_eqb (fun x y => String.eqb (fst x) (fst y) && String.eqb (snd x) (snd y)) a b && String.eqb i j '
                         f'| None, None => true | _, _ => false end)')
            # oracle: id invariant under listing order, duplicate controllers refused
            if r['ok']:
                if r['id'] != canon_id(c['sels']) or r['get'] != r['id']:
                    ctx.violation('C16/config/id-not-canonical', 'string id is not the sorted canonical form', c,
                                  canon_id(c['sels']), r)
            elif len({a for a, _ in c['sels']}) == len(c['sels']):
                ctx.violation('C16/config/valid-listing-refused', 'Configuration refused a duplicate-free listing', c, 'accepted', r)
        elif k == 'parse':
            want = (f'Some ({coq_sels(r["sels"])}, {coq_string(r["id"])})' if r['ok'] else 'None')
            items.append(f'(match Config.from_string {coq_string(c["s"])}, {want} with '
                         f'| Some (a, i), Some (b, j) => list_eqb (fun x y => String.eqb (fst x) (fst y) && String.eqb (snd x) (snd y)) a b && String.eqb i j '
                         f'| None, None => true | _, _ => false end)')
        else:
            want = f'Some ({cz(r["ret"])}, {cz(r["idx"])})' if r['ok'] else 'None'
            items.append(f'(match modify_controller {cz(c["size"])} {cz(c["i"])} {cz(c["step"])} '
                         f'{"true" if c["circular"] else "false"}, {want} with '
                         f'| Some (a, b), Some (x, y) => (a =? x) && (b =? y) | None, None => true | _, _ => false end)')
            if r['ok'] and not (0 <= r['idx'] < c['size']):
                ctx.violation('C16/config/index-out-of-range', 'modify_controller left the index out of range', c,
                              f'0 <= index < {c["size"]}', r)
    run_bool_items(ctx, st, 'config_gen', items, kept)


def run_bool_items(ctx, st, name, items, origin, chunk=250):
    """items: Gallina bool expressions; origin[i] = (case, observed) for reporting."""
    files = {}
    for i in range(0, len(items), chunk):
        files[f'{name}_{i // chunk}'] = (PRELUDE + 'Definition checks : list bool := '
                                         + coq_list(items[i:i + chunk], ';\n') + '.\nEval vm_compute in checks.\n')
    outs = ctx.coq_eval_many(files)
    for k in sorted(files, key=lambda s: int(s.rsplit('_', 1)[1])):
        ok, out = outs[k]
        i0 = int(k.rsplit('_', 1)[1]) * chunk
        n_here = len(items[i0:i0 + chunk])
        if not ok:
            ctx.stream_broken(name, 'model evaluation failed: ' + out[-800:])
            continue
        bs = parse_bools(out)
        if len(bs) != n_here:
            ctx.stream_broken(name, f'could not parse model output ({len(bs)} results for {n_here} cases)')
            continue
        for j, b in enumerate(bs):
            if not b:
                c, r = origin[i0 + j]
                st.disagree(c, 'model differs', r)
    if st.disagreements:
        ctx.stream_broken(name, f'{len(st.disagreements)} disagreements, first: '
                          + json.dumps(st.disagreements[0], default=str)[:1500])


# =========================================================================== structure streams
def plan_case(rng, spec, quick, value_mode):
    """what to ask the implementation about one structure; returns (case, info)"""
    x = expand(spec['formula'], spec)
    ctrls = controllers_of(x)
    sizes = [len(s) for _, s in ctrls]
    total = math.prod(sizes)
    product = [list(zip([n for n, _ in ctrls], comb)) for comb in itertools.product(*[s for _, s in ctrls])]
    ncfg = 8 if quick else 40
    chosen = product if len(product) <= ncfg else rng.sample(product, ncfg)
    configure = []
    for cfg in chosen:
        listing = [list(p) for p in cfg]
        rng.shuffle(listing)
        hand = hand_subst(x, dict(cfg))
        configure.append({'sels': listing, 'value': value_mode, 'hand': hand, 'engine': engine_ok(hand)})
    ids = [canon_id(c) for c in product]
    roundtrip = [canon_id(c) for c in chosen]
    # a few ids written in a different order / with a repeated controller (last one wins)
    for cfg in chosen[:3]:
        l = [f'{a}:{b}' for a, b in cfg]
        rng.shuffle(l)
        roundtrip.append(';'.join(l))
    names = [n for n, _ in ctrls]
    nopc = 6 if quick else 16
    opcfgs = chosen if len(chosen) <= nopc else rng.sample(chosen, nopc)
    ops = []
    op_names = []
    for n in names:
        op_names += [(f'Increase {n}', f'Decrease {n}', [n]), (f'Decrease {n}', f'Increase {n}', [n])]
    for n1 in names:
        for n2 in names:
            if n1 != n2:
                for d, inv in (('NE', 'SW'), ('NW', 'SE'), ('SE', 'NW'), ('SW', 'NE')):
                    op_names.append((f'Pair_{n1}_{n2}_{d}', f'Pair_{n1}_{n2}_{inv}', [n1, n2]))
    op_names += [('Increase_several', None, names), ('Decrease_several', None, names)]
    size_of = dict((n, len(s)) for n, s in ctrls)
    for opn, inv, involved in op_names:
        steps = {1, 2}
        for n in involved:
            steps |= {size_of[n], size_of[n] + 1}
        if not quick:
            steps |= {0, -1, -size_of[involved[0]] - 1, 7, 3 * size_of[involved[0]]}
        if opn.endswith('_several'):
            steps = {s for s in steps if s >= 0} | {len(names), len(names) + 1}
        for cfg in opcfgs:
            for s in sorted(steps):
                ops.append({'op': opn, 'cfg': canon_id(cfg), 'step': s, 'inverse': inv})
    cap = 300 if quick else 1000
    if len(ops) > cap:
        ops = rng.sample(ops, cap)
    case = {'spec': spec, 'iterate': total + 3, 'configure': configure, 'roundtrip': roundtrip, 'ops': ops,
            'explicit_max': None if total <= 100 else 100000}
    info = {'x': x, 'ctrls': ctrls, 'total': total, 'ids': ids, 'chosen': chosen,
            'op_names': [o[0] for o in op_names]}
    return case, info


def describe(spec):
    return {'spec': spec}


def check_structure(ctx, sts, idx, case, info, r, items, origin):
    """property oracles on the implementation's output + Gallina checks appended to items"""
    st_s, st_c, st_o = sts
    spec = case['spec']
    wit = describe(spec)
    ctrls, total, ids = info['ctrls'], info['total'], info['ids']
    nested = any(catalogs_of(m) for c in catalogs_of(info['x']) for _, m in c['m'])
    shared = len(catalogs_of(info['x'])) > len(ctrls)
    st_s.record(wit, nontrivial=total >= 2 and (nested or shared or len(ctrls) >= 2))
    if not r.get('built') or not r.get('central'):
        ctx.violation('C16/structure/valid-structure-refused', 'a well-formed catalog structure could not be built / controlled',
                      wit, 'a formula with its central controller', r,
                      how='build the formula described by witness.spec (see lib/impl/c16_catalog.py Builder)')
        return
    if not all_strings_ok(r):
        ctx.stream_broken('structure', 'non-ASCII text returned by the implementation')
        return
    # ---------------- oracle: one configuration per combination
    impl_ids = [c[0] for c in (r.get('configs') or [])]
    if r.get('number') != total or sorted(impl_ids) != sorted(ids) or sorted(r.get('ids') or []) != sorted(ids):
        ctx.violation('C16/structure/configurations-not-the-product',
                      'set_of_configurations / number_of_multiple_expressions differ from the product of the controllers',
                      wit, {'number': total, 'ids': sorted(ids)},
                      {'number': r.get('number'), 'configs': impl_ids, 'ids': r.get('ids'), 'exc': r.get('set_exc')})
    it = r.get('iteration')
    if it is None or sorted(it) != sorted(ids) or not r.get('iteration_same_object'):
        ctx.violation('C16/structure/iteration-not-exactly-once', 'iteration does not visit every configuration exactly once',
                      wit, sorted(ids), {'iteration': it, 'exc': r.get('iteration_exc')})
    # ---------------- model: structure
    e_txt = spec_to_coq(spec['formula'], spec)
    ename = f'e{idx}'
    defs = f'Definition {ename} : cexpr := {e_txt}.\n'
    if 'ctree' in r:
        impl_ctrls = coq_list([f'({coq_string(n)}, {coq_strs(s)})' for n, s in r['controllers']])
        items.append((defs, f'(let cs := central {ename} in let ai := all_ids cs in '
                      f'cexpr_eqb {ename} {ctree_to_coq(r["ctree"])} && wf_cexpr {ename} && '
                      f'wf_ctrls cs && ctrls_eqb cs {impl_ctrls} && '
                      f'match all_controllers {skeleton(spec["formula"], spec)} with '
                      f'| Some l => same_set (map fst l) (map fst cs) && nodupb (map fst l) | None => false end && '
                      f'(number_of_configurations cs =? {cz(r.get("number") or 0)}) && '
                      f'same_set (map string_id (product cs)) {coq_strs(impl_ids)} && '
                      f'same_set ai {coq_strs(r.get("ids") or [])} && '
                      f'list_eqb2 (fun a b => match a with Some c => String.eqb (string_id c) b | None => false end) '
                      f'(all_configurations cs) ai && '
                      f'same_set ai {coq_strs(it or [])} && '
                      f'list_eqb String.eqb (map fst (prepare_operators cs)) {coq_strs(r.get("op_names") or [])})'))
        origin.append(('structure', wit, {k: r.get(k) for k in ('controllers', 'number', 'ids', 'iteration', 'op_names', 'ctree')}))
        defs = ''
    else:
        ctx.stream_broken('structure', f'catalog tree not exported: {r.get("ctree_exc")}')
    # ---------------- configurations
    for q, o, cfg in zip(case['configure'], r['configured'], info['chosen']):
        w = {'spec': spec, 'configuration': q['sels']}
        d = dict(cfg)
        st_c.record((common.sha(spec), sorted(d.items())),
                    nontrivial=any(len(c['m']) > 1 for c in catalogs_of(info['x'])))
        hand = hand_subst(info['x'], d)
        hand_tree = to_tree(hand)
        cid = canon_id(cfg)
        if 'exc' in o or 'tree' not in o:
            ctx.violation('C16/configure/valid-configuration-refused', 'configure_catalogs failed on a configuration of the product',
                          w, 'the configured formula', o)
            continue
        if o['tree'] != hand_tree:
            ctx.violation('C16/configure/not-the-handwritten-formula',
                          'the configured formula differs from the formula written out by hand', w, hand_tree, o['tree'],
                          how='build witness.spec, configure_catalogs(Configuration(witness.configuration)), expr_to_json')
        if o.get('id') != cid or o.get('current') != cid:
            ctx.violation('C16/configure/wrong-current-configuration', 'identifier / current_configuration differ from the selected configuration',
                          w, cid, {'id': o.get('id'), 'current': o.get('current')})
        for cname, ctrl, sel, index, cur in o.get('selected', []):
            if sel != d.get(ctrl):
                ctx.violation('C16/configure/catalog-not-synchronised',
                              f'catalog {cname} governed by {ctrl} selects {sel!r}', w, d.get(ctrl), o.get('selected'))
                break
        names = tree_names(hand_tree)
        for k in ('free', 'fixed', 'var'):
            if 'elem' in o and (sorted(names[k]) != o['elem'].get(k) or sorted(names[k]) != o.get('elem_dict', {}).get(k)):
                ctx.violation('C16/configure/elementary-expressions-differ',
                              f'{k}: elementary expressions of the configured formula differ from the hand-written one',
                              w, sorted(names[k]), o.get('elem'))
                break
        cnt = ctx.notes.setdefault('c16_delegated_views', {'signatures_compared': 0, 'signature_unavailable': 0})
        cnt['signatures_compared' if isinstance((o.get('view') or {}).get('sig'), str) else 'signature_unavailable'] += 1
        ov, hv = o.get('view') or {}, o.get('hand_view') or {}
        if (isinstance(ov, dict) and isinstance(hv, dict) and ov != hv and spec['formula']['t'] in ('cat', 'seg', 'gas')
                and {k for k in set(ov) | set(hv) if ov.get(k) != hv.get(k)} == {'engine'}
                and isinstance(ov.get('engine'), dict) and isinstance(hv.get('engine'), list)):
            ctx.violation('C16/configure/top-level-catalog/not-evaluable',
                          'a formula whose top node is a catalog cannot be evaluated by get_value_c(prepare_ids=True) while the '
                          'hand-written formula of the same configuration can', w, hv.get('engine'), ov.get('engine'))
        elif o.get('view') != o.get('hand_view'):
            # get_children() / get_signature() (after set_id_manager) of the configured formula, object
            # identities eliminated, against the same operations on the hand-written formula
            ctx.violation('C16/configure/delegated-view-differs',
                          'delegated operations (get_children, get_signature, embed_expression, requires_draws, check_*, value '
                          'through the engine) of the configured formula differ from those of the hand-written formula',
                          w, o.get('hand_view'), o.get('view'))
        if q.get('value'):
            # both numbers come from the library's own get_value on structurally identical trees
            # (same operations in the same order): bit-for-bit equality is the expected outcome
            if o.get('value') != o.get('hand_value') and not ('value_exc' in o and isinstance(o.get('hand_value'), dict)
                                                             and o['value_exc']['exc'] == o['hand_value'].get('exc')):
                ctx.violation('C16/configure/value-differs', 'get_value of the configured formula differs from the hand-written one',
                              w, o.get('hand_value'), o.get('value', o.get('value_exc')))
        sel_txt = coq_list([f'({coq_string(ctrl)}, {coq_string(sel)})' for _, ctrl, sel, _, _ in o.get('selected', [])])
        items.append((defs, f'(chk_cfg {ename} ({coq_sels(q["sels"])}, {coq_string(o.get("id") or "")}, '
                      f'{bridge.json_to_coq(o["tree"])}, {coq_string(o.get("current") or "")}, {sel_txt}))'))
        defs = ''
        origin.append(('configure', w, o))
    # ---------------- round trips
    for s, o in zip(case['roundtrip'], r.get('roundtrip', [])):
        terms = [t.split(':') for t in s.split(';')]
        want = canon_id(list(dict((a, b) for a, b in terms).items()))
        if not o.get('ok') or o['id'] != want or not o['eq'] or not o['hash_eq'] or o['in_set'] is not True \
                or [tuple(x) for x in o['sels']] != sorted(dict((a, b) for a, b in terms).items()):
            ctx.violation('C16/roundtrip/id-does-not-convert-back', 'Configuration.from_string(id) is not the configuration of that id',
                          {'spec': spec, 'id': s}, want, o)
    # ---------------- operators
    idset = set(ids)
    if sorted(r.get('op_names') or []) != sorted(set(info['op_names'])):
        # (property text: every operator stays inside; the set of operators itself is compared by the model)
        pass
    calls = r.get('calls') or []
    opitems = []
    id_index = {x: i for i, x in enumerate(ids)}
    impl_ops = r.get('op_names') or []
    op_index = {x: i for i, x in enumerate(impl_ops)}
    shash = common.sha(spec)
    for q, o in zip(case['ops'], calls):
        w = {'spec': spec, 'operator': q['op'], 'configuration': q['cfg'], 'step': q['step']}
        st_o.record((shash, q['op'], q['cfg'], q['step']), nontrivial=q['step'] != 0 and total >= 2)
        if not o.get('ok'):
            ctx.violation('C16/operators/exception', f'operator {q["op"]} raised on a valid configuration', w, 'a valid configuration', o)
            continue
        if not isinstance(o.get('ret'), int) or isinstance(o.get('ret'), bool) or \
                ('back' in o and (not isinstance(o.get('back_ret'), int) or isinstance(o.get('back_ret'), bool))):
            ctx.violation('C16/operators/bad-count', f'operator {q["op"]} did not return an integer number of modifications', w,
                          'an int', o)
            continue
        if o['id'] not in idset:
            ctx.violation('C16/operators/leaves-the-product', f'operator {q["op"]} returned a configuration outside the product',
                          w, 'a member of the product', o)
            continue
        if q['inverse'] is not None and o.get('back') != q['cfg']:
            ctx.violation('C16/operators/inverse-does-not-return', f'{q["op"]} then {q["inverse"]} with the same step does not return to the start',
                          w, q['cfg'], o)
        if q['op'] not in op_index:
            continue
        opitems.append(f'({op_index[q["op"]]}%nat, {id_index[q["cfg"]]}%nat, {cz(q["step"])}, {coq_strs(o.get("choice") or [])}, '
                       f'{id_index[o["id"]]}%nat, {cz(o["ret"])})')
        if q['inverse'] is not None and o.get('back') in id_index and q['inverse'] in op_index:
            opitems.append(f'({op_index[q["inverse"]]}%nat, {id_index[o["id"]]}%nat, {cz(q["step"])}, [], '
                           f'{id_index[o["back"]]}%nat, {cz(o["back_ret"])})')
    if opitems:
        items.append((defs, f'(chk_ops (central {ename}) {coq_strs(ids)} {coq_strs(impl_ops)} {coq_list(opitems, ";" + chr(10))})'))
        origin.append(('operators', {'spec': spec}, {'calls': len(opitems)}))
        defs = ''


def stream_structures(ctx):
    st_s = ctx.stream('structure', 'random formulas with 1-4 controllers of 1-4 specifications (+ helper controllers), shared '
                      'controllers, nested catalogs, Catalog / Catalog.from_dict with and without explicit controller, '
                      'segmentation_catalogs, generic_alt_specific_catalogs: catalog tree as built, controllers, count, set of '
                      'configurations, ids, iteration, operator names; non-trivial = at least 2 configurations and (nesting or '
                      'sharing or 2+ controllers)')
    st_c = ctx.stream('configure', 'every sampled configuration of every structure (listing shuffled): id, tree read through the '
                      'catalogs vs model configure / subst and vs the hand-substituted formula, selected names, elementary '
                      'expressions, get_value; non-trivial = some catalog has 2+ members')
    st_o = ctx.stream('operators', 'every operator of prepare_operators on sampled configurations with steps {1,2,size,size+1} '
                      '(thorough: also 0, negative, 7, 3*size), inverse operator applied to the result; non-trivial = step != 0 '
                      'and 2+ configurations')
    rng = ctx.sub_rng('structures')
    n = ctx.n(30, 200)
    specs = []
    corpus_dir = ctx.scratch.parent.parent / 'corpus' / 'C16'
    for p in sorted(corpus_dir.glob('*.json')):
        try:
            j = json.loads(p.read_text())
            if j.get('kind', 'structure') == 'structure':
                specs.append((j['spec'], bool(j.get('value_mode'))))
        except Exception as e:  # noqa
            ctx.stream_broken('structure', f'unreadable corpus file {p}: {e}')
    for i in range(n):
        vm = (i % 4 == 3)
        g = Gen(rng, value_mode=vm)
        for _ in range(50):
            spec = g.structure(small=(i % 5 == 0))
            try:
                x = expand(spec['formula'], spec)
                ctrls = controllers_of(x)
            except ValueError:
                continue
            tot = math.prod(len(s) for _, s in ctrls)
            if 1 <= tot <= (256 if ctx.quick else 1024) and len(ctrls) <= 6:
                specs.append((spec, vm))
                break
    cases, infos = [], []
    for spec, vm in specs:
        c, info = plan_case(rng, spec, ctx.quick, vm)
        cases.append(c)
        infos.append(info)
    # implementation, in parallel batches
    B = max(1, (len(cases) + 15) // 16)
    batches = [cases[i:i + B] for i in range(0, len(cases), B)]
    results = []
    for out in ctx.impl_parallel('c16_catalog.py', [{'mode': 'structure', 'cases': b} for b in batches]):
        results += out
    items, origin = [], []
    per_struct = []
    for idx, (c, info, r) in enumerate(zip(cases, infos, results)):
        a = len(items)
        try:
            check_structure(ctx, (st_s, st_c, st_o), idx, c, info, r, items, origin)
        except (KeyError, TypeError, ValueError, IndexError, AssertionError, AttributeError) as e:
            # output of an unexpected shape (a mutated library): fail closed, not a harness crash
            del items[a:]
            del origin[a:]
            ctx.stream_broken('structure', f'implementation output could not be interpreted ({type(e).__name__}: {e}) for '
                              + json.dumps(c['spec'])[:1500])
        per_struct.append((a, len(items)))
    # Coq: checks distributed over files of balanced size (a structure's definition goes with its
    # first check, so a structure is never split)
    blocks = []
    for (a, b) in per_struct:
        if b > a:
            blocks.append((sum(len(items[k][0]) + len(items[k][1]) for k in range(a, b)), a, b))
    nfiles = max(1, min(len(blocks), 2 * common.NCPU if ctx.quick else 8 * common.NCPU))
    bins = [[0, []] for _ in range(nfiles)]
    for size, a, b in sorted(blocks, reverse=True):
        tgt = min(bins, key=lambda x: x[0])
        tgt[0] += size
        tgt[1].append((a, b))
    files = {}
    index_of_file = {}
    for gi, (_, grp) in enumerate(bins):
        if not grp:
            continue
        txt = PRELUDE
        lst = []
        for (a, b) in sorted(grp):
            for k in range(a, b):
                d, it = items[k]
                txt += d
                txt += f'Definition chk{k} : bool := {it}.\n'
                lst.append(k)
        txt += 'Eval vm_compute in ' + coq_list([f'chk{k}' for k in lst]) + '.\n'
        files[f'struct_{gi}'] = txt
        index_of_file[f'struct_{gi}'] = lst
    outs = ctx.coq_eval_many(files, timeout=1500)
    stream_of = {'structure': st_s, 'configure': st_c, 'operators': st_o}
    for k, lst in index_of_file.items():
        ok, out = outs[k]
        if not ok:
            ctx.stream_broken('structure', f'model evaluation failed ({k}): ' + out[-1200:])
            continue
        bs = parse_bools(out)
        if len(bs) != len(lst):
            ctx.stream_broken('structure', f'could not parse model output of {k} ({len(bs)} results for {len(lst)} checks)')
            continue
        for b, i in zip(bs, lst):
            if not b:
                kind, w, o = origin[i]
                stream_of[kind].disagree(w, 'model differs', o)
    for name, s in stream_of.items():
        if s.disagreements:
            ctx.stream_broken(name, f'{len(s.disagreements)} disagreements, first: '
                              + json.dumps(s.disagreements[0], default=str)[:2500])
    ctx.notes['c16_structures'] = {
        'structures': len(cases),
        'configurations_total': sum(i['total'] for i in infos),
        'controllers_histogram': {str(k): sum(1 for i in infos if len(i['ctrls']) == k) for k in range(1, 7)},
        'with_helpers': sum(1 for c in cases if c['spec']['helpers']),
        'nested': sum(1 for i in infos if any(catalogs_of(m) for c in catalogs_of(i['x']) for _, m in c['m'])),
        'shared': sum(1 for i in infos if len(catalogs_of(i['x'])) > len(i['ctrls'])),
        'value_mode': sum(1 for _, vm in specs if vm),
        'coq_checks': len(items),
    }


# =========================================================================== histories
HIST_CTRL_NAMES = ['shape', 'g', 'K2', 'a b', 'tt', 'c', 'Z-1']
HIST_SPECS = ['lin', 'sq', 'cu', 'log', 'A', 'b c', 'x-y', '0', 'l']


def resolve(node, objs):
    """a node with references to earlier objects -> the plain structure (harness side)"""
    t = node['t']
    if t == 'ref':
        return objs[node['id']]
    if t in ('num', 'beta', 'var', 'draws'):
        return node
    if t in ('seg', 'gas'):
        return expand(node, {'helpers': objs['helpers']})
    if t == 'cat':
        return {'t': 'cat', 'name': node['name'], 'ctrl': node['ctrl'] if node.get('ctrl') is not None else node['name'],
                'm': [[nm, resolve(m, objs)] for nm, m in node['m']]}
    out = dict(node)
    for f in ('k', 'util'):
        if f in node:
            out[f] = [resolve(x, objs) for x in node[f]]
    for f in ('key', 'choice'):
        if f in node:
            out[f] = resolve(node[f], objs)
    if node.get('av') is not None:
        out['av'] = [resolve(x, objs) for x in node['av']]
    return out


def refs_in(node, acc=None):
    acc = set() if acc is None else acc
    if isinstance(node, dict):
        if node.get('t') == 'ref':
            acc.add(node['id'])
        for v in node.values():
            refs_in(v, acc)
    elif isinstance(node, list):
        for v in node:
            refs_in(v, acc)
    return acc


def gen_history(rng, quick, value_mode):
    """a history: objects (catalogs, formulas) are created at different times, between moves of
    the controllers through every entry point of the library"""
    g = Gen(rng, value_mode=value_mode)
    nctrl = rng.choice([1, 2, 2, 3])
    controllers = {}
    for n in rng.sample(HIST_CTRL_NAMES, nctrl):
        controllers[n] = rng.sample(HIST_SPECS, rng.choice([2, 3, 3, 4]))
    helpers = []
    if not value_mode and rng.random() < 0.3:
        h = g.helper('seg', 'G')
        helpers.append(h)
        # further catalogs may be attached later to the helper's controller
        controllers_h = {'G': [nm for nm, _ in py_seg_catalog(h, h['betas'][0])['m']]}
    else:
        controllers_h = {}
    known = dict(controllers)      # every controller alive: name -> specs
    known.update(controllers_h)
    exp = {n: 0 for n in known}    # harness's idea of the indices (planning only)
    objs = {'helpers': helpers}    # id -> resolved structure
    steps = []
    nid = [0]
    attachable = dict(controllers)
    attachable.update({n: s for n, s in controllers_h.items() if len(s) >= 2 and len(set(s)) == len(s)})

    def some_refs(k):
        ids = [i for i in objs if i != 'helpers']
        return [{'t': 'ref', 'id': i} for i in rng.sample(ids, min(k, len(ids)))]

    def build_catalog(prefer=None):
        i = nid[0]
        nid[0] += 1
        if prefer is not None:
            ctrl = prefer
        elif rng.random() < 0.8:
            ctrl = rng.choice(sorted(attachable))
        else:
            ctrl = None
        if ctrl is None:
            name = f'd{i}'
            specs = rng.sample(HIST_SPECS, rng.choice([2, 3]))
            known[name] = specs
            exp[name] = 0
        else:
            name = f'cat{i}'
            specs = attachable[ctrl]
        members = []
        for s in specs:
            parts = some_refs(1) if (nid[0] > 1 and rng.random() < 0.2) else []
            members.append([s, g.top(g.combine(parts, depth=1))])
        node = {'t': 'cat', 'name': name, 'ctrl': ctrl, 'm': members, 'ctor': rng.choice(['list', 'dict'])}
        objs[i] = resolve(node, objs)
        steps.append({'do': 'build', 'id': i, 'node': node})

    def build_formula():
        i = nid[0]
        nid[0] += 1
        node = g.combine(some_refs(rng.choice([1, 2, 2, 3])))
        if node['t'] == 'ref':   # a formula is a new object, not another name of an old one
            node = {'t': 'bin', 'op': 'Plus', 'k': [node, g.leaf()]}
        objs[i] = resolve(node, objs)
        steps.append({'do': 'build', 'id': i, 'node': node})

    def build_helper_object():
        i = nid[0]
        nid[0] += 1
        h = helpers[0]
        node = {'t': 'seg', 'h': 0, 'b': rng.randrange(len(h['betas']))}
        objs[i] = resolve(node, objs)
        steps.append({'do': 'build', 'id': i, 'node': node})

    def move():
        cands = [i for i in objs if i != 'helpers' and catalogs_of(objs[i])]
        f = rng.choice(cands)
        own = controllers_of(objs[f])
        k = rng.random()
        if k < 0.25:
            sels = [[n, rng.choice(s)] for n, s in own]
            rng.shuffle(sels)
            steps.append({'do': 'configure', 'f': f, 'sels': sels})
            for n, s in sels:
                exp[n] = known[n].index(s)
        elif k < 0.4:
            n, s = rng.choice(own)
            idx = rng.randrange(len(s))
            steps.append({'do': 'select', 'f': f, 'ctrl': n, 'index': idx})
            exp[n] = idx
        elif k < 0.6:
            n, s = rng.choice(own)
            kinds = [f'Increase {n}', f'Decrease {n}', 'Increase_several', 'Decrease_several']
            if len(own) >= 2:
                n2 = rng.choice([x for x, _ in own if x != n])
                kinds += [f'Pair_{n}_{n2}_{d}' for d in ('NE', 'NW', 'SE', 'SW')]
            steps.append({'do': 'op', 'f': f, 'op': rng.choice(kinds), 'step': rng.choice([1, 1, 2, len(s) + 1])})
            exp[n] = 1  # planning only: "probably moved"
        elif k < 0.7:
            steps.append({'do': 'iterate', 'f': f, 'n': rng.choice([1, 2, 3])})
            for n, _ in own:
                exp[n] = 1
        else:
            n = rng.choice(sorted(known))
            s = known[n]
            call = rng.choice(['set_index', 'set_index', 'set_name', 'reset_selection', 'modify', 'modify'])
            st = {'do': 'ctrl', 'ctrl': n, 'call': call}
            if call == 'set_index':
                st['arg'] = rng.randrange(len(s))
                exp[n] = st['arg']
            elif call == 'set_name':
                st['arg'] = rng.choice(s)
                exp[n] = s.index(st['arg'])
            elif call == 'modify':
                st['arg'] = rng.choice([1, 2, -1, len(s), len(s) + 1, -len(s) - 1])
                st['circular'] = rng.random() < 0.7
                exp[n] = 1
            else:
                exp[n] = 0
            steps.append(st)

    if helpers:
        build_helper_object()
    build_catalog(prefer=rng.choice(sorted(controllers)))
    nsteps = rng.randint(6, 9) if quick else rng.randint(8, 14)
    while len(steps) < nsteps:
        moved = [n for n in attachable if exp.get(n)]
        k = rng.random()
        if steps[-1]['do'] != 'build' and moved and k < 0.5:
            build_catalog(prefer=rng.choice(moved))      # a catalog attached to a controller already moved
            if rng.random() < 0.7 and len(steps) < nsteps:
                build_formula()
        elif k < 0.6:
            move()
        elif k < 0.8:
            build_catalog()
        else:
            build_formula()
    built = []
    for st in steps:
        if st['do'] == 'build':
            built.append(st['id'])
        st['observe'] = list(built)
    return {'controllers': controllers, 'helpers': helpers, 'steps': steps, 'value': value_mode}, objs, known


def predict(step, state, known, res):
    """indices after a successful deterministic step (None = not predicted: iteration order and
    random.choices are arbitrary; the modification of *_several is read from the source elsewhere)"""
    st = dict(state)
    do = step['do']
    if do == 'build':
        return st
    if do == 'configure':
        for n, s in step['sels']:
            st[n] = known[n].index(s)
        return st
    if do == 'select':
        st[step['ctrl']] = step['index']
        return st
    if do == 'ctrl':
        n = step['ctrl']
        size = len(known[n])
        if step['call'] == 'set_index':
            st[n] = step['arg']
        elif step['call'] == 'set_name':
            st[n] = known[n].index(step['arg'])
        elif step['call'] == 'reset_selection':
            st[n] = 0
        else:
            new = st[n] + step['arg']
            st[n] = new % size if step['circular'] else min(max(new, 0), size - 1)
        return st
    if do == 'op':
        op, s = step['op'], step['step']
        if op.startswith('Increase ') or op.startswith('Decrease '):
            n = op[9:]
            st[n] = (st[n] + (s if op.startswith('Increase') else -s)) % len(known[n])
            return st
        if op.startswith('Pair_'):
            return None  # names may contain '_': left to the operators stream
        return None
    return None


def stream_history(ctx):
    st = ctx.stream('history', 'histories of 6-14 steps over 1-3 shared controllers (+ default controllers): catalogs and formulas '
                    'are created BETWEEN moves of the controllers (configure_catalogs, select_expression, operators, partial '
                    'iteration, Controller.set_index / set_name / reset_selection / modify_controller); after every step every '
                    'object built so far is observed without selecting anything: reported configuration vs controller state, '
                    'tree vs hand-written formula of the reported configuration and vs model read / subst, selected names, '
                    'get_children / get_signature views, get_value, own number / set of configurations; one evaluation = one '
                    'observation; non-trivial = some controller of the object is away from index 0')
    rng = ctx.sub_rng('history')
    n = ctx.n(20, 200)
    plans = []
    corpus_dir = ctx.scratch.parent.parent / 'corpus' / 'C16'
    for p in sorted(corpus_dir.glob('*.json')):
        try:
            j = json.loads(p.read_text())
        except Exception:  # noqa  (reported by stream_structures)
            continue
        if j.get('kind') == 'history':
            objs, known = {'helpers': j['history'].get('helpers', [])}, dict(j['history']['controllers'])
            for s in j['history']['steps']:
                if s['do'] == 'build':
                    objs[s['id']] = resolve(s['node'], objs)
                    for c in catalogs_of(objs[s['id']]):
                        known.setdefault(c['ctrl'], [nm for nm, _ in c['m']])
            plans.append((j['history'], objs, known))
    for i in range(n):
        plans.append(gen_history(rng, ctx.quick, value_mode=(i % 3 == 2)))
    B = max(1, (len(plans) + 15) // 16)
    cases = [p[0] for p in plans]
    results = []
    for out in ctx.impl_parallel('c16_catalog.py', [{'mode': 'history', 'cases': cases[i:i + B]}
                                                    for i in range(0, len(cases), B)]):
        results += out
    items, origin = [], []
    per_hist = []
    for hi, ((hist, objs, known), res) in enumerate(zip(plans, results)):
        a = len(items)
        try:
            check_history(ctx, st, rng, hi, hist, objs, known, res, items, origin)
        except (KeyError, TypeError, ValueError, IndexError, AssertionError, AttributeError) as e:
            del items[a:]
            del origin[a:]
            ctx.stream_broken('history', f'implementation output could not be interpreted ({type(e).__name__}: {e}) for '
                              + json.dumps(hist)[:1500])
        per_hist.append((a, len(items)))
    # Coq
    blocks = [(sum(len(items[k][0]) + len(items[k][1]) for k in range(a, b)), a, b) for a, b in per_hist if b > a]
    nfiles = max(1, min(len(blocks), common.NCPU if ctx.quick else 4 * common.NCPU))
    bins = [[0, []] for _ in range(nfiles)]
    for size, a, b in sorted(blocks, reverse=True):
        tgt = min(bins, key=lambda x: x[0])
        tgt[0] += size
        tgt[1].append((a, b))
    files, index_of_file = {}, {}
    for gi, (_, grp) in enumerate(bins):
        if not grp:
            continue
        txt = PRELUDE
        lst = []
        for (a, b) in sorted(grp):
            for k in range(a, b):
                d, it = items[k]
                txt += d + f'Definition chk{k} : bool := {it}.\n'
                lst.append(k)
        txt += 'Eval vm_compute in ' + coq_list([f'chk{k}' for k in lst]) + '.\n'
        files[f'hist_{gi}'] = txt
        index_of_file[f'hist_{gi}'] = lst
    outs = ctx.coq_eval_many(files, timeout=1500)
    for k, lst in index_of_file.items():
        ok, out = outs[k]
        if not ok:
            ctx.stream_broken('history', f'model evaluation failed ({k}): ' + out[-1200:])
            continue
        bs = parse_bools(out)
        if len(bs) != len(lst):
            ctx.stream_broken('history', f'could not parse model output of {k} ({len(bs)} results for {len(lst)} checks)')
            continue
        for b, i in zip(bs, lst):
            if not b:
                w, o = origin[i]
                st.disagree(w, 'model differs', o)
    if st.disagreements:
        ctx.stream_broken('history', f'{len(st.disagreements)} disagreements, first: '
                          + json.dumps(st.disagreements[0], default=str)[:2500])


def check_history(ctx, st, rng, hi, hist, objs, known, res, items, origin):
    if 'steps' not in res:
        ctx.stream_broken('history', f'runner failed: {res}')
        return
    if not all_strings_ok(res):
        ctx.stream_broken('history', 'non-ASCII text returned by the implementation')
        return
    state = {n: 0 for n in hist['controllers']}   # every Controller starts at its first specification
    contains = {}                                 # id -> ids of the objects it was built from (transitively)
    embedded = set()                              # objects that are part of a later object
    aliases = {}
    vm = hist.get('value', False)
    defined = set()
    for si, (step, r) in enumerate(zip(hist['steps'], res['steps'])):
        prefix = {'controllers': hist['controllers'], 'helpers': hist.get('helpers', []), 'steps': hist['steps'][:si + 1]}
        wit = {'history': prefix}
        if step['do'] == 'build':
            sub = set()
            for j in refs_in(step['node']):
                sub |= {j} | contains.get(j, set())
            contains[step['id']] = sub
            embedded |= sub
            if step['node'].get('t') == 'ref':   # (corpus / replay input) the same object under a second id
                aliases.setdefault(step['node']['id'], set()).add(step['id'])
            for c in catalogs_of(objs[step['id']]):
                state.setdefault(c['ctrl'], 0)
        for j, al in aliases.items():
            if j in embedded:
                embedded |= al
        target_embedded = step.get('f') in embedded
        predicted = None
        if not r.get('ok'):
            key = ('C16/history/embedded-subformula/step-refused' if target_embedded and step['do'] in ('configure', 'op', 'iterate', 'select')
                   else 'C16/history/valid-step-refused')
            ctx.violation(key, f'step {si} ({step["do"]}) raised on a valid request', wit, 'the step succeeds', r,
                          how='run witness.history with lib/impl/c16_catalog.py mode history')
        else:
            predicted = predict(step, state, known, r)
        obs_state = r.get('ctrl_state')
        if not isinstance(obs_state, dict) or not all(isinstance(v, int) and not isinstance(v, bool) for v in obs_state.values()):
            ctx.violation('C16/history/controller-state-unreadable', 'current_index of the controllers is not an integer', wit, 'integers', r.get('ctrl_state', r.get('ctrl_state_exc')))
            return
        obs_state = {n: v for n, v in obs_state.items() if n in known}   # (a helper's controller nobody uses yet is ignored)
        for n, v in obs_state.items():
            if not (0 <= v < len(known[n])):
                ctx.violation('C16/history/index-out-of-range', f'controller {n} has index {v}', wit, 'a legal index', obs_state)
                return
        if predicted is not None and any(obs_state.get(n) != v for n, v in predicted.items()):
            ctx.violation('C16/history/state-not-as-set', f'after step {si} ({step["do"]}) the controllers are not where the step put them',
                          wit, predicted, obs_state)
        state = dict(obs_state)
        # ---- every object, observed without selecting anything
        U = sorted((n, known[n]) for n in state)
        u_txt = coq_list([f'({coq_string(n)}, {coq_strs(s)})' for n, s in U])
        st_txt = coq_list([cz(state[n]) for n, _ in U])
        for i in step['observe']:
            o = r['obs'].get(str(i))
            x = objs[i]
            own = controllers_of(x)
            if not own:
                continue
            w = {'history': prefix, 'object': i}
            cfg = {n: s[state[n]] for n, s in own}
            st.record((common.sha(prefix), i), nontrivial=any(state[n] != 0 for n, _ in own))
            if o is None or 'obs_exc' in o or 'tree' not in o:
                ctx.violation('C16/history/object-unreadable', f'object {i} cannot be read after step {si}', w, 'a formula', o)
                continue
            reported = dict((a, b) for a, b in o.get('current_sels', []))
            is_emb = i in embedded
            extras = set(reported) - {n for n, _ in own}
            total = math.prod(len(s) for _, s in own)
            own_ids = sorted(canon_id(list(zip([n for n, _ in own], comb))) for comb in itertools.product(*[s for _, s in own]))
            # (above maximum_number_catalog_expressions = 100 the library documents that it does not enumerate)
            ids_ok = o.get('ids') == own_ids or (total > 100 and o.get('ids') is None)
            if extras or o.get('number') != total or not ids_ok:
                key = 'C16/history/embedded-subformula/configurations-taken-over' if is_emb else 'C16/history/configurations-not-the-product'
                ctx.violation(key, f'object {i} (controllers {[n for n, _ in own]}) reports the configurations of another formula',
                              w, {'number': total, 'ids': own_ids[:12]},
                              {'current': o.get('current'), 'number': o.get('number'), 'ids': (o.get('ids') or [])[:12], 'exc': o.get('set_exc')})
            if any(reported.get(n) != cfg[n] for n in cfg):
                ctx.violation('C16/history/reported-configuration-not-the-state', 'current_configuration() differs from the state of the controllers',
                              w, cfg, o.get('current_sels', o.get('current_sels_exc')))
            hand = hand_subst(x, cfg)
            hand_tree = to_tree(hand)
            if o['tree'] != hand_tree:
                ctx.violation('C16/history/not-the-handwritten-formula',
                              f'after step {si} object {i} reports {canon_id(list(cfg.items()))} but does not read as the formula written by hand for it',
                              w, hand_tree, o['tree'], how='run witness.history with lib/impl/c16_catalog.py mode history, read object witness.object')
            for cname, ctrl, sel, index, cur in o.get('selected', []):
                if sel != cfg.get(ctrl):
                    ctx.violation('C16/history/catalog-not-synchronised',
                                  f'catalog {cname} governed by {ctrl} selects {sel!r} while the configuration reported is {cfg.get(ctrl)!r}',
                                  w, cfg.get(ctrl), o.get('selected'))
                    break
            if i not in defined:
                defs = f'Definition h{hi}o{i} : cexpr := {spec_to_coq(x, {"helpers": []})}.\n'
                defined.add(i)
            else:
                defs = ''
            own_txt = coq_sels([[n, reported.get(n, '')] for n, _ in own])
            sel_txt = coq_list([f'({coq_string(ctrl)}, {coq_string(sel)})' for _, ctrl, sel, _, _ in o.get('selected', [])])
            e = f'h{hi}o{i}'
            items.append((defs, f'(let U := {u_txt} in let st := {st_txt} in let cfg := current_configuration U st {e} in '
                          f'wf_ctrls U && forallb (fun c => existsb (ctrl_eqb c) U) (ctrls_of {e}) && '
                          f'expr_eqb (read U st {e}) {bridge.json_to_coq(o["tree"])} && '
                          f'expr_eqb (subst cfg {e}) {bridge.json_to_coq(o["tree"])} && '
                          f'list_eqb (fun a b => String.eqb (fst a) (fst b) && String.eqb (snd a) (snd b)) cfg {own_txt} && '
                          f'list_eqb2 (fun a b => String.eqb (fst a) (fst b) && opt_str_eqb (snd a) (snd b)) '
                          f'(selected_names (index_in U st) {e}) {sel_txt})'))
            origin.append((w, {'state': state, 'observed': {k: o.get(k) for k in ('current', 'tree', 'selected')}}))


# =========================================================================== malformed structures
def skeleton(node, spec, ids=None, fresh=None):
    """Gallina otree of a structure: which Controller OBJECT (name, identity) governs each catalog.
    Identities: one per explicit controller, one per catalog with a default / fresh controller, one
    per controller created by a helper call."""
    ids = ids if ids is not None else {}
    fresh = fresh if fresh is not None else [1000]

    def oid(key):
        if key not in ids:
            ids[key] = len(ids) + 1
        return ids[key]

    def new():
        fresh[0] += 1
        return fresh[0]

    def go(n):
        t = n['t']
        if t == 'cat':
            if n.get('ctrl') is None:
                c = (n['name'], new())
            elif n.get('fresh_ctrl'):
                c = (n['ctrl'], new())
            elif n['ctrl'] in spec.get('controllers', {}):
                c = (n['ctrl'], oid(('explicit', n['ctrl'])))
            else:   # attached to the Controller object created by a helper call
                key = ('explicit', n['ctrl'])
                for hi, h in enumerate(spec.get('helpers', [])):
                    if n['ctrl'] == h['gname'] and (h['kind'] == 'seg' or h['segs']):
                        key = ('helper', hi, 'seg')
                        break
                    if h['kind'] == 'gas' and n['ctrl'] == h['gname'] + '_gen_altspec':
                        key = ('helper', hi, 'gas')
                        break
                c = (n['ctrl'], oid(key))
            return f'(OCat ({coq_string(c[0])}, {cz(c[1])}) {coq_list([go(m) for _, m in n["m"]])})'
        if t == 'seg':
            h = spec['helpers'][n['h']]
            leafs = coq_list(['(ONode [])' for _ in py_seg_catalog(h, h['betas'][n['b']])['m']])
            return f'(OCat ({coq_string(h["gname"])}, {cz(oid(("helper", n["h"], "seg")))}) {leafs})'
        if t == 'gas':
            h = spec['helpers'][n['h']]
            if h['segs']:
                k = len(py_seg_catalog(h, h['betas'][n['b']])['m'])
                inner = f'(OCat ({coq_string(h["gname"])}, {cz(oid(("helper", n["h"], "seg")))}) {coq_list(["(ONode [])"] * k)})'
            else:
                inner = '(ONode [])'
            return (f'(OCat ({coq_string(h["gname"] + "_gen_altspec")}, {cz(oid(("helper", n["h"], "gas")))}) '
                    f'[{inner}; {inner}])')
        kids = [go(k) for k in children(n)]
        if all(k == '(ONode [])' for k in kids):
            return '(ONode [])'
        return f'(ONode {coq_list(kids)})'

    return go(node)


def malformed_specs(rng, n):
    """pairs (kind, expected, spec): `dup` = two different Controller objects bear one name somewhere
    in the formula (must be refused with BiogemeError); `shared` = the twin structure in which the
    catalogs share ONE controller object (must stay accepted)."""
    x, y, b1, b2 = ({'t': 'var', 'n': 'x'}, {'t': 'var', 'n': 'y'},
                    {'t': 'beta', 'n': 'b1', 'fixed': False, 'v': 1}, {'t': 'beta', 'n': 'b2', 'fixed': False, 'v': -1})
    lg = {'t': 'un', 'op': 'Log', 'k': [x]}
    leaves = [x, y, b1, b2, lg, {'t': 'num', 'v': 2}]

    def members(names, pool):
        return [[nm, rng.choice(pool)] for nm in names]

    def pair(mode, names, cname):
        """two catalogs whose controllers are both called cname"""
        if mode == 'default':       # same catalog name, each with its own default controller
            a = {'t': 'cat', 'name': cname, 'ctrl': None, 'm': members(names, leaves)}
            b = {'t': 'cat', 'name': cname, 'ctrl': None, 'm': members(names, leaves)}
            ctrls = {}
        elif mode == 'fresh':       # an explicit controller and a second object created with its name
            a = {'t': 'cat', 'name': 'k1', 'ctrl': cname, 'm': members(names, leaves)}
            b = {'t': 'cat', 'name': 'k2', 'ctrl': cname, 'fresh_ctrl': True, 'm': members(names, leaves)}
            ctrls = {cname: names}
        elif mode == 'default-vs-explicit':   # a catalog named like an explicit controller
            a = {'t': 'cat', 'name': 'k1', 'ctrl': cname, 'm': members(names, leaves)}
            b = {'t': 'cat', 'name': cname, 'ctrl': None, 'm': members(names, leaves)}
            ctrls = {cname: names}
        else:                       # 'shared': ONE controller object, two catalogs
            a = {'t': 'cat', 'name': 'k1', 'ctrl': cname, 'm': members(names, leaves)}
            b = {'t': 'cat', 'name': rng.choice(['k2', 'k1']), 'ctrl': cname, 'm': members(names, leaves)}
            ctrls = {cname: names}
        return a, b, ctrls

    def wrap(n):
        k = rng.random()
        if k < 0.4:
            return n
        if k < 0.6:
            return {'t': 'un', 'op': rng.choice(UNOPS), 'k': [n]}
        if k < 0.7:
            return {'t': 'powc', 'c': 2, 'k': [n]}
        return {'t': 'bin', 'op': rng.choice(BINOPS), 'k': rng.sample([n, rng.choice(leaves)], 2)}

    def placements(a, b):
        out = []
        for op in BINOPS:                                   # the two operands of every operator
            out.append((f'operands-{op}', {'t': 'bin', 'op': op, 'k': [a, b]}))
        out.append(('multsum', {'t': 'msum', 'k': rng.sample([a, x, b, b1], 4)}))
        out.append(('elem-key-value', {'t': 'elem', 'keys': [1, 2], 'key': a, 'k': [y, b]}))
        out.append(('elem-values', {'t': 'elem', 'keys': [1, 2], 'key': x, 'k': [a, b]}))
        out.append(('loglogit-util-av', {'t': 'loglogit', 'keys': [1, 2], 'choice': y, 'util': [a, b1], 'av': [x, b]}))
        out.append(('loglogit-choice-util', {'t': 'loglogit', 'keys': [1, 2], 'choice': a, 'util': [b1, b], 'av': None}))
        out.append(('deep', {'t': 'bin', 'op': 'Plus', 'k': [wrap(wrap(a)), wrap(wrap(b))]}))
        return out

    def nest(a, b, k):
        """b inside member k of a (possibly under operators)"""
        a2 = {**a, 'm': [[nm, (wrap(b) if i == k else m)] for i, (nm, m) in enumerate(a['m'])]}
        return a2

    specs = []
    cnames = ['c', 'k', 'alt', 'a b', 'G']
    for mode in ('default', 'fresh', 'default-vs-explicit', 'shared'):
        names = rng.sample(['lin', 'log', 'sq', 'A'], rng.randint(2, 3))
        cname = rng.choice(cnames)
        a, b, ctrls = pair(mode, names, cname)
        kind = 'shared' if mode == 'shared' else 'dup'
        allp = placements(a, b)
        for k in range(len(names)):
            allp.append((f'nested-member{k}', wrap(nest(a, b, k))))
            # the two controllers in two (unselected) branches of a third catalog
        third = {'t': 'cat', 'name': 'outer', 'ctrl': None, 'm': [['u', wrap(a)], ['v', x], ['w', wrap(b)]]}
        allp.append(('branches-of-a-third-catalog', wrap(third)))
        for pname, f in allp:
            specs.append((kind, f'{mode}/{pname}', {'controllers': ctrls, 'helpers': [], 'formula': f}))
    # through the helper generators
    seg = lambda g: {'kind': 'seg', 'gname': g, 'betas': [['asc', False, 0], ['b_time', False, 0]],
                     'segs': [{'var': 'inc', 'map': [[1, 'low'], [2, 'high']], 'ref': None}], 'max': 1}
    gas = lambda g, with_segs: {'kind': 'gas', 'gname': g, 'betas': [['b_cost', False, 0]], 'alts': ['car', 'bus'], 'none': False,
                                'segs': seg(g)['segs'] if with_segs else [], 'max': 1}
    s0, s1 = {'t': 'seg', 'h': 0, 'b': 0}, {'t': 'seg', 'h': 1, 'b': 1}
    specs.append(('dup', 'helpers/two-segmentation-calls-one-name',
                  {'controllers': {}, 'helpers': [seg('G'), seg('G')], 'formula': {'t': 'bin', 'op': 'Plus', 'k': [s0, s1]}}))
    specs.append(('shared', 'helpers/one-segmentation-call-two-catalogs',
                  {'controllers': {}, 'helpers': [seg('G')], 'formula': {'t': 'bin', 'op': 'Plus', 'k': [s0, {'t': 'seg', 'h': 0, 'b': 1}]}}))
    specs.append(('dup', 'helpers/segmentation-and-altspec-one-name',
                  {'controllers': {}, 'helpers': [seg('G'), gas('G', True)],
                   'formula': {'t': 'bin', 'op': 'Times', 'k': [s0, {'t': 'gas', 'h': 1, 'b': 0, 'alt': 'car'}]}}))
    specs.append(('dup', 'helpers/two-altspec-calls-one-name',
                  {'controllers': {}, 'helpers': [gas('G', False), gas('G', False)],
                   'formula': {'t': 'msum', 'k': [{'t': 'gas', 'h': 0, 'b': 0, 'alt': 'car'}, {'t': 'gas', 'h': 1, 'b': 0, 'alt': 'bus'}]}}))
    specs.append(('shared', 'helpers/one-altspec-call-two-alternatives',
                  {'controllers': {}, 'helpers': [gas('G', True)],
                   'formula': {'t': 'msum', 'k': [{'t': 'gas', 'h': 0, 'b': 0, 'alt': 'car'}, {'t': 'gas', 'h': 0, 'b': 0, 'alt': 'bus'}]}}))
    specs.append(('dup', 'helpers/catalog-named-like-the-helper-controller',
                  {'controllers': {}, 'helpers': [seg('G')],
                   'formula': {'t': 'bin', 'op': 'Minus', 'k': [s0, {'t': 'cat', 'name': 'G', 'ctrl': None, 'm': [['no_seg', x], ['inc', y]]}]}}))
    specs.append(('dup', 'helpers/catalog-named-like-the-altspec-controller',
                  {'controllers': {}, 'helpers': [gas('G', False)],
                   'formula': {'t': 'cat', 'name': 'G_gen_altspec', 'ctrl': None,
                               'm': [['generic', {'t': 'gas', 'h': 0, 'b': 0, 'alt': 'car'}], ['altspec', x]]}}))
    specs.append(('shared', 'helpers/catalog-attached-to-the-helper-controller',
                  {'controllers': {}, 'helpers': [seg('G')], 'attach_helper': True,
                   'formula': {'t': 'bin', 'op': 'Minus', 'k': [s0, {'t': 'seg', 'h': 0, 'b': 1}]}}))
    # a catalog attached to a shared controller must list the controller's specifications in the
    # controller's ORDER (selection is by position): permutations, other names, other lengths
    for ctor in ('list', 'dict'):
        for size in (2, 3, 4):
            names = rng.sample(['linear', 'log', 'sq', 'A', 'b c'], size)
            perms = [list(p) for p in itertools.permutations(names) if list(p) != names]
            for perm in rng.sample(perms, min(len(perms), 3)):
                for first_ok in (True, False):
                    good = {'t': 'cat', 'name': 'time_spec', 'ctrl': 'g', 'ctor': ctor, 'm': members(names, leaves)}
                    bad = {'t': 'cat', 'name': 'cost_spec', 'ctrl': 'g', 'ctor': ctor, 'm': members(perm, leaves)}
                    pair_ = [good, bad] if first_ok else [bad, good]
                    for pname, f in [('operands', {'t': 'bin', 'op': rng.choice(BINOPS), 'k': pair_}),
                                     ('nested', wrap(nest(pair_[0], pair_[1], rng.randrange(size)))),
                                     ('alone', wrap(bad))]:
                        specs.append(('order', f'permuted-{ctor}-{size}/{pname}',
                                      {'controllers': {'g': names}, 'helpers': [], 'formula': f}))
        names = ['linear', 'log', 'sq']
        for what, other in (('other-name', ['linear', 'log', 'cube']), ('shorter', ['linear', 'log']),
                            ('longer', ['linear', 'log', 'sq', 'A'])):
            bad = {'t': 'cat', 'name': 'cost_spec', 'ctrl': 'g', 'ctor': ctor, 'm': members(other, leaves)}
            good = {'t': 'cat', 'name': 'time_spec', 'ctrl': 'g', 'ctor': ctor, 'm': members(names, leaves)}
            specs.append(('order', f'{what}-{ctor}', {'controllers': {'g': names}, 'helpers': [],
                                                      'formula': {'t': 'bin', 'op': 'Plus', 'k': [good, bad]}}))
    # ... also on a helper's controller
    hs = seg('G')
    hnames = [nm for nm, _ in py_seg_catalog(hs, hs['betas'][0])['m']]
    specs.append(('order', 'permuted-on-helper-controller',
                  {'controllers': {}, 'helpers': [hs],
                   'formula': {'t': 'bin', 'op': 'Plus', 'k': [s0, {'t': 'cat', 'name': 'extra', 'ctrl': 'G', 'm': members(hnames[::-1], leaves)}]}}))
    specs.append(('shared', 'same-order-on-helper-controller',
                  {'controllers': {}, 'helpers': [hs],
                   'formula': {'t': 'bin', 'op': 'Plus', 'k': [s0, {'t': 'cat', 'name': 'extra', 'ctrl': 'G', 'm': members(hnames, leaves)}]}}))
    if len(specs) > n:
        order = [s for s in specs if s[0] == 'order']
        specs = [s for s in specs if s[0] != 'order'] + rng.sample(order, min(len(order), max(12, n // 4)))
        n += max(12, n // 4)
    if len(specs) > n:
        keep = [s for s in specs if s[1].startswith('helpers/') or s[0] == 'order']
        rest = [s for s in specs if not s[1].startswith('helpers/')]
        specs = keep + rng.sample(rest, max(0, n - len(keep)))
    return specs


def stream_malformed(ctx):
    st = ctx.stream('malformed', 'regression of cd61563: two different Controller objects of one name (same-named catalogs with default '
                    'controllers, a second explicit Controller, a catalog named like an explicit / helper controller, two helper calls '
                    'with one generic name) in the two operands of every operator, in bioMultSum / Elem / LogLogit slots, nested in '
                    'any member, in two branches of a third catalog, under wrappers: must be refused with BiogemeError; the twin '
                    'structures sharing ONE controller object must be accepted with the product of configurations; the model '
                    'all_controllers is evaluated on the controller-object skeleton; non-trivial = always')
    rng = ctx.sub_rng('malformed')
    specs = malformed_specs(rng, ctx.n(60, 400))
    cases = []
    cases_by_spec = {}
    for kind, _, spec in specs:
        conf = []
        if kind == 'order':
            conf = [{'sels': [['g', s]]} for s in spec['controllers'].get('g', [])]
        cases.append({'spec': spec, 'configure': conf, 'iterate': 0, 'roundtrip': [], 'ops': None})
        cases_by_spec[id(spec)] = cases[-1]
    B = max(1, (len(cases) + 15) // 16)
    res = []
    for out in ctx.impl_parallel('c16_catalog.py', [{'mode': 'structure', 'cases': cases[i:i + B]}
                                                    for i in range(0, len(cases), B)]):
        res += out
    items, origin = [], []
    for (kind, where, spec), r in zip(specs, res):
        wit = {'spec': spec, 'where': where}
        st.record(wit)
        accepted = bool(r.get('built') and r.get('central'))
        e = (r.get('central_exc') or {}).get('exc') or r.get('exc')
        if not accepted and e != 'BiogemeError':
            ctx.violation(f'C16/malformed/{kind}/unexpected-exception', f'{where}: raised {e} instead of BiogemeError', wit,
                          'BiogemeError' if kind == 'dup' else 'accepted', r)
            continue
        if kind == 'order':
            if accepted:
                # show the consequence: some configuration where catalogs of the controller disagree
                bad = None
                for q, o in zip(cases_by_spec[id(spec)]['configure'], r.get('configured', [])):
                    sel = {(c, s) for _, c, s, _, _ in o.get('selected', [])}
                    if len({s for c, s in sel if c == q['sels'][0][0]}) > 1:
                        bad = {'configuration': q['sels'], 'selected': o.get('selected')}
                        break
                ctx.violation('C16/malformed/incompatible-catalog-accepted',
                              f'{where}: a catalog that does not list the specifications of its controller in the controller\'s order '
                              'is accepted; selection is by position, so catalogs of one controller take different-named alternatives',
                              wit, 'BiogemeError (Incompatible IDs) when the catalog is created', bad or {'accepted': True},
                              how='build witness.spec with lib/impl/c16_catalog.py (mode structure)')
            continue
        if kind == 'dup' and accepted:
            ctx.violation('C16/malformed/duplicate-controller-name-accepted',
                          f'{where}: two different Controller objects with one name are accepted (only one of them is driven)',
                          wit, 'BiogemeError when the central controller is built',
                          {'controllers': r.get('controllers'), 'number': r.get('number')},
                          how='build witness.spec with lib/impl/c16_catalog.py (mode structure)')
        if kind == 'shared':
            if not accepted:
                ctx.violation('C16/malformed/shared-controller-refused',
                              f'{where}: catalogs sharing ONE Controller object are refused', wit, 'accepted', r)
            else:
                ctrls = controllers_of(expand(spec['formula'], spec))
                total = math.prod(len(s) for _, s in ctrls)
                if r.get('number') != total or [c[0] for c in r.get('controllers', [])] != [n for n, _ in ctrls]:
                    ctx.violation('C16/malformed/shared-controller-wrong-product',
                                  f'{where}: shared controller: wrong controllers / number of configurations', wit,
                                  {'controllers': ctrls, 'number': total},
                                  {'controllers': r.get('controllers'), 'number': r.get('number')})
        sk = skeleton(spec['formula'], spec)
        names = coq_strs([c[0] for c in r.get('controllers', [])]) if accepted else '[]'
        items.append(f'(match all_controllers {sk} with '
                     f'| Some l => {"true" if accepted else "false"} && same_set (map fst l) {names} && nodupb (map fst l) '
                     f'| None => {"false" if accepted else "true"} end)')
        origin.append((wit, {'accepted': accepted, 'controllers': r.get('controllers'), 'exc': e}))
    run_bool_items(ctx, st, 'malformed', items, origin, chunk=60)


# =========================================================================== driver
def run(ctx):
    ctx.assumptions += ASSUME
    ctx.trusted += TRUSTED
    try:
        gen_all(ctx)
    except Untranslatable as e:
        ctx.tie_broken('py2v:Config', str(e))
    ctx.build()
    stream_config_gen(ctx)
    stream_structures(ctx)
    stream_history(ctx)
    stream_malformed(ctx)


def replay(ctx, path):
    w = json.load(open(path))
    wit = w.get('witness')
    key = w.get('key', '')
    if not isinstance(wit, dict):
        print('replay: this file names an obligation/stream; re-run ./check C16')
        return 2
    if key.startswith('C16/config/'):
        r = ctx.impl('c16_catalog.py', {'mode': 'config', 'cases': [wit]})[0]
        bad = False
        if wit['k'] == 'mk':
            bad = (r['ok'] and r['id'] != canon_id(wit['sels'])) or \
                  (not r['ok'] and len({a for a, _ in wit['sels']}) == len(wit['sels']))
        elif wit['k'] == 'modify':
            bad = r['ok'] and not (0 <= r['idx'] < wit['size'])
        bad = bad or (not r['ok'] and r.get('exc') != 'BiogemeError')
        print(json.dumps({'witness': wit, 'observed': r, 'still_fails': bad}))
        return 1 if bad else 0
    if 'history' in wit:
        hist = wit['history']
        objs, known = {'helpers': hist.get('helpers', [])}, dict(hist.get('controllers', {}))
        built = []
        for s in hist['steps']:
            if s['do'] == 'build':
                objs[s['id']] = resolve(s['node'], objs)
                built.append(s['id'])
                for c in catalogs_of(objs[s['id']]):
                    known.setdefault(c['ctrl'], [nm for nm, _ in c['m']])
            s.setdefault('observe', list(built))
        res = ctx.impl('c16_catalog.py', {'mode': 'history', 'cases': [hist]})[0]
        ctx._known = []   # a known finding still is a failing input
        st = ctx.stream('history', 'replay')
        try:
            check_history(ctx, st, ctx.sub_rng('replay'), 0, hist, objs, known, res, [], [])
        except (KeyError, TypeError, ValueError, IndexError, AssertionError, AttributeError) as e:
            print(json.dumps({'key': key, 'still_fails': True, 'uninterpretable_output': str(e)}))
            return 1
        vs = [{'key': v['key'], 'what': v['what'], 'observed': v['observed']} for v in ctx.violations]
        print(json.dumps({'key': key, 'still_fails': bool(vs), 'violations': vs[:4]}, default=str)[:4000])
        return 1 if vs else 0
    spec = wit.get('spec')
    if spec is None:
        print('replay: witness without a structure')
        return 2
    x = expand(spec['formula'], spec)
    case = {'spec': spec, 'iterate': 2000, 'configure': [], 'roundtrip': [], 'ops': None}
    try:
        ctrls = controllers_of(x)
        total = math.prod(len(s) for _, s in ctrls)
        if total > 100:
            case['explicit_max'] = 100000
    except ValueError:
        ctrls, total = None, None
    if 'configuration' in wit and isinstance(wit['configuration'], list):
        case['configure'] = [{'sels': wit['configuration']}]
    if 'operator' in wit:
        inv = None
        op = wit['operator']
        if op.startswith('Increase ') or op.startswith('Decrease '):
            inv = ('Decrease ' if op.startswith('Increase ') else 'Increase ') + op[9:]
        case['ops'] = [{'op': op, 'cfg': wit['configuration'], 'step': wit['step'], 'inverse': inv}]
        case['configure'] = []
    if 'id' in wit:
        case['roundtrip'] = [wit['id']]
    r = ctx.impl('c16_catalog.py', {'mode': 'structure', 'cases': [case]})[0]
    bad = False
    if key.startswith('C16/malformed/'):
        accepted = bool(r.get('built') and r.get('central'))
        bad = (not accepted) if 'shared' in key else accepted
    else:
        if not r.get('built') or not r.get('central'):
            bad = True
        else:
            ids = sorted(canon_id(list(zip([n for n, _ in ctrls], comb))) for comb in itertools.product(*[s for _, s in ctrls]))
            bad = bad or r.get('number') != total or sorted(c[0] for c in (r.get('configs') or [])) != ids
            bad = bad or sorted(r.get('iteration') or []) != ids
            for q, o in zip(case['configure'], r.get('configured', [])):
                d = dict((a, b) for a, b in q['sels'])
                bad = bad or o.get('tree') != to_tree(hand_subst(x, d)) or o.get('current') != canon_id(list(d.items()))
                bad = bad or any(sel != d.get(ctrl) for _, ctrl, sel, _, _ in o.get('selected', []))
            for q, o in zip(case['ops'] or [], r.get('calls') or []):
                bad = bad or not o.get('ok') or o['id'] not in ids or (q['inverse'] is not None and o.get('back') != q['cfg'])
            for s, o in zip(case['roundtrip'], r.get('roundtrip', [])):
                bad = bad or not o.get('ok') or not o.get('eq')
    print(json.dumps({'key': key, 'still_fails': bool(bad), 'observed': {k: r.get(k) for k in
                                                                        ('built', 'central', 'number', 'configured', 'calls', 'roundtrip', 'exc', 'central_exc')}},
                     default=str)[:4000])
    return 1 if bad else 0
