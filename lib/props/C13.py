"""C13 -- data-set transformations keep rows and values intact.

Tie B: hand-written model rocq/Model/DB.v (theorems in Proofs/DBP.v, Properties/C13.v) and the
correspondence stream `ops`: random operation sequences run on a real biogeme Database, the
complete state dumped after every call and compared with the model *inside Coq* (exact dyadic
cells).  Randomised operations (split, bootstrap) are replayed through the captured generator
outcome and, independently, checked with the proved boolean checkers (check_split,
check_subset).  A property oracle written directly on the implementation's dumps (exact
Fractions, no model involved) yields concrete witnesses.
"""
import json
import copy
from fractions import Fraction
from pathlib import Path

from common import parse_bools, VERIF

ASSUME = [
    'a pandas DataFrame is modelled as (column names, list of (index label, row of cells)); iloc is positional, '
    'column assignment appends, sort_values(kind="stable") is a stable sort, numpy.array_split gives the first '
    'n mod k chunks one more element -- all of it is checked on every run by stream ops',
    'cells are finite IEEE doubles = dyadic rationals; formulas used by the stream are +,-,*,comparisons,and,or on '
    'values whose exact results fit in 50 bits, so that double arithmetic is exact (generator-enforced)',
    'numpy RNG: an arbitrary oracle; theorems hold for every permutation / every drawn index list',
]

NAMES = {'a': 1, 'b': 2, 'c': 3, 'd': 4, 'e': 5, 'g': 6, 'h': 7, '__bioRemove__': -1, '_bio_groups': -2, 'zz': 99}
for _i in range(40):
    NAMES[f'n{_i}'] = 10 + _i
BOPS = {'+': 'BAdd', '-': 'BSub', '*': 'BMul', '>': 'BGt', '>=': 'BGe', '<': 'BLt', '<=': 'BLe',
        '==': 'BEq', '!=': 'BNe', 'and': 'BAnd', 'or': 'BOr'}
MUTATORS = ('remove', 'add', 'define', 'scale', 'panel', 'extract_into')
MAXBITS = 46


class Undecodable(Exception):
    pass


# ------------------------------------------------------------------ exact numbers
def fr(p):
    if not (isinstance(p, list) and len(p) == 2 and all(isinstance(x, int) for x in p)):
        raise Undecodable(f'not a finite number: {p!r}')
    return Fraction(p[0]) * Fraction(2) ** p[1]


def dy(x):
    x = Fraction(x)
    m, d = x.numerator, x.denominator
    if d & (d - 1):
        raise ValueError('not dyadic')
    e = -(d.bit_length() - 1)
    if m == 0:
        return [0, 0]
    while m % 2 == 0:
        m //= 2
        e += 1
    return [m, e]


def fits(x):
    x = Fraction(x)
    d = x.denominator
    return (d & (d - 1)) == 0 and abs(x.numerator).bit_length() <= MAXBITS and d.bit_length() <= 30


# ------------------------------------------------------------------ reference state
class St:
    """A decoded state dump: exact Fractions."""

    def __init__(self, cols, index, rows, excluded=0, pcol=None, imap=None):
        self.cols, self.index, self.rows = list(cols), list(index), [list(r) for r in rows]
        self.excluded, self.pcol, self.imap = excluded, pcol, imap

    @staticmethod
    def of_dump(d):
        for i in d['index']:
            if not isinstance(i, int):
                raise Undecodable(f'non-integer label {i!r}')
        rows = [[fr(v) for v in r] for r in d['cells']]
        im = d.get('imap')
        if im is not None:
            if im and im[0] == 'undumpable':
                raise Undecodable(f'individualMap: {im}')
            im = [(fr(e[0]), int(e[1][0]), int(e[1][1])) for e in im]
        ex = d.get('excluded', 0)
        if not isinstance(ex, int):
            raise Undecodable(f'excludedData {ex!r}')
        return St(d['cols'], d['index'], rows, ex, d.get('pcol'), im)

    def key(self):
        return (tuple(self.cols), tuple(self.index), tuple(tuple(r) for r in self.rows), self.excluded,
                self.pcol, None if self.imap is None else tuple(self.imap))

    def col(self, c):
        j = self.cols.index(c)
        return [r[j] for r in self.rows]

    def lrows(self):
        return [(l, tuple(r)) for l, r in zip(self.index, self.rows)]

    def copy(self):
        return St(self.cols, self.index, self.rows, self.excluded, self.pcol,
                  None if self.imap is None else list(self.imap))


def ev(e, cols, row, trace=None):
    """mathematical value of a formula on a row (exact)"""
    k = e[0]
    if k == 'pyconst':
        v = Fraction(e[1])
    elif k == 'col':
        v = row[cols.index(e[1])]  # ValueError when unknown
    elif k == 'const':
        v = fr(e[1])
    else:
        a, b = ev(e[1], cols, row, trace), ev(e[2], cols, row, trace)
        v = {'+': lambda: a + b, '-': lambda: a - b, '*': lambda: a * b,
             '>': lambda: Fraction(a > b), '>=': lambda: Fraction(a >= b), '<': lambda: Fraction(a < b),
             '<=': lambda: Fraction(a <= b), '==': lambda: Fraction(a == b), '!=': lambda: Fraction(a != b),
             'and': lambda: Fraction(a != 0 and b != 0), 'or': lambda: Fraction(a != 0 or b != 0)}[k]()
    if trace is not None:
        trace.append(v)
    return v


def panel_sorted(st, c):
    """what the repaired build_panel_map must produce from state st"""
    j = st.cols.index(c)
    order = sorted(range(len(st.rows)), key=lambda i: st.rows[i][j])  # python's sort is stable
    rows = [st.rows[i] for i in order]
    ids, seen = [], set()
    for r in rows:
        if r[j] not in seen:
            seen.add(r[j])
            ids.append(r[j])
    imap = []
    for v in ids:
        pos = [i for i, r in enumerate(rows) if r[j] == v]
        imap.append((v, min(pos), max(pos)))
    return rows, imap


def count_groups(vals):
    return sum(1 for i, v in enumerate(vals) if i == 0 or v != vals[i - 1])


def sim(st, o):
    """reference semantics of the state-changing operations (used by the generator to keep
    track of the table, and by the oracle as the executable statement of the property)."""
    s = st.copy()
    k = o['op']
    try:
        if k == 'remove':
            if not s.rows or '__bioRemove__' in s.cols:
                return st, True
            cond = [ev(o['f'], s.cols, r) for r in s.rows]
            s.excluded = sum(1 for v in cond if v != 0)
            keep = [i for i, v in enumerate(cond) if v == 0]
            s.index = [s.index[i] for i in keep]
            s.rows = [s.rows[i] for i in keep]
            if s.pcol is not None:
                s.rows, s.imap = panel_sorted(s, s.pcol)
                s.index = list(range(len(s.rows)))
        elif k in ('add', 'define'):
            if not s.rows or o['c'] in s.cols:
                return st, True
            vals = [ev(o['f'], s.cols, r) for r in s.rows]
            s.cols.append(o['c'])
            for r, v in zip(s.rows, vals):
                r.append(v)
        elif k == 'scale':
            j = s.cols.index(o['c'])
            for r in s.rows:
                r[j] = r[j] * fr(o['s'])
        elif k == 'panel':
            vals = s.col(o['c'])
            if count_groups(vals) != len(set(vals)):
                return st, True
            s.pcol = o['c']
            s.rows, s.imap = panel_sorted(s, o['c'])
            s.index = list(range(len(s.rows)))
        elif k == 'extract_into':
            n = len(s.rows)
            if any(i < 0 or i > n - 1 for i in o['idx']) or not o['idx']:
                return st, True
            s = St(s.cols, [s.index[i] for i in o['idx']], [s.rows[i] for i in o['idx']])
        else:
            raise KeyError(k)
    except ValueError:
        return st, True
    return s, False


# ------------------------------------------------------------------ generator
def gen_table(rng):
    n = rng.choice([1, 2, 2, 3, 4, 5, 6, 7, 8, 9, 10, 11, 12])
    ncols = rng.randint(2, 5)
    cols, kinds = [], []
    with_group = rng.random() < 0.7
    base = ['a', 'b', 'c', 'd', 'e'][: ncols - (1 if with_group else 0)]
    for c in base:
        cols.append(c)
        kinds.append(rng.choice(['int', 'int', 'float']))
    if with_group:
        pos = rng.randint(0, len(cols))
        cols.insert(pos, 'g')
        kinds.insert(pos, rng.choice(['int', 'int', 'int', 'float']))
    # group ids: blocks of unequal sizes, ids in arbitrary order; sometimes not contiguous
    gvals = None
    if with_group:
        nid = rng.randint(1, max(1, min(n, 5)))
        pool = rng.sample([1, 2, 3, 5, 7, 9, 12, 20, -1, 0], nid)
        if kinds[cols.index('g')] == 'float':
            pool = [Fraction(p) + Fraction(rng.choice([0, 1, 2]), 2) for p in pool]
        sizes = [1] * nid
        for _ in range(n - nid):
            sizes[rng.randrange(nid)] += 1
        gvals = []
        for p, s in zip(pool, sizes):
            gvals += [Fraction(p)] * s
        gvals = gvals[:n]
        while len(gvals) < n:
            gvals.append(Fraction(pool[0]))
        if rng.random() < 0.2 and n > 2:
            rng.shuffle(gvals)  # generally not contiguous: panel() must refuse
    rows = []
    for i in range(n):
        r = []
        for c, kd in zip(cols, kinds):
            if c == 'g':
                r.append(gvals[i])
            elif kd == 'int':
                r.append(Fraction(rng.choice([-3, -1, 0, 0, 1, 1, 2, 3, 4, 5, 7, 9])))
            else:
                r.append(Fraction(rng.choice([-6, -2, -1, 0, 1, 2, 3, 5, 6, 9, 10, 14, 25]), 4))
        rows.append(r)
    # constant-within-group column now and then (flatten: identical columns)
    if with_group and len(cols) > 2 and rng.random() < 0.4:
        j = rng.choice([i for i, c in enumerate(cols) if c != 'g'])
        gj = cols.index('g')
        first = {}
        for r in rows:
            first.setdefault(r[gj], r[j])
            r[j] = first[r[gj]]
    kind = rng.random()
    if kind < 0.15:
        index = list(range(n))
    elif kind < 0.3:
        off = rng.randint(1, 30)
        index = [off + i for i in range(n)]
    elif kind < 0.65:
        index = rng.sample(range(0, 60), n)  # unsorted, gaps
    elif kind < 0.85:
        index = sorted(rng.sample(range(3, 80), n))  # sorted with gaps
    else:
        index = [rng.choice([0, 1, 2, 5, 7]) for _ in range(n)]  # duplicated labels (pd.concat)
    return {'cols': cols, 'kinds': kinds, 'index': index, 'cells': [[dy(v) for v in r] for r in rows]}


def rand_const(rng, st, col=None):
    if col is not None and st.rows and rng.random() < 0.7:
        return rng.choice(st.col(col))
    return Fraction(rng.choice([-2, -1, 0, 1, 2, 3, 5, 6, 10]), rng.choice([1, 1, 2, 4]))


def gen_arith(rng, st, depth=0, prefer=None):
    cols = st.cols
    if depth >= 2 or rng.random() < 0.35:
        if rng.random() < 0.75 and cols:
            return ['col', prefer if (prefer and rng.random() < 0.6) else rng.choice(cols)]
        return ['const', dy(rand_const(rng, st))]
    op = rng.choice(['+', '+', '-', '*'])
    return [op, gen_arith(rng, st, depth + 1, prefer), gen_arith(rng, st, depth + 1, prefer)]


def gen_cond(rng, st, prefer=None):
    cols = st.cols
    r = rng.random()
    if r < 0.08:
        return ['const', dy(rng.choice([0, 0, 1, Fraction(5, 2)]))]  # nothing / everything
    if r < 0.12:
        return ['pyconst', rng.choice([0, 1])]
    if r < 0.7 or not cols:
        c = prefer if (prefer and rng.random() < 0.7) else rng.choice(cols)
        op = rng.choice(['>', '>=', '<', '<=', '==', '!='])
        if rng.random() < 0.75:
            return [op, ['col', c], ['const', dy(rand_const(rng, st, c))]]
        return [op, ['col', c], ['col', rng.choice(cols)]]
    if r < 0.8:
        return gen_arith(rng, st, 1, prefer)  # any non-zero value removes
    return [rng.choice(['and', 'or']), gen_cond(rng, st, prefer), gen_cond(rng, st, prefer)]


def expr_fits(e, st):
    try:
        for r in st.rows:
            tr = []
            ev(e, st.cols, r, tr)
            if not all(fits(v) for v in tr):
                return False
    except ValueError:
        return True  # unknown column: the call raises, nothing is computed
    return True


def draw_op(rng, st, last_added, fresh):
    n = len(st.rows)
    cols = st.cols
    w = [('remove', 3.0), ('add', 2.0), ('define', 1.0), ('scale', 1.6), ('panel', 1.3), ('extract_into', 0.6),
         ('split', 2.2), ('sample', 1.0), ('sample_imap', 0.7), ('extract', 0.9), ('count', 0.9),
         ('sample_size', 0.4), ('nobs', 0.3), ('flatten', 1.1)]
    if st.pcol is not None:
        w = [(k, x * (2.0 if k in ('remove', 'flatten', 'sample_imap', 'split') else 1.0)) for k, x in w]
    else:
        w = [(k, x * (0.12 if k in ('flatten', 'sample_imap') else 1.0)) for k, x in w]
    tot = sum(x for _, x in w)
    u = rng.random() * tot
    for k, x in w:
        u -= x
        if u <= 0:
            break
    err = rng.random() < 0.06  # deliberately invalid call
    if k == 'remove':
        for _ in range(12):
            e = gen_cond(rng, st, last_added)
            if err:
                e = ['>', ['col', 'zz'], ['const', [1, 0]]]
            if expr_fits(e, st):
                return {'op': 'remove', 'f': e}
        return {'op': 'nobs'}
    if k in ('add', 'define'):
        c = rng.choice(cols) if (err and cols) else fresh()
        for _ in range(12):
            e = gen_arith(rng, st, 0, last_added) if rng.random() < 0.75 else gen_cond(rng, st, last_added)
            if err and rng.random() < 0.5:
                e = ['+', ['col', 'zz'], ['const', [1, 0]]]
            if expr_fits(e, st):
                return {'op': k, 'f': e, 'c': c}
        return {'op': 'nobs'}
    if k == 'scale':
        c = 'zz' if err else rng.choice(cols)
        s = Fraction(rng.choice([2, 3, -1, 0, 1, 1, 10, 5, 3, 1]), rng.choice([1, 2, 4, 1, 8]))
        if c in cols and not all(fits(v * s) for v in st.col(c)):
            s = Fraction(1)
        return {'op': 'scale', 'c': c, 's': dy(s), 'int_scale': rng.random() < 0.5}
    if k == 'panel':
        c = 'zz' if err else ('g' if ('g' in cols and rng.random() < 0.8) else rng.choice(cols))
        return {'op': 'panel', 'c': c}
    if k in ('extract', 'extract_into'):
        if err or n == 0:
            idx = rng.choice([[], [n], [-1], [0, n + 2]])
        else:
            m = rng.randint(1, min(n, 6))
            if rng.random() < 0.5:
                idx = sorted(rng.sample(range(n), min(m, n)))
            else:
                idx = [rng.randrange(n) for _ in range(m)]  # repeated positions, any order
        return {'op': k, 'idx': idx}
    if k == 'split':
        kk = rng.choice([2, 2, 3, max(n, 2), n + 1 if n > 1 else 2, rng.randint(2, 6)])
        if err:
            kk = rng.choice([1, 0])
        g = None
        if rng.random() < 0.45 and cols:
            g = 'g' if ('g' in cols and rng.random() < 0.8) else rng.choice(cols)
            if err and rng.random() < 0.5:
                g = 'zz'
        return {'op': 'split', 'k': kk, 'groups': g, 'seed': rng.randrange(2 ** 31)}
    if k == 'sample':
        size = None if rng.random() < 0.5 else rng.randint(0, 8)
        return {'op': 'sample', 'size': size, 'seed': rng.randrange(2 ** 31)}
    if k == 'sample_imap':
        size = None if rng.random() < 0.5 else rng.randint(0, 6)
        return {'op': 'sample_imap', 'size': size, 'seed': rng.randrange(2 ** 31)}
    if k == 'count':
        c = 'zz' if err else rng.choice(cols)
        v = rand_const(rng, st, c if c in cols else None)
        return {'op': 'count', 'c': c, 'v': dy(v)}
    if k == 'flatten':
        ident = None
        if rng.random() < 0.3 and cols:
            ident = [c for c in cols if rng.random() < 0.3 and c != st.pcol]
        return {'op': 'flatten', 'identical': ident}
    return {'op': k}


def gen_case(rng):
    t = gen_table(rng)
    st = St(t['cols'], t['index'], [[fr(v) for v in r] for r in t['cells']])
    ops = []
    nadd = [0]

    def fresh():
        nadd[0] += 1
        return f'n{nadd[0] - 1}'

    last_added = None
    L = rng.randint(1, 12)
    # now and then: declare the panel early so that later operations act on panel data
    if 'g' in st.cols and rng.random() < 0.3:
        ops.append({'op': 'panel', 'c': 'g'})
        st, _ = sim(st, ops[-1])
    while len(ops) < L:
        o = draw_op(rng, st, last_added, fresh)
        ops.append(o)
        if o['op'] in MUTATORS:
            st2, raised = sim(st, o)
            if not raised and o['op'] in ('add', 'define'):
                last_added = o['c']
            if o['op'] == 'extract_into' and not raised:
                last_added = last_added if last_added in st2.cols else None
            st = st2
    return {'table': t, 'ops': ops}


# ------------------------------------------------------------------ Coq encoding
def cz(z):
    return f'({int(z)})'


def ccell(p):
    if not (isinstance(p, list) and len(p) == 2 and all(isinstance(x, int) for x in p)):
        raise Undecodable(f'cell {p!r}')
    return f'({p[0]},{p[1]})'


def clist(xs):
    return '[' + ';'.join(xs) + ']'


def cid(name):
    if name not in NAMES:
        raise Undecodable(f'unknown column name {name!r}')
    return cz(NAMES[name])


def copt(x, f):
    return 'None' if x is None else f'(Some {f(x)})'


def cbool(b):
    return 'true' if b else 'false'


def crow(label, cells):
    if not isinstance(label, int):
        raise Undecodable(f'label {label!r}')
    return f'({label},{clist([ccell(c) for c in cells])})'


def ctable(d):
    return f'(mkT {clist([cid(c) for c in d["cols"]])} {clist([crow(l, r) for l, r in zip(d["index"], d["cells"])])})'


def cimap(im):
    if im and im[0] == 'undumpable':
        raise Undecodable(str(im))
    return clist([f'({ccell(e[0])},({cz(e[1][0])},{cz(e[1][1])}))' for e in im])


def cdb(d):
    if not isinstance(d.get('excluded'), int):
        raise Undecodable(f'excludedData {d.get("excluded")!r}')
    return f'(mkDB {ctable(d)} {cz(d["excluded"])} {copt(d["pcol"], cid)} {copt(d["imap"], cimap)})'


def cexpr(e):
    k = e[0]
    if k == 'pyconst':
        return f'(FConst {ccell(dy(e[1]))})'
    if k == 'col':
        return f'(FCol {cid(e[1])})'
    if k == 'const':
        return f'(FConst {ccell(e[1])})'
    return f'(FBin {BOPS[k]} {cexpr(e[1])} {cexpr(e[2])})'


def flat_decode(out, cols):
    """canonical form of the flattened frame: rows by individual (ascending), identical columns in
    table order, then (observation, column) entries by observation and table order"""
    pos = {c: i for i, c in enumerate(cols)}
    rows = []
    for ident, ent in out['rows']:
        common, flat = [], []
        for name, v in ent.items():
            if '_' in name:
                a, b = name.split('_', 1)
                if not a.isdigit() or b not in pos:
                    raise Undecodable(f'flat column {name!r}')
                flat.append((int(a), b, v))
            else:
                if name not in pos:
                    raise Undecodable(f'flat column {name!r}')
                common.append((name, v))
        common.sort(key=lambda x: pos[x[0]])
        flat.sort(key=lambda x: (x[0], pos[x[1]]))
        rows.append((ident, common, flat))
    rows.sort(key=lambda r: fr(r[0]))
    return rows


def cflat(rows):
    return clist([f'({ccell(i)},({clist([f"({cid(c)},{ccell(v)})" for c, v in cm])},'
                  f'{clist([f"(({cz(a)},{cid(c)}),{ccell(v)})" for a, c, v in fl])}))' for i, cm, fl in rows])


def nverdicts(o):
    return 2 if o['op'] in ('split', 'sample', 'sample_imap') else 1


def cobs(o, res, prev_cols):
    k = o['op']
    raised = cbool(res['raised'] is not None)
    if k in MUTATORS:
        if k == 'remove':
            op = f'(ORemove (feval {cexpr(o["f"])}))'
        elif k in ('add', 'define'):
            op = f'(OAdd (feval {cexpr(o["f"])}) {cid(o["c"])})'
        elif k == 'scale':
            op = f'(OScale {cid(o["c"])} {ccell(o["s"])})'
        elif k == 'panel':
            op = f'(OPanel {cid(o["c"])})'
        else:
            op = f'(OExtract {clist([cz(i) for i in o["idx"]])})'
        return f'(QMut {op} {raised} {cdb(res["state"])})'
    if k == 'split':
        if 'perm' in res:
            orc = f'(SPerm {clist([cz(i) for i in res["perm"]])})'
        elif 'shuffled' in res:
            orc = f'(SIds {clist([ccell(v) for v in res["shuffled"]])})'
        else:
            orc = '(SIds [])'
        fs = clist([f'({clist([crow(l, r) for l, r in zip(f["est"]["index"], f["est"]["cells"])])},'
                    f'{clist([crow(l, r) for l, r in zip(f["val"]["index"], f["val"]["cells"])])})'
                    for f in res.get('folds', [])])
        return f'(QSplit {cz(o["k"])} {copt(o.get("groups"), cid)} {orc} {raised} {fs})'
    if k == 'sample':
        out = res.get('out') or {'index': [], 'cells': []}
        return (f'(QSample {copt(o.get("size"), cz)} {clist([cz(i) for i in (res.get("idx") or [])])} {raised} '
                f'{clist([crow(l, r) for l, r in zip(out["index"], out["cells"])])})')
    if k == 'sample_imap':
        return (f'(QSampleMap {copt(o.get("size"), cz)} {clist([cz(i) for i in (res.get("idx") or [])])} {raised} '
                f'{cimap(res.get("out") or [])})')
    if k == 'extract':
        out = res.get('out')
        t = ctable(out) if out else '(mkT [] [])'
        return f'(QExtract {clist([cz(i) for i in o["idx"]])} {raised} {t})'
    if k == 'count':
        return f'(QCount {cid(o["c"])} {ccell(o["v"])} {raised} {cz(res.get("n", 0) if isinstance(res.get("n", 0), int) else -1)})'
    if k == 'sample_size':
        return f'(QSize {raised} {cz(res.get("n", 0) if isinstance(res.get("n", 0), int) else -1)})'
    if k == 'nobs':
        return f'(QNobs {cz(res.get("n", -1) if isinstance(res.get("n", -1), int) else -1)})'
    if k == 'flatten':
        out = res.get('out')
        fl = cflat(flat_decode(out, prev_cols)) if out else '[]'
        return f'(QFlatten {copt(o.get("identical"), lambda l: clist([cid(c) for c in l]))} {raised} {fl})'
    raise Undecodable(f'op {k}')


def coq_case(case, obs):
    """(term, number of verdicts per step) or raises Undecodable"""
    if 'init' not in obs:
        raise Undecodable(f'construction failed: {obs.get("init_error")}')
    steps, counts = [], []
    prev = obs['init']
    for o, res in zip(case['ops'], obs['steps']):
        if res.get('state') is None or str(res.get('raised') or '').startswith('HARNESS'):
            raise Undecodable(f'runner failure: {res.get("raised")} {res.get("msg")}')
        steps.append(cobs(o, res, prev['cols']))
        counts.append(nverdicts(o))
        prev = res['state']
    return f'(run_obs {cdb(obs["init"])} {clist(steps)})', counts


# ------------------------------------------------------------------ property oracle
def multiset(xs):
    d = {}
    for x in xs:
        d[x] = d.get(x, 0) + 1
    return d


def show(lr):
    return [(l, tuple(str(v) for v in r)) for l, r in lr]


def df_lrows(d):
    return [(l, tuple(fr(v) for v in r)) for l, r in zip(d['index'], d['cells'])]


def panel_facts(before, after, c, what):
    """clauses every (re)built panel state must satisfy w.r.t. the rows `before` (list of cell rows)"""
    bad = []
    j = after.cols.index(c)
    if multiset(tuple(r) for r in after.rows) != multiset(tuple(r) for r in before):
        bad.append((f'{what}/rows-changed', 'the panel table is not a rearrangement of the rows'))
        return bad
    ids = [r[j] for r in after.rows]
    if any(ids[i] > ids[i + 1] for i in range(len(ids) - 1)):
        bad.append((f'{what}/not-sorted', 'rows are not sorted by individual'))
    if after.index != list(range(len(after.rows))):
        bad.append((f'{what}/index-not-renumbered', 'index is not range(n) after build_panel_map'))
    for v in set(ids):
        if [tuple(r) for r in after.rows if r[j] == v] != [tuple(r) for r in before if r[j] == v]:
            bad.append(('panel/unstable-sort', f'observations of individual {v} were reordered'))
            break
    if after.imap is None:
        bad.append((f'{what}/no-map', 'no map of individuals'))
        return bad
    want = []
    for v in dict.fromkeys(ids):
        pos = [i for i, x in enumerate(ids) if x == v]
        want.append((v, min(pos), max(pos)))
        if pos != list(range(min(pos), max(pos) + 1)):
            bad.append((f'{what}/not-contiguous', f'individual {v} is not contiguous'))
    if after.imap != want:
        bad.append(('panel/stale-map' if what == 'remove' else f'{what}/wrong-map',
                    f'individualMap {[(str(v), a, b) for v, a, b in after.imap]} does not describe the rows (expected {[(str(v), a, b) for v, a, b in want]})'))
    return bad


def oracle_step(pre, o, res, post):
    """direct statement of the property on the implementation's dumps.
    returns a list of (key-suffix, message)"""
    k = o['op']
    bad = []
    raised = res['raised'] is not None
    if k in MUTATORS or True:
        if raised and post.key() != pre.key():
            kk = 'panel/failed-declaration-state' if k == 'panel' else f'{k}/raised-but-changed'
            bad.append((kk, f'{k} raised {res["raised"]} but the database changed'))
    if k not in MUTATORS and post.key() != pre.key():
        bad.append((f'{k}/query-changed-state', f'{k} modified the database'))
    if post.pcol is not None:
        # at every moment of a panel history the ranges of the map tile the table, by position
        nxt, ok = 0, post.imap is not None and post.index == list(range(len(post.rows)))
        for _, lo, hi in (post.imap or []):
            ok = ok and lo == nxt and hi >= lo
            nxt = hi + 1
        if not (ok and nxt == len(post.rows)):
            bad.append(('panel/stale-map', f'after {k}: the ranges {[(str(v), a, b) for v, a, b in (post.imap or [])]} do not tile the {len(post.rows)} rows'))
    if raised:
        # was the refusal legitimate?
        want, must_raise = (sim(pre, o) if k in MUTATORS else (pre, None))
        if k in MUTATORS and not must_raise:
            bad.append((f'{k}/unexpected-exception', f'{k} raised {res["raised"]}: {res.get("msg")}'))
        return bad
    n = len(pre.rows)
    if k == 'remove':
        cond = [ev(o['f'], pre.cols, r) for r in pre.rows]
        keep = [i for i, v in enumerate(cond) if v == 0]
        if post.cols != pre.cols:
            bad.append(('remove/columns', f'columns changed: {pre.cols} -> {post.cols}'))
        if post.excluded != n - len(keep):
            bad.append(('remove/count', f'excludedData={post.excluded}, {n - len(keep)} rows have a non-zero condition'))
        want = [(pre.index[i], tuple(pre.rows[i])) for i in keep]
        if pre.pcol is None:
            if post.lrows() != want:
                has_dups = len(set(pre.index)) < len(pre.index)
                bad.append(('remove/duplicate-labels' if has_dups else 'remove/rows',
                            f'surviving rows {show(post.lrows())} != rows with a zero condition {show(want)}'))
            if (post.pcol, post.imap) != (None, None):
                bad.append(('remove/panel-state', 'panel state appeared'))
        else:
            if post.pcol != pre.pcol:
                bad.append(('remove/panel-state', 'panel column changed'))
            bad += panel_facts([pre.rows[i] for i in keep], post, pre.pcol, 'remove')
    elif k in ('add', 'define'):
        vals = [ev(o['f'], pre.cols, r) for r in pre.rows]
        if post.cols != pre.cols + [o['c']]:
            bad.append(('add/columns', f'columns {post.cols}'))
        elif post.index != pre.index or [r[:-1] for r in post.rows] != pre.rows:
            bad.append(('add/other-cells', 'labels or existing cells changed'))
        elif [r[-1] for r in post.rows] != vals:
            bad.append(('add/values', f'stored {[str(r[-1]) for r in post.rows]}, formula gives {[str(v) for v in vals]}'))
        if (post.excluded, post.pcol, post.imap) != (pre.excluded, pre.pcol, pre.imap):
            bad.append(('add/bookkeeping', 'excludedData / panel state changed'))
    elif k == 'scale':
        j = pre.cols.index(o['c'])
        s = fr(o['s'])
        want = [[v * s if i == j else v for i, v in enumerate(r)] for r in pre.rows]
        if post.cols != pre.cols or post.index != pre.index or post.rows != want:
            bad.append(('scale/cells', 'not exactly one column multiplied'))
        if (post.excluded, post.pcol, post.imap) != (pre.excluded, pre.pcol, pre.imap):
            bad.append(('scale/bookkeeping', 'excludedData / panel state changed'))
    elif k == 'panel':
        if post.pcol != o['c'] or post.cols != pre.cols or post.excluded != pre.excluded:
            bad.append(('panel/state', 'panel column / columns / excludedData wrong'))
        else:
            bad += panel_facts(pre.rows, post, o['c'], 'panel')
    elif k == 'extract_into':
        want = [(pre.index[i], tuple(pre.rows[i])) for i in o['idx']]
        if post.cols != pre.cols or post.lrows() != want:
            bad.append(('extract/rows', f'extracted {show(post.lrows())} expected {show(want)}'))
        if (post.excluded, post.pcol, post.imap) != (0, None, None):
            bad.append(('extract/bookkeeping', 'new database is not fresh'))
    elif k == 'extract':
        out = St.of_dump(res['out'])
        want = [(pre.index[i], tuple(pre.rows[i])) for i in o['idx']]
        if out.cols != pre.cols or out.lrows() != want:
            bad.append(('extract/rows', f'extracted {show(out.lrows())} expected {show(want)}'))
    elif k == 'split':
        folds = [(df_lrows(f['est']), df_lrows(f['val'])) for f in res['folds']]
        allrows = multiset(pre.lrows())
        if len(folds) != o['k']:
            bad.append(('split/number', f'{len(folds)} folds for k={o["k"]}'))
        if multiset(x for _, v in folds for x in v) != allrows:
            bad.append(('split/validation-not-partition', 'validation parts do not contain every row exactly once'))
        for i, (e, v) in enumerate(folds):
            if multiset(e + v) != allrows:
                bad.append(('split/estimation-not-complement', f'fold {i}: estimation is not the complement'))
                break
            if any(f['est']['cols'] != pre.cols or f['val']['cols'] != pre.cols for f in res['folds']):
                bad.append(('split/columns', 'columns changed'))
                break
        g = pre.pcol if pre.pcol is not None else o.get('groups')
        if g is not None:
            j = pre.cols.index(g)
            seen = {}
            for i, (_, v) in enumerate(folds):
                for _, r in v:
                    if seen.setdefault(r[j], i) != i:
                        bad.append(('split/group-separated', f'group {r[j]} appears in validation parts {seen[r[j]]} and {i}'))
                        break
    elif k == 'sample':
        out = df_lrows(res['out'])
        have = set(pre.lrows())
        if any(x not in have for x in out):
            bad.append(('sample/foreign-row', 'bootstrap sample contains a row that is not in the table'))
        size = o.get('size')
        if len(out) != (n if size is None else size):
            bad.append(('sample/size', f'{len(out)} rows'))
    elif k == 'sample_imap':
        out = [(fr(e[0]), int(e[1][0]), int(e[1][1])) for e in res['out']]
        j = pre.cols.index(pre.pcol)
        for v, lo, hi in out:
            if (v, lo, hi) not in (pre.imap or []):
                bad.append(('sample_imap/foreign-individual', f'{(v, lo, hi)} is not in the map'))
                break
            if not (0 <= lo <= hi < n) or pre.index[lo:hi + 1] != list(range(lo, hi + 1)):
                bad.append(('panel/stale-map', f'sampled individual {v} has range [{lo},{hi}] outside the table'))
                break
        size = o.get('size')
        if len(out) != (len(pre.imap or []) if size is None else size):
            bad.append(('sample_imap/size', f'{len(out)} individuals'))
    elif k == 'count':
        want = sum(1 for v in pre.col(o['c']) if v == fr(o['v']))
        if res['n'] != want:
            bad.append(('count/value', f'count={res["n"]} expected {want}'))
    elif k == 'nobs':
        if res['n'] != n:
            bad.append(('count/nobs', f'{res["n"]} observations, table has {n}'))
    elif k == 'sample_size':
        # panel data: the number of individuals of the declaration (the map); that the map describes
        # the rows is checked where the code (re)builds it -- panel, remove -- and by map_tiles below
        want = n if pre.pcol is None else len(pre.imap or [])
        if res['n'] != want:
            bad.append(('count/sample-size', f'get_sample_size()={res["n"]} expected {want}'))
    elif k == 'flatten':
        rows = flat_decode(res['out'], pre.cols)
        j = pre.cols.index(pre.pcol)
        ids = sorted(set(pre.col(pre.pcol)))
        if [fr(r[0]) for r in rows] != ids:
            bad.append(('flatten/individuals', f'individuals {[str(fr(r[0])) for r in rows]} expected {[str(i) for i in ids]}'))
        else:
            groups = {v: [r for r in pre.rows if r[j] == v] for v in ids}
            given = o.get('identical')
            if given is None:
                varying = [c for c in pre.cols if any(len(set(r[pre.cols.index(c)] for r in g)) > 1 for g in groups.values())]
            else:
                varying = [c for c in pre.cols if c not in given and c != pre.pcol]
            for ident, common, flat in rows:
                g = groups[fr(ident)]
                wc = [(c, g[0][pre.cols.index(c)]) for c in pre.cols if c not in varying and c != pre.pcol]
                wf = [(i + 1, c, r[pre.cols.index(c)]) for i, r in enumerate(g) for c in varying]
                if [(c, fr(v)) for c, v in common] != wc or [(a, c, fr(v)) for a, c, v in flat] != wf:
                    bad.append(('flatten/values', f'individual {fr(ident)}: flat row does not list its observations in order'))
                    break
    return bad


def check_case_oracle(ctx, case, obs, origin):
    """evaluate the property oracle on every step; report violations. returns number found"""
    found = 0
    if 'init' not in obs:
        return 0
    try:
        pre = St.of_dump(obs['init'])
    except Undecodable as e:
        ctx.violation('C13/values/not-finite', f'table not dumpable: {e}', case, None, obs.get('init'))
        return 1
    t0 = case['table']
    if (pre.cols != t0['cols'] or pre.index != t0['index'] or
            pre.rows != [[fr(v) for v in r] for r in t0['cells']]):
        ctx.violation('C13/init/table-changed', 'Database() altered the table it was given', case, t0, obs['init'])
        found += 1
    for i, (o, res) in enumerate(zip(case['ops'], obs['steps'])):
        if res.get('state') is None:
            break
        try:
            post = St.of_dump(res['state'])
            bad = oracle_step(pre, o, res, post)
        except Undecodable as e:
            bad = [('values/not-finite', f'NaN / non-numeric value appeared: {e}')]
            post = None
        except (KeyError, ValueError, IndexError, TypeError) as e:
            bad = [('oracle/undecidable', f'output of {o["op"]} has an unexpected shape: {type(e).__name__} {e}')]
        for key, msg in bad:
            wit = {'table': case['table'], 'ops': case['ops'][: i + 1], 'failing_step': i, 'origin': origin}
            if ctx.violation(f'C13/{key}', f'{msg} (step {i}: {o["op"]})', wit,
                             expected='see message', observed={k: v for k, v in res.items() if k != 'state'},
                             how='./check C13 --replay <this file>'):
                found += 1
        if post is None:
            break
        pre = post
    return found


# ------------------------------------------------------------------ stream
HEADER = ('From Coq Require Import ZArith List.\nFrom BV Require Import Model.DB.\nImport ListNotations.\n'
          'Open Scope Z_scope.\n')


def load_corpus():
    cases = []
    d = VERIF / 'corpus' / 'C13'
    for p in sorted(d.glob('*.json')):
        j = json.loads(p.read_text())
        for c in (j if isinstance(j, list) else [j]):
            cases.append(({'table': c['table'], 'ops': c['ops']}, f'corpus/{p.name}'))
    return cases


def nontrivial(case, obs):
    """at least one state-changing call succeeded and the index is not 0..n-1"""
    ok_mut = any(o['op'] in MUTATORS and r.get('raised') is None for o, r in zip(case['ops'], obs.get('steps', [])))
    idx = case['table']['index']
    return ok_mut and idx != list(range(len(idx)))


def stream_ops(ctx):
    st = ctx.stream('ops', 'operation sequences (<= 12 calls: remove/add_column/define_variable/scale_column/panel/'
                    'extract_rows/split/sample_with_replacement/sample_individual_map_with_replacement/count/'
                    'get_sample_size/generate_flat_panel_dataframe) on tables of 1-12 rows x 2-5 columns with '
                    'shifted, gapped, unsorted or duplicated index labels; corpus first; non-trivial = at least one '
                    'state-changing call succeeded and the index is not range(n); distinct by (table, ops)')
    rng = ctx.sub_rng('ops')
    cases = load_corpus()
    ncorp = len(cases)
    cases += [(gen_case(rng), 'generated') for _ in range(ctx.n(320, 6400))]
    per = max(1, (len(cases) + 15) // 16)
    chunks = [cases[i:i + per] for i in range(0, len(cases), per)]
    outs = ctx.impl_parallel('c13_ops.py', [[c for c, _ in ch] for ch in chunks], timeout=1500)
    obs = [o for ch in outs for o in ch]
    kinds = {}
    items = []  # (case index, term, counts)
    for i, ((case, origin), ob) in enumerate(zip(cases, obs)):
        st.record({'table': case['table'], 'ops': case['ops']}, nontrivial=nontrivial(case, ob))
        for o, r in zip(case['ops'], ob.get('steps', [])):
            kk = o['op'] + ('!' if r.get('raised') else '')
            kinds[kk] = kinds.get(kk, 0) + 1
        check_case_oracle(ctx, case, ob, origin)
        try:
            term, counts = coq_case(case, ob)
            items.append((i, term, counts))
        except Undecodable as e:
            st.disagree(case, 'state not expressible in the model', str(e), origin)
    st.extra['corpus_cases'] = ncorp
    st.extra['calls_by_kind'] = dict(sorted(kinds.items()))
    # coverage floor: a generator that silently degenerates makes the check fail closed
    need = ['remove', 'add', 'define', 'scale', 'panel', 'extract_into', 'extract', 'split', 'sample', 'sample_imap',
            'count', 'sample_size', 'nobs', 'flatten', 'remove!', 'add!', 'panel!', 'extract!', 'split!', 'flatten!']
    missing = [k for k in need if kinds.get(k, 0) < 3]
    if missing:
        ctx.stream_broken('ops', f'coverage floor not reached: fewer than 3 calls of kind {missing} (! = raising)')
    B = 200
    files = {}
    for b in range(0, len(items), B):
        chunk = items[b:b + B]
        files[f'ops_{b // B}'] = (HEADER + 'Definition results : list (list bool) := [\n'
                                  + ';\n'.join(t for _, t, _ in chunk) + '].\n'
                                  'Eval vm_compute in results.\n')
    res = ctx.coq_eval_many(files, timeout=1500)
    for name in sorted(files, key=lambda s: int(s.split('_')[1])):
        ok, out = res[name]
        b = int(name.split('_')[1]) * B
        chunk = items[b:b + B]
        if not ok:
            ctx.stream_broken('ops', 'model evaluation failed: ' + out[-800:])
            continue
        bs = parse_bools(out)
        need = sum(sum(c) for _, _, c in chunk)
        if len(bs) != need:
            ctx.stream_broken('ops', f'could not parse the model output ({len(bs)} verdicts for {need} expected)')
            continue
        p = 0
        for i, _, counts in chunk:
            case, origin = cases[i]
            verdicts = []
            for cnt in counts:
                verdicts.append(bs[p:p + cnt])
                p += cnt
            for s, v in enumerate(verdicts):
                if not all(v):
                    o = case['ops'][s]
                    r = {k: x for k, x in obs[i]['steps'][s].items() if k != 'state'}
                    what = 'model and implementation differ' if not v[0] else 'proved checker rejects the output'
                    st.disagree({'table': case['table'], 'ops': case['ops'][: s + 1]},
                                f'{what} at step {s} ({o["op"]})', r, origin)
                    break
    if st.disagreements:
        st.extra['disagreement_samples'] = st.disagreements[:8]
        d0 = st.disagreements[0]
        ctx.stream_broken('ops', f'{len(st.disagreements)} disagreements, first: {json.dumps(d0, default=str)[:1500]}')
        # failing-input search: the oracle already ran on every case; run it on fresh cases biased
        # towards the operations that disagreed
        if not ctx.violations:
            rng2 = ctx.sub_rng('ops-search')
            extra = [(gen_case(rng2), 'search') for _ in range(ctx.n(400, 3000))]
            per = max(1, (len(extra) + 15) // 16)
            chunks = [extra[i:i + per] for i in range(0, len(extra), per)]
            outs = ctx.impl_parallel('c13_ops.py', [[c for c, _ in ch] for ch in chunks], timeout=1500)
            for (case, origin), ob in zip(extra, [o for ch in outs for o in ch]):
                check_case_oracle(ctx, case, ob, origin)
                if ctx.violations:
                    break


def run(ctx):
    ctx.assumptions += ASSUME
    ctx.trusted += [
        'tie B: Model/DB.v is hand-written from src/biogeme/database.py and tools/database.py; bound to the code by '
        'stream ops (state compared after every call, inside Coq, exact dyadic cells)',
        'pandas / numpy primitives as modelled in DB.v (iloc, column assignment, stable sort_values, array_split, '
        'unique, groupby order); numpy RNG replayed by seeding',
        'the harness: generator, encoders lib/props/C13.py, runner lib/impl/c13_ops.py',
    ]
    ctx.build()
    stream_ops(ctx)


def replay(ctx, path):
    w = json.load(open(path))
    wit = w.get('witness')
    if not wit or 'table' not in wit:
        print('replay: this file names an obligation/stream; re-run ./check C13')
        return 2
    case = {'table': wit['table'], 'ops': wit['ops']}
    ob = ctx.impl('c13_ops.py', [case])[0]
    n = check_case_oracle(ctx, case, ob, 'replay')
    hits = [v['key'] for v in ctx.violations] + [k['key'] for k in ctx.known_hits]
    print(json.dumps({'still_fails': bool(hits), 'violations': hits, 'steps': len(ob.get('steps', []))}))
    return 1 if hits else 0


def gen_all(ctx):
    return None
