"""C15 tie A: a specialised, fail-closed extractor for the saved-iteration code of
src/biogeme/biogeme.py.  It pattern-matches the exact statement shapes of

    BIOGEME.__init__ (initial marker / suspended flag)
    BIOGEME._save_iterations_file_name
    BIOGEME.calculate_likelihood_and_derivatives   (the if/elif save branch)
    BIOGEME._load_saved_iteration
    BIOGEME.estimate, BIOGEME.quick_estimate       (prologue, bootstrap block)

and emits the Gallina record `the_code : Iter.code` (rocq/Gen/IterSave.v).  Expressions are
translated by /verif/lib/py2v; statement shapes that py2v does not know (with / try / print to a
file / os.replace) are recognised here.  Anything unexpected raises Untranslatable.
"""
import ast

import py2v
from py2v import Untranslatable, External, simple

SRC = 'src/biogeme/biogeme.py'
NL = '(String nl EmptyString)'


def _dotted(n):
    if isinstance(n, ast.Name):
        return n.id
    if isinstance(n, ast.Attribute):
        b = _dotted(n.value)
        return None if b is None else b + '.' + n.attr
    return None


def _is_logger(s):
    return (isinstance(s, ast.Expr) and isinstance(s.value, ast.Call)
            and (_dotted(s.value.func) or '').startswith('logger.'))


def _is_doc(s):
    return isinstance(s, ast.Expr) and isinstance(s.value, ast.Constant) and isinstance(s.value.value, str)


def _call_of(s, name):
    """s is the expression statement  <name>(...)  -> the Call node, else None"""
    if isinstance(s, ast.Expr) and isinstance(s.value, ast.Call) and _dotted(s.value.func) == name:
        return s.value
    return None


def _assign_of(s, target):
    """s is  <target> = <value>  (single target) -> value node, else None"""
    if isinstance(s, ast.Assign) and len(s.targets) == 1 and _dotted(s.targets[0]) == target:
        return s.value
    return None


def _mentions(node, words):
    for n in ast.walk(node):
        d = None
        if isinstance(n, ast.Attribute):
            d = n.attr
        elif isinstance(n, ast.Name):
            d = n.id
        if d in words:
            return True
    return False


class Extractor:
    def __init__(self):
        self.tr = py2v.load(SRC)
        self.cls = None
        for n in self.tr.tree.body:
            if isinstance(n, ast.ClassDef) and n.name == 'BIOGEME':
                self.cls = n
        if self.cls is None:
            raise Untranslatable(f'{SRC}: class BIOGEME not found')
        self.fn = {n.name: n for n in self.cls.body if isinstance(n, ast.FunctionDef)}

    def err(self, node, msg):
        self.tr.err(node, msg)

    def func(self, name):
        if name not in self.fn:
            raise Untranslatable(f'{SRC}: BIOGEME.{name} not found')
        return self.fn[name]

    # ------------------------------------------------------------------ global discipline
    def check_writers(self):
        """The marker, the suspended flag and the file name are touched only where we look."""
        allowed = {
            'self.bestIteration': {'__init__', 'calculate_likelihood_and_derivatives', 'estimate', 'quick_estimate'},
            'self._saving_suspended': {'__init__', 'estimate'},
        }
        for fname, fd in self.fn.items():
            for n in ast.walk(fd):
                targets = []
                if isinstance(n, ast.Assign):
                    targets = n.targets
                elif isinstance(n, (ast.AugAssign, ast.AnnAssign)):
                    targets = [n.target]
                elif isinstance(n, ast.Delete):
                    targets = n.targets
                for t in targets:
                    for tt in (t.elts if isinstance(t, ast.Tuple) else [t]):
                        d = _dotted(tt)
                        if d in allowed and fname not in allowed[d]:
                            self.err(n, f'{d} is assigned in BIOGEME.{fname} (not modelled)')
                if isinstance(n, ast.Call) and _dotted(n.func) == 'self._save_iterations_file_name':
                    if fname not in ('calculate_likelihood_and_derivatives', '_load_saved_iteration', 'estimate',
                                     'quick_estimate'):
                        self.err(n, f'the iteration file name is used in BIOGEME.{fname} (not modelled)')
                if isinstance(n, ast.Call) and _dotted(n.func) in ('setattr', 'delattr'):
                    if any(isinstance(a, ast.Constant) and a.value in ('bestIteration', '_saving_suspended')
                           for a in n.args):
                        self.err(n, 'setattr on the marker / suspended flag')
        # module-level code outside the class must not mention them either
        for n in self.tr.tree.body:
            if n is not self.cls and _mentions(n, {'bestIteration', '_saving_suspended', '_save_iterations_file_name'}):
                self.err(n, 'marker / flag / file name used outside class BIOGEME')

    def check_init(self):
        fd = self.func('__init__')
        found = {}
        for s in fd.body:
            for tgt, want in (('self.bestIteration', None), ('self._saving_suspended', False)):
                v = _assign_of(s, tgt)
                if v is not None:
                    if not (isinstance(v, ast.Constant) and v.value is want):
                        self.err(s, f'{tgt} is not initialised to {want}')
                    found[tgt] = True
        for tgt in ('self.bestIteration', 'self._saving_suspended'):
            if tgt not in found:
                raise Untranslatable(f'{SRC}: __init__ does not initialise {tgt} at top level')

    # ------------------------------------------------------------------ file name
    def file_name(self):
        tr = py2v.load(SRC, attrs={'self.modelName': ('modelName', 'string')})
        body = tr.function('BIOGEME._save_iterations_file_name', {}, 'string', coqname='gen_file_name')
        # make modelName a parameter
        return body.replace('Definition gen_file_name  : string', 'Definition gen_file_name (modelName : string) : string')

    # ------------------------------------------------------------------ save branch
    def save_branch(self):
        fd = self.func('calculate_likelihood_and_derivatives')
        # gradnorm = np.linalg.norm(g)
        ok = False
        the_if = None
        for s in fd.body:
            v = _assign_of(s, 'gradnorm')
            if v is not None:
                if not (isinstance(v, ast.Call) and _dotted(v.func) == 'np.linalg.norm' and len(v.args) == 1
                        and _dotted(v.args[0]) == 'g' and not v.keywords):
                    self.err(s, 'gradnorm is not np.linalg.norm(g)')
                ok = True
            if isinstance(s, ast.If) and _mentions(s, {'save_iterations', 'bestIteration', '_saving_suspended'}):
                if the_if is not None:
                    self.err(s, 'second statement touching the save machinery')
                the_if = s
            elif _mentions(s, {'save_iterations', 'bestIteration', '_saving_suspended', '_save_iterations_file_name'}):
                self.err(s, 'unexpected statement touching the save machinery')
        if not ok or the_if is None:
            raise Untranslatable(f'{SRC}: save branch of calculate_likelihood_and_derivatives not found')
        # the compared value f and the gradient g are the ones returned by the engine: no statement
        # between the engine call and the end of the save branch may assign them (e.g. scale them)
        eng = None
        for i, s in enumerate(fd.body):
            if isinstance(s, ast.Assign) and len(s.targets) == 1 and isinstance(s.targets[0], ast.Tuple) \
                    and [_dotted(e) for e in s.targets[0].elts] == ['f', 'g', 'h', 'bh'] \
                    and isinstance(s.value, ast.Call) \
                    and _dotted(s.value.func) == 'self.theC.calculateLikelihoodAndDerivatives':
                if eng is not None:
                    self.err(s, 'second engine call')
                eng = i
        if eng is None:
            raise Untranslatable(f'{SRC}: f, g, h, bh = self.theC.calculateLikelihoodAndDerivatives(...) not found')
        iif = fd.body.index(the_if)
        if iif < eng:
            self.err(the_if, 'the save branch precedes the engine call')
        for s in fd.body[eng + 1: iif + 1]:
            for n in ast.walk(s):
                if isinstance(n, ast.Name) and isinstance(n.ctx, (ast.Store, ast.Del)) and n.id in ('f', 'g', 'x'):
                    self.err(s, f'{n.id} is modified between the engine call and the save branch')
        # if not np.isfinite(gradnorm): <report only>  elif <cond>: <save>
        if not (len(the_if.orelse) == 1 and isinstance(the_if.orelse[0], ast.If) and not the_if.orelse[0].orelse):
            self.err(the_if, 'expected  if <non finite>: ... elif <cond>: ...  without else')
        for s in the_if.body:
            if _is_logger(s):
                continue
            if isinstance(s, ast.Assign) and len(s.targets) == 1 and isinstance(s.targets[0], ast.Name) \
                    and s.targets[0].id in ('report_x', 'report_g', 'error_msg') \
                    and not _mentions(s.value, {'open', 'bestIteration', 'replace', 'write', 'print'}):
                continue
            self.err(s, 'unexpected statement in the non-finite-gradient branch')
        elif_ = the_if.orelse[0]

        def isfinite(tr, node, args):
            if len(node.args) != 1 or _dotted(node.args[0]) != 'gradnorm':
                tr.err(node, 'np.isfinite of something else than gradnorm')
            return 'grad_finite', 'bool'

        ext = {
            'np.isfinite': External(lambda tr, node, args: isfinite(tr, node, args)),
            'cmp:option fval:GtE': External(lambda tr, node, args: (f'(oge {args[0][0]} {args[1][0]})', 'bool')),
        }
        # np.isfinite(gradnorm): the argument is translated first -> declare gradnorm
        attrs = {
            'self.save_iterations': ('save_iterations', 'bool'),
            'self._saving_suspended': ('saving_suspended', 'bool'),
            'gradnorm': ('grad_finite', 'bool'),
        }
        tr = py2v.Translator(self.tr.source, SRC, externals=ext, attrs=attrs)
        t1 = tr.truth(*tr.expr(the_if.test, {}), the_if.test)
        t2 = tr.truth(*tr.expr(elif_.test, {}), elif_.test)
        guard = (f'Definition gen_guard (grad_finite save_iterations saving_suspended : bool) : bool :=\n'
                 f'  if {t1} then false else {t2}.\n')

        body = list(elif_.body)
        if len(body) != 2 or not all(isinstance(s, ast.If) and not s.orelse for s in body):
            self.err(elif_, 'expected exactly  if <marker is None>: ...  if <f >= marker>: ...  in the save branch')
        env = {'self.bestIteration': 'option fval', 'f': 'fval'}
        tr2 = py2v.Translator(self.tr.source, SRC, externals=ext)
        # (b) marker before the test
        for s in body[0].body:
            if _assign_of(s, 'self.bestIteration') is None:
                self.err(s, 'unexpected statement under `if self.bestIteration is None`')
        m0 = tr2.block([body[0]], env, lambda e: 'self_bestIteration', None)
        mark0 = ('Definition gen_mark0 (self_bestIteration : option fval) (f : fval) : option fval :=\n'
                 f'{m0}.\n')
        # the test
        tc, tt = tr2.expr(body[1].test, env)
        test = f'Definition gen_test (f : fval) (self_bestIteration : option fval) : bool :=\n  {tr2.truth(tc, tt, body[1].test)}.\n'
        # (b') marker inside, (c) the write discipline
        marks = [s for s in body[1].body if _assign_of(s, 'self.bestIteration') is not None]
        rest = [s for s in body[1].body if _assign_of(s, 'self.bestIteration') is None]
        m1 = tr2.block(marks, env, lambda e: 'self_bestIteration', None)
        mark1 = ('Definition gen_mark1 (self_bestIteration : option fval) (f : fval) : option fval :=\n'
                 f'{m1}.\n')
        steps, line = self.write_steps(rest)
        return guard + mark0 + test + mark1 + steps + line

    def write_steps(self, stmts):
        ext = {'self._save_iterations_file_name': External(lambda tr, node, args: self._fn_call(tr, node, args))}
        tr = py2v.Translator(self.tr.source, SRC, externals=ext)
        self._line = None

        def go(stmts, env):
            if not stmts:
                return '[]'
            s, rest = stmts[0], stmts[1:]
            if isinstance(s, ast.Assign) and len(s.targets) == 1 and isinstance(s.targets[0], ast.Name):
                c, t = tr.expr(s.value, env)
                if t != 'string':
                    self.err(s, f'assignment of a {t} in the write block')
                env2 = dict(env)
                env2[s.targets[0].id] = 'string'
                return f'let {py2v.mangle(s.targets[0].id)} := {c} in\n  {go(rest, env2)}'
            if isinstance(s, ast.With):
                if len(s.items) != 1 or not isinstance(s.items[0].optional_vars, ast.Name):
                    self.err(s, 'expected  with open(...) as <name>')
                pf = s.items[0].optional_vars.id
                call = s.items[0].context_expr
                if not (isinstance(call, ast.Call) and _dotted(call.func) == 'open' and len(call.args) == 2
                        and isinstance(call.args[1], ast.Constant) and call.args[1].value == 'w'):
                    self.err(s, 'expected open(<name>, "w", ...)')
                for k in call.keywords:
                    if k.arg != 'encoding':
                        self.err(s, f'unexpected keyword {k.arg} of open')
                self.write_encoding = self._encoding(call)
                nm, t = tr.expr(call.args[0], env)
                if t != 'string':
                    self.err(s, 'file name is not a string')
                if len(s.body) != 1 or not isinstance(s.body[0], ast.For):
                    self.err(s, 'expected a single for loop in the with block')
                loop = s.body[0]
                if not (isinstance(loop.target, ast.Tuple) and len(loop.target.elts) == 2
                        and all(isinstance(e, ast.Name) for e in loop.target.elts)
                        and isinstance(loop.iter, ast.Call) and _dotted(loop.iter.func) == 'enumerate'
                        and len(loop.iter.args) == 1 and _dotted(loop.iter.args[0]) == 'x'
                        and not loop.iter.keywords and not loop.orelse):
                    self.err(loop, 'expected  for i, v in enumerate(x)')
                iv, vv = (e.id for e in loop.target.elts)
                if len(loop.body) != 1:
                    self.err(loop, 'expected a single print in the loop')
                pr = _call_of(loop.body[0], 'print')
                if pr is None or len(pr.args) != 1 or len(pr.keywords) != 1 or pr.keywords[0].arg != 'file' \
                        or _dotted(pr.keywords[0].value) != pf:
                    self.err(loop.body[0], f'expected print(<one f-string>, file={pf})')
                if self._line is not None:
                    self.err(s, 'two write loops')
                self._line = self.line_format(pr.args[0], iv, vv)
                return (f'([OpenTrunc {nm}] ++ map (WriteLine {nm}) lines ++ [Close {nm}]) ++\n  ({go(rest, env)})')
            call = _call_of(s, 'os.replace')
            if call is not None:
                if len(call.args) != 2 or call.keywords:
                    self.err(s, 'expected os.replace(src, dst)')
                a, ta = tr.expr(call.args[0], env)
                b, tb = tr.expr(call.args[1], env)
                if ta != 'string' or tb != 'string':
                    self.err(s, 'os.replace on non-strings')
                return f'[Replace {a} {b}] ++ ({go(rest, env)})'
            self.err(s, 'unexpected statement in the write block')

        code = go(stmts, {})
        if self._line is None:
            raise Untranslatable(f'{SRC}: no write loop found in the save branch')
        steps = ('Definition gen_steps (iter_file_name : string) (lines : list string) : list fsop :=\n'
                 f'  {code}.\n')
        return steps, self._line

    def _encoding(self, call):
        """the codec of an open(...) call; the model identifies written and read text, which needs the SAME
        explicit codec on both sides (the locale's default is not UTF-8 everywhere)"""
        enc = [k.value for k in call.keywords if k.arg == 'encoding']
        if len(enc) != 1 or not (isinstance(enc[0], ast.Constant) and isinstance(enc[0].value, str)):
            self.err(call, 'open() without an explicit constant encoding (the locale default would be used)')
        e = enc[0].value.lower().replace('_', '-')
        if e not in ('utf-8', 'utf8'):
            self.err(call, f'encoding {enc[0].value!r}: parameter names that this codec cannot represent are not modelled')
        return 'utf-8'

    def _fn_call(self, tr, node, args):
        if node.args or node.keywords:
            tr.err(node, '_save_iterations_file_name takes no argument')
        return 'iter_file_name', 'string'

    def line_format(self, node, iv, vv):
        """print(f"{self.id_manager.free_betas.names[i]} = {v}", file=pf)"""
        if not isinstance(node, ast.JoinedStr):
            self.err(node, 'the printed line is not an f-string')

        def sub(tr, n, args):
            (b, tb), (i, ti) = args
            if b != 'names' or i != py2v.mangle(iv):
                tr.err(n, 'expected self.id_manager.free_betas.names[<loop index>]')
            return 'name_i', 'string'

        tr = py2v.Translator(self.tr.source, SRC,
                             attrs={'self.id_manager.free_betas.names': ('names', 'list string')},
                             externals={'subscript:list string': External(sub)})
        # {v} without conversion / format spec is str(v): the model passes str(v) as a string
        c, t = tr.fstring(node, {iv: 'Z', vv: 'string'})
        used = [n.id for n in ast.walk(node) if isinstance(n, ast.Name)]
        if used.count(vv) != 1:
            self.err(node, 'the value must be printed exactly once')
        return (f'Definition gen_line (name_i : string) ({py2v.mangle(vv)} : string) : string :=\n'
                f'  ({c} ++ {NL})%string.\n')

    # ------------------------------------------------------------------ parser
    def parser(self):
        fd = self.func('_load_saved_iteration')
        body = [s for s in fd.body if not _is_doc(s)]
        if len(body) != 3:
            self.err(fd, 'expected  filename = ...; betas = {}; try: ...')
        v = _assign_of(body[0], 'filename')
        if not (isinstance(v, ast.Call) and _dotted(v.func) == 'self._save_iterations_file_name' and not v.args):
            self.err(body[0], 'expected filename = self._save_iterations_file_name()')
        v = _assign_of(body[1], 'betas')
        if not (isinstance(v, ast.Dict) and not v.keys):
            self.err(body[1], 'expected betas = {}')
        t = body[2]
        if not (isinstance(t, ast.Try) and not t.orelse and not t.finalbody and len(t.handlers) == 1
                and _dotted(t.handlers[0].type) == 'OSError' and all(_is_logger(s) for s in t.handlers[0].body)):
            self.err(t, 'expected try: ... except OSError: <log only>')
        tb = [s for s in t.body if not _is_logger(s)]
        if len(tb) != 2:
            self.err(t, 'expected  with open(...): ...  and  self.change_init_values(betas)')
        w, ch = tb
        call = _call_of(ch, 'self.change_init_values')
        if call is None or len(call.args) != 1 or _dotted(call.args[0]) != 'betas' or call.keywords:
            self.err(ch, 'expected self.change_init_values(betas)')
        if not (isinstance(w, ast.With) and len(w.items) == 1 and isinstance(w.items[0].optional_vars, ast.Name)):
            self.err(w, 'expected with open(filename, ...) as fp')
        fp = w.items[0].optional_vars.id
        oc = w.items[0].context_expr
        if not (isinstance(oc, ast.Call) and _dotted(oc.func) == 'open' and len(oc.args) == 1
                and _dotted(oc.args[0]) == 'filename' and all(k.arg == 'encoding' for k in oc.keywords)):
            self.err(w, 'expected open(filename, encoding=...) (text mode, reading)')
        self.read_encoding = self._encoding(oc)
        if not (len(w.body) == 1 and isinstance(w.body[0], ast.For) and isinstance(w.body[0].target, ast.Name)
                and _dotted(w.body[0].iter) == fp and not w.body[0].orelse and len(w.body[0].body) == 2):
            self.err(w, 'expected  for line in fp: <two statements>')
        loop = w.body[0]
        line = loop.target.id
        s1, s2 = loop.body
        if not (isinstance(s1, ast.Assign) and len(s1.targets) == 1 and isinstance(s1.targets[0], ast.Name)):
            self.err(s1, 'expected ell = line.split(...)')
        ell = s1.targets[0].id
        sp = s1.value
        if not (isinstance(sp, ast.Call) and isinstance(sp.func, ast.Attribute) and _dotted(sp.func.value) == line
                and not sp.keywords and sp.args and isinstance(sp.args[0], ast.Constant)
                and isinstance(sp.args[0].value, str) and len(sp.args[0].value) == 1
                and 32 <= ord(sp.args[0].value) < 127 and sp.args[0].value != '"'):
            self.err(s1, 'expected <line>.split("<c>") or <line>.rsplit("<c>", 1)')
        sep = f'"{sp.args[0].value}"%char'
        if sp.func.attr == 'split' and len(sp.args) == 1:
            split = f'split_on {sep} line'
        elif sp.func.attr == 'rsplit' and len(sp.args) == 2 and isinstance(sp.args[1], ast.Constant) \
                and sp.args[1].value == 1:
            split = f'rsplit1 {sep} line'
        else:
            self.err(s1, 'unsupported split')
        # betas[ell[i].strip()] = float(ell[j])
        if not (isinstance(s2, ast.Assign) and len(s2.targets) == 1 and isinstance(s2.targets[0], ast.Subscript)
                and _dotted(s2.targets[0].value) == 'betas'):
            self.err(s2, 'expected betas[...] = float(...)')

        def idx(n):
            if isinstance(n, ast.Subscript) and _dotted(n.value) == ell and isinstance(n.slice, ast.Constant) \
                    and isinstance(n.slice.value, int) and not isinstance(n.slice.value, bool) and n.slice.value >= 0:
                return n.slice.value
            self.err(n, f'expected {ell}[<non-negative constant>]')

        key = s2.targets[0].slice
        if not (isinstance(key, ast.Call) and isinstance(key.func, ast.Attribute) and key.func.attr == 'strip'
                and not key.args and not key.keywords):
            self.err(s2, 'expected the key  ell[i].strip()')
        i0 = idx(key.func.value)
        val = s2.value
        if not (isinstance(val, ast.Call) and _dotted(val.func) == 'float' and len(val.args) == 1 and not val.keywords):
            self.err(s2, 'expected the value  float(ell[j])')
        i1 = idx(val.args[0])
        return ('Definition gen_parse (line : string) : option (string * string) :=\n'
                f'  let ell := {split} in\n'
                f'  match nth_error ell {i0}%nat, nth_error ell {i1}%nat with\n'
                '  | Some a, Some b => Some (py_strip a, b)\n  | _, _ => None\n  end.\n')

    # ------------------------------------------------------------------ prologues
    def prologue(self, name):
        fd = self.func(name)
        ops = []
        seen_opt = False
        words = {'bestIteration', '_load_saved_iteration', 'save_iterations', '_save_iterations_file_name'}
        for s in fd.body:
            has_opt = any(isinstance(n, ast.Call) and _dotted(n.func) == 'self.optimize' for n in ast.walk(s))
            if not seen_opt and not has_opt:
                if isinstance(s, ast.If) and _dotted(s.test) == 'self.save_iterations' and not s.orelse:
                    inner = [x for x in s.body if not _is_logger(x)]
                    c = _call_of(inner[0], 'self._load_saved_iteration') if len(inner) == 1 else None
                    if c is None or c.args or c.keywords:
                        self.err(s, 'expected  if self.save_iterations: self._load_saved_iteration()')
                    ops.append('LoadSaved')
                    continue
                v = _assign_of(s, 'self.bestIteration')
                if v is not None:
                    if not (isinstance(v, ast.Constant) and v.value is None):
                        self.err(s, 'expected self.bestIteration = None')
                    ops.append('ResetBest')
                    continue
                if _mentions(s, words):
                    self.err(s, f'unexpected use of the save machinery before the optimiser in {name}')
                continue
            if has_opt and not seen_opt:
                seen_opt = True
                if not isinstance(s, ast.Assign):
                    self.err(s, 'the first call of self.optimize is not a plain assignment')
                continue
            # after the optimiser
            if _mentions(s, {'bestIteration', '_load_saved_iteration'}):
                self.err(s, f'unexpected use of the marker / loader after the optimiser in {name}')
        if not seen_opt:
            raise Untranslatable(f'{SRC}: {name} does not call self.optimize at top level')
        return ops

    def bootstrap(self):
        fd = self.func('estimate')
        blocks = [s for s in fd.body if isinstance(s, ast.If) and _dotted(s.test) == 'run_bootstrap']
        if len(blocks) != 1 or blocks[0].orelse:
            raise Untranslatable(f'{SRC}: estimate: expected exactly one `if run_bootstrap:` block')
        for s in fd.body:
            if s is not blocks[0] and _mentions(s, {'_saving_suspended'}):
                self.err(s, '_saving_suspended used outside the bootstrap block')
        body = blocks[0].body

        def has_opt(s):
            return any(isinstance(n, ast.Call) and _dotted(n.func) == 'self.optimize' for n in ast.walk(s))

        loops = [i for i, s in enumerate(body) if has_opt(s)]
        if len(loops) != 1:
            self.err(blocks[0], 'expected one statement (for / try) holding the bootstrap re-estimations')
        k = loops[0]
        loop = body[k]
        after = list(body[k + 1:])
        n_final = 0
        if isinstance(loop, ast.Try):
            if loop.handlers or loop.orelse:
                self.err(loop, 'unexpected except/else on the bootstrap try')
            inner = loop.body
            n_final = len(loop.finalbody)
            after = list(loop.finalbody) + after
        else:
            inner = [loop]
        if not (len(inner) == 1 and isinstance(inner[0], ast.For)):
            self.err(loop, 'expected a single for loop over the bootstrap samples')
        if _mentions(inner[0], {'_saving_suspended', 'bestIteration', 'save_iterations'}):
            self.err(inner[0], 'the bootstrap loop touches the save machinery')
        set_true = False
        for s in body[:k]:
            v = _assign_of(s, 'self._saving_suspended')
            if v is not None:
                if not (isinstance(v, ast.Constant) and v.value is True):
                    self.err(s, 'expected self._saving_suspended = True')
                set_true = True
            elif _mentions(s, {'_saving_suspended'}):
                self.err(s, 'unexpected use of _saving_suspended')
        set_false = False
        restores = False
        abort_resumes = False
        abort_restores = False
        for pos, s in enumerate(after):
            in_finally = pos < n_final  # executed also when the loop is left by an exception
            v = _assign_of(s, 'self._saving_suspended')
            if v is not None:
                if not (isinstance(v, ast.Constant) and v.value is False):
                    self.err(s, 'expected self._saving_suspended = False')
                set_false = True
                abort_resumes = abort_resumes or in_finally
                continue
            if _mentions(s, {'_saving_suspended'}):
                self.err(s, 'unexpected use of _saving_suspended')
            # if self.database.is_panel(): self.theC.setDataMap(self.database.individualMap)
            # else: self.theC.setData(self.database.data)
            if isinstance(s, ast.If) and isinstance(s.test, ast.Call) and _dotted(s.test.func) == 'self.database.is_panel' \
                    and len(s.body) == 1 and len(s.orelse) == 1:
                a = _call_of(s.body[0], 'self.theC.setDataMap')
                b = _call_of(s.orelse[0], 'self.theC.setData')
                if a is not None and b is not None and len(a.args) == 1 and len(b.args) == 1 \
                        and _dotted(a.args[0]) == 'self.database.individualMap' \
                        and _dotted(b.args[0]) == 'self.database.data':
                    restores = True
                    abort_restores = abort_restores or in_finally
                    continue
            if any(isinstance(n, ast.Call) and (_dotted(n.func) or '').startswith('self.theC.setData')
                   for n in ast.walk(s)):
                self.err(s, 'unrecognised data transfer to the engine after the bootstrap loop')
        if set_true != set_false:
            self.err(blocks[0], '_saving_suspended is set but not reset (or reset but not set) around the bootstrap loop')
        if not set_true:
            abort_resumes = True  # never suspended: nothing to resume
        return set_true, restores, abort_resumes, abort_restores

    # ------------------------------------------------------------------ all
    def generate(self):
        self.check_writers()
        self.check_init()
        parts = [
            'From BV Require Import Model.PyBase Model.Iter.\nOpen Scope string_scope.\nOpen Scope list_scope.\n',
            self.file_name(),
            self.save_branch(),
            self.parser(),
        ]
        est = self.prologue('estimate')
        qck = self.prologue('quick_estimate')
        susp, rest, ab_res, ab_rest = self.bootstrap()
        if getattr(self, 'write_encoding', None) != getattr(self, 'read_encoding', None):
            raise Untranslatable(f'{SRC}: the iteration file is written and read with different codecs')
        b = lambda x: 'true' if x else 'false'
        parts.append(
            f'Definition gen_estimate : list startop := [{"; ".join(est)}].\n'
            f'Definition gen_quick : list startop := [{"; ".join(qck)}].\n'
            f'Definition gen_boot_suspends : bool := {b(susp)}.\n'
            f'Definition gen_boot_restores : bool := {b(rest)}.\n'
            f'Definition gen_abort_resumes : bool := {b(ab_res)}.\n'
            f'Definition gen_abort_restores : bool := {b(ab_rest)}.\n'
            'Definition the_code : code := {|\n'
            '  c_file_name := gen_file_name; c_guard := gen_guard; c_mark0 := gen_mark0; c_test := gen_test;\n'
            '  c_mark1 := gen_mark1; c_steps := gen_steps; c_line := gen_line; c_parse := gen_parse;\n'
            '  c_estimate := gen_estimate; c_quick := gen_quick;\n'
            '  c_boot_suspends := gen_boot_suspends; c_boot_restores := gen_boot_restores;\n'
            '  c_abort_resumes := gen_abort_resumes; c_abort_restores := gen_abort_restores |}.\n')
        return '\n'.join(parts)


# ======================================================================================
#                                   the check (harness)
# ======================================================================================
import json
import math
import os
from fractions import Fraction
from pathlib import Path

from common import coq_list, parse_bools, VERIF

CORPUS = VERIF / 'corpus' / 'C15'

ASSUME = [
    'A1: os.replace(src, dst) is one indivisible step (POSIX rename): dst holds its old content before and the '
    'complete new content after (Section hypothesis os_replace_is_atomic)',
    'A2: float(str(v)) == v bit for bit for the doubles handed to an evaluation (Section hypothesis float_of_str; '
    'checked on every value of every stream)',
    'A3: str(v) of a double has no white space at its ends, no "=" and no line break (Section hypotheses; checked on '
    'every value of every stream)',
    'parameter names have no line break and no white space (Unicode white space included) at their ends (they may '
    'contain "=" and non-ASCII characters: strings are byte sequences in the model, the file is UTF-8 on both sides -- '
    'the extractor refuses an open() without explicit utf-8 encoding); free parameter names are distinct; the MODEL '
    'name must be representable in the file-system encoding of the process',
    'an exception may leave estimate()/quick_estimate() anywhere (BootstrapAbort when inside the bootstrap loop); the '
    'object stays usable',
    'what a user does to the file or to the model name between two runs on one object (older check point put back, '
    'file removed, model renamed) is not an operation of the model: T15a_file_is_best_after_any_start covers it by '
    'quantifying over an ARBITRARY earlier state and file system, and the iter stream runs such sessions oracle-only',
    'the log likelihood is not NaN at a point whose gradient norm is finite (hypothesis f_not_nan of T15a/T15c)',
    'a write is modelled byte by byte (every prefix of the content is a possible crash state); a crash is the end of '
    'the process (page cache survives), not a power failure: durability (fsync) is outside the property',
    'one process at a time works on a given model name in a given directory',
]

TRUSTED = [
    'tie A: specialised fail-closed AST extractor in /verif/lib/props/C15.py (+ /verif/lib/py2v for expressions) '
    'regenerating Gen/IterSave.v (save condition, marker updates, write discipline, line format, parser, prologues of '
    'estimate/quick_estimate, bootstrap suspension/restoration); the generated record is pinned to its meaning by '
    'the lemma the_code_ok and validated on this run by streams iter/parse/crash (real BIOGEME objects vs vm_compute)',
    'tie B: hand-written session semantics Model/Iter.v (file system, process state, change_init_values, length '
    'check), compared with the implementation after every call',
    'crash injection by monkey-patching biogeme.biogeme.open and os.replace in a forked child (os._exit); the restart '
    'runs in another forked process image',
]


def unhex(s):
    if s in ('nan', 'inf', '-inf'):
        return float(s)
    return float.fromhex(s)


def fhex(v):
    v = float(v)
    if math.isnan(v):
        return 'nan'
    if math.isinf(v):
        return 'inf' if v > 0 else '-inf'
    return v.hex()


def txt(h):
    """str(v) of the double as numpy prints it (x is a numpy array in the implementation)"""
    import numpy as np
    return str(np.float64(unhex(h)))


def enc(n):
    """a (possibly non-ASCII) name as the bytes written to the UTF-8 file, one latin-1 character per byte: the
    representation used for file contents everywhere in the harness and for strings in the model"""
    return n.encode('utf-8').decode('latin-1')


def dec(b):
    """inverse of enc on whole file contents; None when the bytes are not UTF-8"""
    try:
        return b.encode('latin-1').decode('utf-8')
    except (UnicodeDecodeError, UnicodeEncodeError):
        return None


# a process whose preferred encoding is NOT UTF-8 (C locale, UTF-8 mode off): open() without an explicit
# encoding then uses ASCII.  stdio stays UTF-8 so that progress bars cannot fail.
C_LOCALE = {'LC_ALL': 'C', 'LANG': 'C', 'PYTHONUTF8': '0', 'PYTHONCOERCECLOCALE': '0', 'PYTHONIOENCODING': 'utf-8'}


def run_sessions(ctx, mode, sessions, nb, timeout=1500):
    """run the sessions in nb batches per locale group, all batches side by side"""
    from concurrent.futures import ThreadPoolExecutor
    groups = {False: [], True: []}
    for i, s_ in enumerate(sessions):
        groups[bool(s_.get('clocale'))].append(i)
    jobs = []
    for flag, idx in groups.items():
        if not idx:
            continue
        n = max(1, min(nb, len(idx)) if not flag else max(1, min(nb // 2, len(idx))))
        B = (len(idx) + n - 1) // n
        for j in range(0, len(idx), B):
            jobs.append((flag, idx[j:j + B]))
    out = [None] * len(sessions)
    with ThreadPoolExecutor(max_workers=max(1, len(jobs))) as ex:
        futs = [(idx, ex.submit(ctx.impl, 'c15_iter.py', {'mode': mode, 'sessions': [sessions[i] for i in idx]},
                                timeout, C_LOCALE if flag else None)) for flag, idx in jobs]
        for idx, f in futs:
            for i, r in zip(idx, f.result()):
                out[i] = r
    return out


def cs(s):
    """Gallina string for arbitrary latin-1 text"""
    if s is None:
        return 'None'
    out = []
    run = ''
    for ch in s:
        if 32 <= ord(ch) < 127 and ch != '"':
            run += ch
        else:
            if run:
                out.append(('s', run))
                run = ''
            out.append(('c', ord(ch)))
    if run:
        out.append(('s', run))
    code = '""'
    for kind, v in reversed(out):
        if kind == 's':
            code = f'"{v}"' if code == '""' else f'("{v}" ++ {code})'
        elif v == 10:
            code = f'(String nl {code})'
        else:
            code = f'(String (ascii_of_nat {v}) {code})'
    return f'({code})%string'


def cos(s):
    return 'None' if s is None else f'(Some {cs(s)})'


def cfval(h, S=1074):
    """FFin z with z = f * 2^S (S is common to a whole session: the model only compares)"""
    if h == 'nan':
        return 'FNaN'
    if h == 'inf':
        return 'FPInf'
    if h == '-inf':
        return 'FMInf'
    z = Fraction(float.fromhex(h)) * 2 ** S
    assert z.denominator == 1
    n = z.numerator
    return f'(FFin (- {hex(-n)})%Z)' if n < 0 else f'(FFin ({hex(n)})%Z)'


def cofval(h, S=1074):
    return 'None' if h is None else f'(Some {cfval(h, S)})'


def scale_of(hs):
    """smallest S such that every finite f * 2^S is an integer"""
    S = 0
    for h in hs:
        if h is None or h in ('nan', 'inf', '-inf'):
            continue
        q = Fraction(float.fromhex(h)).denominator
        S = max(S, q.bit_length() - 1)
    return S


def cvec(x):
    return coq_list([cs(txt(v)) for v in x])


def frac(h):
    """exact value for comparisons; None for nan"""
    if h == 'nan':
        return None
    if h == 'inf':
        return Fraction(10) ** 400
    if h == '-inf':
        return -Fraction(10) ** 400
    return Fraction(float.fromhex(h))


HEADER = r'''From Coq Require Import ZArith List String Ascii Bool.
From BV Require Import Model.PyBase Model.Iter Gen.IterSave.
Import ListNotations.
Open Scope string_scope.
Open Scope list_scope.
Definition fval_eqb (a b : fval) : bool :=
  match a, b with
  | FNaN, FNaN => true | FMInf, FMInf => true | FPInf, FPInf => true
  | FFin x, FFin y => Z.eqb x y | _, _ => false end.
Definition opt_eqb {A} (e : A -> A -> bool) (a b : option A) : bool :=
  match a, b with Some x, Some y => e x y | None, None => true | _, _ => false end.
Fixpoint list_eqb {A} (e : A -> A -> bool) (a b : list A) : bool :=
  match a, b with [] , [] => true | x :: r, y :: s => e x y && list_eqb e r s | _, _ => false end.
Record obs := { o_file : option string; o_tmp : option string; o_best : option fval; o_susp : bool;
                o_init : list string }.
Notation T := string.
Definition tstep := step T show_txt read_txt os_replace_atomic the_code.
Definition chk (cfg : config T) (s : state T) (o : obs) : bool :=
  opt_eqb String.eqb (st_fs T s (fname T the_code cfg)) (o_file o)
  && opt_eqb String.eqb (st_fs T s (fname T the_code cfg ++ ".tmp")%string) (o_tmp o)
  && opt_eqb fval_eqb (st_best T s) (o_best o)
  && Bool.eqb (st_susp T s) (o_susp o)
  && list_eqb String.eqb (st_init T s) (o_init o).
Fixpoint chk_run (cfg : config T) (s : state T) (l : list (op T * option obs)) : list bool :=
  match l with
  | [] => []
  | (o, ob) :: r =>
      let s' := tstep cfg s o in
      match ob with Some b => chk cfg s' b :: chk_run cfg s' r | None => chk_run cfg s' r end
  end.
Definition Observe : op T := (Eval (@nil T) FNaN false).
Definition start_fs (cfg : config T) (pre : option string) : fs :=
  match pre with Some p => upd empty_fs (fname T the_code cfg) (Some p) | None => empty_fs end.
Definition run_case (c : config T * option string * list (op T * option obs)) : list bool :=
  let '(cfg, pre, l) := c in chk_run cfg (fresh T cfg (start_fs cfg pre)) l.
(* reading a crafted file: expected success flag and resulting starting values *)
Definition load_case (c : config T * string * bool * list string) : bool :=
  let '(cfg, content, ok, init) := c in
  match load_saved T read_txt the_code cfg (start_fs cfg (Some content)) (cf_init0 T cfg) with
  | Some i => ok && list_eqb String.eqb i init
  | None => negb ok
  end.
Definition name_case (c : string * string) : bool := String.eqb (c_file_name the_code (fst c)) (snd c).
'''


CASE_TYPES = {
    'run_case': 'config T * option string * list (op T * option obs)',
    'load_case': 'config T * string * bool * list string',
    'name_case': 'string * string',
}


def ccfg(sess):
    return ('{| cf_names := ' + coq_list([cs(enc(n)) for n in sess['names']]) + '; cf_model := ' + cs(sess['model'])
            + '; cf_save := ' + ('true' if sess['save'] else 'false') + '; cf_init0 := ' + cvec(sess['init']) + ' |}')


def cobs(o, S=1074):
    if o is None:
        return 'None'
    return ('(Some {| o_file := ' + cos(o['file']) + '; o_tmp := ' + cos(o['tmp']) + '; o_best := ' + cofval(o.get('best'), S)
            + '; o_susp := ' + ('true' if o.get('susp') else 'false') + '; o_init := ' + cvec(o.get('init') or []) + ' |})')


def cop(o, S):
    """operation: a Gallina text, or ('Eval', x, f, g) / ('CrashEval', x, f, g, k)"""
    if isinstance(o, str):
        return o
    if o[0] == 'Eval':
        return f'(Eval {cvec(o[1])} {cfval(o[2], S)} {"true" if o[3] else "false"})'
    return f'(CrashEval {cvec(o[1])} {cfval(o[2], S)} {"true" if o[3] else "false"} {o[4]})'


# ------------------------------------------------------------------- history of a session
class Hist:
    """Turns the implementation's records into (a) the Gallina operation list with observations and
    (b) the property oracle, evaluated directly on the observations with exact rationals."""

    def __init__(self, sess, pre_file):
        self.sess = sess
        self.items = []  # (coq op, obs or None, label)
        self.counted = []  # (x hex list, f hex) since the last start
        self.inboot = False
        self.model = sess['model']  # current name of the model (rename operations change it)
        self.files = {('__' + k + '.iter' if not k.endswith('.iter') else k): v
                      for k, v in (sess.get('other_files') or {}).items()}
        self.prev_file = pre_file
        self.viol = []  # (key, what, detail)
        self.n_eval = 0
        self.kinds = set()
        self.unmodelled = False

    @property
    def fname(self):
        return '__' + self.model + '.iter'

    @property
    def prev_file(self):
        return self.files.get(self.fname)

    @prev_file.setter
    def prev_file(self, v):
        self.files[self.fname] = v

    def check_other_files(self, obs, where):
        """iteration files of OTHER model names are never touched"""
        got = obs.get('files')
        if got is None:
            return
        for n in set(got) | set(self.files):
            if n == self.fname:
                continue
            if got.get(n) != self.files.get(n):
                self.viol.append(('C15/iter/other-file-touched',
                                  f'the iteration file {n} of another model name was written while the model is called '
                                  f'{self.model!r}', {'where': where, 'file': n, 'before': self.files.get(n), 'after': got.get(n)}))
                self.files[n] = got.get(n)

    def lines(self, x):
        return ''.join(f'{enc(n)} = {txt(v)}\n' for n, v in zip(self.sess['names'], x))

    def best(self):
        b = None
        for x, f in self.counted:
            if frac(f) is None:
                return 'nan'
            if b is None or frac(f) >= frac(b[1]):
                b = (x, f)
        return b

    def design_f(self, x):
        """exact rational value of the designed log likelihood at x ON THE ESTIMATION DATA"""
        sess = self.sess
        rows = sess.get('rows', 2)
        tot = Fraction(0)
        for k, (xv, t) in enumerate(zip(x, sess['targets'])):
            w = sess['weights'][k]
            W = sum(Fraction(w[r % len(w)]) for r in range(rows))
            tot -= W * (Fraction(unhex(xv)) - Fraction(unhex(t))) ** 2
        if sess.get('div', True):
            w = sess['weights'][0]
            tot -= sum(1 / Fraction(w[r % len(w)]) for r in range(rows))
        return tot

    def check_data(self, x, f, where):
        """the evaluation was made on the estimation data: the double returned by the engine equals the
        designed function up to 1e-9 relative (the function is a sum of at most 3*rows+rows same-sign
        products of doubles: its floating-point evaluation is within ~1e-14 relative of the exact value;
        another data set changes it by O(1) relative)"""
        try:
            if not all(math.isfinite(unhex(v)) for v in x) or frac(f) is None or not math.isfinite(unhex(f)):
                return
            d = self.design_f(x)
        except Exception:  # noqa
            return
        if abs(frac(f) - d) > Fraction(1, 10 ** 9) * max(1, abs(d)):
            self.viol.append(('C15/iter/evaluated-on-other-data',
                              'outside the bootstrap loop the likelihood was evaluated (and possibly saved) on data other '
                              'than the estimation data',
                              {'where': where, 'x': [unhex(v) for v in x], 'f_returned': unhex(f), 'f_on_estimation_data': float(d)}))

    def check_values(self, x, where):
        """assumptions A2/A3 on the actual doubles"""
        for v in x:
            t = txt(v)
            fv = unhex(v)
            back = float(t)
            same = (math.isnan(fv) and math.isnan(back)) or (back == fv and math.copysign(1, back) == math.copysign(1, fv))
            if not same or '=' in t or '\n' in t or t.strip() != t:
                self.viol.append(('C15/assumption/float-str', f'float(str(v)) != v or str(v) not clean for v={v}', where))

    def observe_file(self, obs, where):
        """the property, on the bytes found on disk"""
        self.check_other_files(obs, where)
        f = obs.get('file')
        b = self.best()
        if b == 'nan':
            self.prev_file = f
            return
        expected = self.lines(b[0]) if (b is not None and self.sess['save']) else self.prev_file
        if f != expected:
            kind = 'file-not-best' if b is not None else 'file-changed-without-counted-evaluation'
            self.viol.append((f'C15/iter/{kind}',
                              'the iteration file does not hold the best point evaluated so far (finite gradient, '
                              'estimation data, since the start of the estimation)',
                              {'where': where, 'expected_bytes': expected, 'observed_bytes': f,
                               'counted': [[[txt(v) for v in x], unhex(ff)] for x, ff in self.counted]}))
        elif f is not None and b is not None:
            # bit for bit after re-reading
            try:
                vals = [float(l.rsplit('=', 1)[1]) for l in f.split('\n') if l]
                ok = len(vals) == len(b[0]) and all(fhex(a) == fhex(unhex(c)) for a, c in zip(vals, b[0]))
            except Exception:  # noqa
                ok = False
            if not ok:
                self.viol.append(('C15/iter/not-bit-exact', 're-reading the file does not give back the doubles', where))
            if self.counted and frac(b[1]) < frac(self.counted[0][1]):
                self.viol.append(('C15/iter/below-start', 'saved point below the start', where))
        self.prev_file = f

    def add(self, op, obs, label):
        self.items.append((op, obs, label))

    def do_eval(self, x, rec, obs, label):
        self.n_eval += 1
        n = len(self.sess['names'])
        if rec.get('ok', True) and 'f' in rec:
            f, g = rec['f'], bool(rec['gfin'])
            self.add(('Eval', x, f, g), obs, label)
            self.check_values(x, label)
            if len(x) != n:
                self.viol.append(('C15/iter/wrong-length-accepted', 'a vector of the wrong length was evaluated', label))
            if g and not self.inboot and len(x) == n:
                self.check_data(x, f, label)
            if g and not self.inboot and self.sess['save'] and len(x) == n:
                self.counted.append((x, f))
                self.kinds.add('counted')
            elif not g:
                self.kinds.add('nonfinite')
            if self.inboot:
                self.kinds.add('boot')
            if rec.get('scaled'):
                self.kinds.add('scaled')
        else:
            self.add(('Eval', x, 'nan', False), obs, label)
            if len(x) == n or rec.get('exc') != 'ValueError':
                self.viol.append(('C15/iter/evaluation-raised', f'evaluation raised {rec.get("exc")}: {rec.get("msg")}', label))
            self.kinds.add('badlen')
        if obs is not None:
            self.observe_file(obs, label)

    def feed(self, i, op, rec):
        kind = op['op']
        label = f'step {i} ({kind})'
        if 'harness_exc' in rec:
            raise RuntimeError('implementation runner failed: ' + rec['harness_exc'])
        if kind == 'new':
            self.counted, self.inboot = [], False
            self.add('Kill', rec, label)
            self.observe_file(rec, label)
        elif kind == 'eval':
            self.do_eval(op['x'], rec, rec, label)
        elif kind in ('estimate', 'estimate_boot', 'quick'):
            file_before = self.prev_file
            self.counted = []
            self.kinds.add(kind)
            self.add('EstimateStart' if kind != 'quick' else 'QuickStart', None, label)
            for j, inn in enumerate(rec.get('inner', [])):
                if 'harness_exc' in inn:
                    raise RuntimeError('implementation wrapper failed: ' + inn['harness_exc'])
                if inn.get('sample'):
                    if not self.inboot:
                        self.add('BootstrapBegin', None, label)
                    self.inboot = True
                    continue
                self.do_eval(inn['x'], inn, inn, f'{label} evaluation {j}')
            if self.inboot:
                # left by an exception: only the `finally` clause of the loop has run
                self.add('BootstrapAbort' if rec.get('interrupted') else 'BootstrapEnd', None, label)
                self.inboot = False
                if rec.get('interrupted'):
                    self.kinds.add('abort')
            if rec.get('interrupted'):
                self.kinds.add('interrupted')
            elif not rec.get('ok'):
                self.viol.append(('C15/iter/estimation-raised', f'{kind} raised {rec.get("exc")}: {rec.get("msg")}', label))
            if rec.get('ok') and kind != 'quick' and rec.get('estimates') and len(rec['estimates']) == len(self.sess['names']):
                # normal end of estimate(): the estimates become the starting values of the object
                self.add(f'(EstimateEnd {cvec(rec["estimates"])})', None, label)
            self.add('Observe', rec, label)
            self.observe_file(rec, label)
            # a later estimation starts from the saved values
            if (rec.get('ok') or rec.get('interrupted')) and self.sess['save'] and file_before is not None:
                d = reference_dict(file_before)
                exp = None if d is None else [fhex(d[n]) if n in d else None for n in self.sess['names']]
                if exp is not None:
                    inner = [r for r in rec.get('inner', []) if 'x' in r]
                    # the starting values as they are DURING the run (at its end estimate() overwrites them
                    # with the estimates)
                    got = inner[0]['init'] if inner and inner[0].get('init') else rec.get('init')
                    first = inner[0]['x'] if inner else None
                    bad = any(e is not None and e != g for e, g in zip(exp, got))
                    # (the optimiser itself moves a start beyond ~1e154 inside its own numerical bounds: the first
                    # evaluation is compared only for ordinary magnitudes; the starting values always are)
                    ordinary = all(e is not None and abs(unhex(e)) < 1e100 for e in exp)
                    if bad or (first is not None and ordinary and first != exp):
                        self.viol.append(('C15/iter/restart-not-from-file',
                                          f'{kind} did not start from the values saved in the iteration file',
                                          {'where': label, 'file': file_before, 'starting_values': [unhex(g) for g in got],
                                           'first_evaluation': None if first is None else [unhex(v) for v in first]}))
        elif kind in ('findiff', 'checkder'):
            # other public entry points that evaluate the derivatives: their evaluations count like any other
            self.kinds.add(kind)
            for j, inn in enumerate(rec.get('inner', [])):
                if 'harness_exc' in inn:
                    raise RuntimeError('implementation wrapper failed: ' + inn['harness_exc'])
                if 'x' in inn:
                    self.do_eval(inn['x'], inn, inn, f'{label} evaluation {j}')
            if not rec.get('ok') and not rec.get('interrupted') and all(math.isfinite(unhex(v)) for v in op['x']) \
                    and len(op['x']) == len(self.sess['names']):
                self.viol.append(('C15/iter/evaluation-raised', f'{kind} raised {rec.get("exc")}: {rec.get("msg")}', label))
            self.add('Observe', rec, label)
            self.observe_file(rec, label)
        elif kind == 'load':
            self.add('Observe', None, label)
            if rec.get('ok') and self.prev_file is not None:
                ref = reference_load(self.sess['names'], self.sess['init'], self.prev_file)
                if ref is not None and ref != rec.get('init'):
                    self.viol.append(('C15/parse/restart-not-from-file',
                                      'after reading the iteration file the starting values are not the saved values',
                                      {'where': label, 'file': self.prev_file,
                                       'starting_values': [unhex(v) for v in rec.get('init')]}))
        elif kind == 'delete_file':
            # the user removes the file (oracle-only sessions: this operation is not in the model)
            self.unmodelled = True
            self.prev_file = None
        elif kind == 'put_file':
            # the user puts an older check point back / edits the file to choose another restart point
            # (always followed by the start of an estimation; oracle-only)
            self.unmodelled = True
            self.kinds.add('put_file')
            self.prev_file = op['content']
            self.counted = []
        elif kind == 'rename':
            # the model is renamed on the same object (always followed by the start of an estimation; oracle-only)
            self.unmodelled = True
            self.kinds.add('rename')
            self.model = op['name']
            self.counted = []
            self.check_other_files(rec, label)
            if rec.get('file') != self.prev_file:
                self.viol.append(('C15/iter/other-file-touched', 'renaming the model changed an iteration file', label))
            if rec.get('fname') is not None and rec['fname'] != self.fname:
                self.viol.append(('C15/iter/file-name', f'after the model was renamed {self.model!r} the iteration file name is '
                                  f'still {rec["fname"]!r}', label))
        else:
            raise RuntimeError(f'unknown op {kind}')

    def coq(self, pre_file):
        fs = [o[2] for o, _, _ in self.items if not isinstance(o, str)] + \
             [ob.get('best') for _, ob, _ in self.items if ob is not None]
        S = scale_of(fs)
        ops = coq_list([f'({cop(o, S)}, {cobs(ob, S)})' for o, ob, _ in self.items], ';\n  ')
        return f'({ccfg(self.sess)}, {cos(pre_file)},\n  {ops})'

    def labels(self):
        return [lab for _, ob, lab in self.items if ob is not None]


# ---------------------------------------------------------------------------- generators
NAME_POOL = ['b1', 'b2', 'asc_car', 'B_TIME', 'beta=1', 'x = y', 'a.b', 'z_9', 'lambda', '=', 'mu[1]', 'b 3',
             # not pure ASCII (2-, 3- and 4-byte UTF-8; a last byte 0xA0 / 0x85 that a byte-wise strip would eat)
             '\u03b2_time', '\u00e9 x', 'na\u00efve=1', '\u00df', '\u00e0', 'co\u00fbt_\u0105', '\u65e5\u672c', '\U0001d6fd1', '\u0445=\u0443']
MODEL_POOL = ['m', 'my model', 'a.b', 'logit_01', 'M=1']


def dy(rng, lo=-4, hi=4, bits=3):
    """a dyadic double with few bits, never 0"""
    while True:
        v = rng.randint(lo * 2 ** bits, hi * 2 ** bits) / 2 ** bits
        if v != 0:
            return v


def zeros(rng, x, p=0.3):
    """with probability p, one or more coordinates become exactly 0.0 or -0.0 (a parameter sitting on a
    bound 0): the model defaults are never 0, so a reader that skips falsy values is exposed"""
    x = list(x)
    if rng.random() < p:
        for i in rng.sample(range(len(x)), rng.randint(1, len(x))):
            x[i] = rng.choice([0.0, 0.0, -0.0])
    return x


def gen_session(rng, long=False, with_delete=False, external=False):
    k = rng.choice([1, 2, 2, 3])
    names = sorted(rng.sample(NAME_POOL, k))
    # an optimum with coordinates exactly 0: estimate() ends (and saves) there
    targets = zeros(rng, [dy(rng) for _ in range(k)], 0.35)
    init = [dy(rng) for _ in range(k)]
    weights = [[rng.choice([0.5, 1.0, 2.0] if j == 0 else [0.5, 1.0, 1.5, 2.0]) for _ in range(3)] for j in range(k)]
    sess = {'names': names, 'targets': [fhex(t) for t in targets], 'init': [fhex(v) for v in init],
            'weights': weights, 'rows': 3, 'model': rng.choice(MODEL_POOL), 'save': rng.random() < 0.9,
            'seed': rng.randint(0, 10 ** 6), 'bootstrap_samples': rng.choice([1, 2, 3]), 'div': True}
    pre = None
    if rng.random() < 0.4:
        x0 = zeros(rng, [dy(rng) for _ in range(k)], 0.4)
        pre = ''.join(f'{enc(n)} = {txt(fhex(v))}\n' for n, v in zip(names, x0))
    sess['pre_file'] = pre
    # half of the sessions run in a process whose preferred encoding is not UTF-8
    sess['clocale'] = rng.random() < 0.5
    ops = [{'op': 'new'}]
    last = None
    evaluated = []
    cur_name = [sess['model']]
    if external and rng.random() < 0.6:
        # iteration files of other model names, left by interrupted sessions
        sess['other_files'] = {}
        for m in rng.sample([m for m in MODEL_POOL + ['m2', 'other'] if m != sess['model']], 2):
            x0 = [t + dy(rng, -8, 8) for t in targets]
            sess['other_files']['__' + m + '.iter'] = ''.join(f'{enc(n)} = {txt(fhex(v))}\n' for n, v in zip(names, x0))

    def interrupt(op):
        """with some probability the call is left by an exception: right after its j-th evaluation (wherever
        that falls: main optimisation, final hessian, a bootstrap re-estimation) or at a resampling"""
        r_ = rng.random()
        if r_ < 0.22:
            op['interrupt_at'] = rng.randint(1, 9)
        elif r_ < 0.30 and op['op'] == 'estimate_boot':
            op['interrupt_sample'] = rng.randint(1, 3)
        return op

    n_ops = rng.randint(6, 14) if not long else rng.randint(15, 40)
    for _ in range(n_ops):
        r = rng.random()
        if r < 0.62:
            kind = rng.random()
            if kind < 0.30:  # towards the optimum: improving
                lam = rng.choice([0.5, 0.25, 0.75])
                base = last or init
                x = [t + (b - t) * lam for t, b in zip(targets, base)]
            elif kind < 0.50:  # far away: worsening
                x = [t + dy(rng, -8, 8) for t in targets]
            elif kind < 0.62 and last is not None:  # mirror image: exactly the same f, other point
                x = [2 * t - b for t, b in zip(targets, last)]
            elif kind < 0.70 and last is not None:  # the same point again
                x = list(last)
            elif kind < 0.82:  # finite f, non-finite gradient (b_1 = 0.1), possibly the best f so far
                x = [0.1] + [t for t in targets[1:]]
            elif kind < 0.88:
                x = [rng.choice([float('nan'), float('inf'), 1e300])] + [dy(rng) for _ in range(k - 1)]
            elif kind < 0.94:  # wrong length
                x = [dy(rng) for _ in range(k + rng.choice([-1, 1]))]
                if not x:
                    x = [dy(rng), dy(rng)]
            else:
                x = [dy(rng, bits=10) * rng.choice([1e-7, 1.0, 1e9, 1 / 3]) for _ in range(k)]
            if len(x) == k and all(math.isfinite(v) for v in x) and x[0] != 0.1:
                x = zeros(rng, x, 0.15)
                last = x
                evaluated.append(x)
            e = {'op': 'eval', 'x': [fhex(v) for v in x]}
            # the public API: per-observation values (scaled=True), hessian / BHHH requested, deprecated alias.
            # The marker always compares TOTALS, whatever the caller asks for.
            if rng.random() < 0.35:
                e['scaled'] = True
            if rng.random() < 0.15:
                e['hessian'] = True
            if rng.random() < 0.10:
                e['bhhh'] = True
            if rng.random() < 0.08:
                e['alias'] = True
            ops.append(e)
        elif r < 0.66 and last is not None and not (external and r >= 0.635):
            ops.append({'op': rng.choice(['findiff', 'checkder']), 'x': [fhex(v) for v in last]})
        elif external and r < 0.72:
            # what a user does between two runs ON THE SAME OBJECT, always followed by a new run:
            # puts an older / another check point back, removes the file, renames the model
            what = rng.random()
            if what < 0.45:
                src = rng.random()
                if src < 0.5 and evaluated:
                    x0 = rng.choice(evaluated)  # an older check point
                else:
                    x0 = [t + dy(rng, -8, 8) for t in targets]  # a poorer point chosen by hand
                ops.append({'op': 'put_file', 'content': ''.join(f'{enc(n)} = {txt(fhex(v))}\n' for n, v in zip(names, x0))})
            elif what < 0.55:
                ops.append({'op': 'delete_file'})
            else:
                others = [m for m in MODEL_POOL + ['m2', 'other'] if m != cur_name[0]]
                new_name = rng.choice(others)
                cur_name[0] = new_name
                ops.append({'op': 'rename', 'name': new_name})
            ops.append(interrupt({'op': rng.choice(['quick', 'quick', 'estimate', 'estimate_boot'])}))
            last = None
        elif r < 0.74:
            if with_delete and rng.random() < 0.6:
                ops.append({'op': 'delete_file'})
            ops.append(interrupt({'op': 'estimate'}))
            last = None
        elif r < 0.83:
            ops.append(interrupt({'op': 'estimate_boot'}))
            last = None
        elif r < 0.91:
            ops.append(interrupt({'op': 'quick'}))
            last = None
        else:
            ops.append({'op': 'new'})
            last = None
    sess['ops'] = ops
    return sess


def load_corpus(kind):
    out = []
    if CORPUS.exists():
        for p in sorted(CORPUS.glob(f'{kind}_*.json')):
            d = json.loads(p.read_text())
            d['_corpus'] = p.name
            out.append(d)
    return out


# ------------------------------------------------------------------------- stream: iter
def eval_cases(ctx, st, name, hdr_cases, per_file=40):
    """hdr_cases: list of (coq term, n_expected_bools, case json, labels, definition name).
    Returns list of bool lists (None when the evaluation failed)."""
    files = {}
    chunks = []
    for i in range(0, len(hdr_cases), per_file):
        chunk = hdr_cases[i:i + per_file]
        chunks.append(chunk)
        body = ';\n'.join(c[0] for c in chunk)
        files[f'{name}_{i // per_file}'] = (HEADER + f'Definition cases : list ({CASE_TYPES[chunk[0][4]]}) := [\n{body}\n].\n'
                                            f'Eval vm_compute in (List.map {chunk[0][4]} cases).\n')
    outs = ctx.coq_eval_many(files)
    res = []
    for ci, chunk in enumerate(chunks):
        ok, out = outs[f'{name}_{ci}']
        want = sum(c[1] for c in chunk)
        bs = parse_bools(out.split('=', 1)[1] if '=' in out else out) if ok else []
        if not ok or len(bs) != want:
            ctx.stream_broken(st.name, f'model evaluation failed ({len(bs)} results for {want}): ' + out[-800:])
            res += [None] * len(chunk)
            continue
        pos = 0
        for c in chunk:
            res.append(bs[pos:pos + c[1]])
            pos += c[1]
    return res


def report(ctx, viol, sess, mode):
    for key, what, detail in viol:
        ctx.violation(key, what, {'mode': mode, 'session': sess}, expected='see property C15', observed=detail,
                      how=f'./check C15 --replay <this file>  (runs the session with /verif/lib/impl/c15_iter.py, mode {mode})')


def stream_iter(ctx):
    st = ctx.stream('iter', 'sessions on real BIOGEME objects (1-3 parameters, designed quadratic log likelihood): '
                    'direct evaluations (improving / worsening / equal f at another point / same point / finite f with '
                    'non-finite gradient / nan, inf / wrong length / awkward doubles), estimate(), '
                    'estimate(run_bootstrap=True), quick_estimate(), new objects; bytes of __<model>.iter and of the '
                    '.tmp, marker, suspended flag and starting values compared with the model after EVERY evaluation '
                    '(also those issued by the optimiser); non-trivial = at least 2 counted evaluations and one '
                    'non-improving or non-finite one; distinct by (names, model, ops)')
    rng = ctx.sub_rng('iter')
    sessions = load_corpus('iter') + [gen_session(rng) for _ in range(ctx.n(48, 1500))] \
        + [gen_session(rng, long=True) for _ in range(ctx.n(6, 200))] \
        + [gen_session(rng, long=(i % 2 == 0), external=True) for i in range(ctx.n(24, 500))]
    results = run_sessions(ctx, 'iter', sessions, ctx.n(8, 16))
    cases = []
    for sess, res in zip(sessions, results):
        if 'harness_exc' in res:
            raise RuntimeError('implementation runner failed: ' + res['harness_exc'])
        h = Hist(sess, sess.get('pre_file'))
        for i, (op, rec) in enumerate(zip(sess['ops'], res['steps'])):
            # the id manager must present the names in the order the harness assumed (sorted)
            if rec.get('names') is not None and rec['names'] != sess['names']:
                ctx.stream_broken('iter', f'free parameter names {rec["names"]} != sorted {sess["names"]}')
            h.feed(i, op, rec)
            if rec.get('fname') is not None and rec['fname'] != h.fname and op['op'] != 'rename':
                h.viol.append(('C15/iter/file-name', f'file name {rec["fname"]} while the model is called {h.model!r}', f'step {i}'))
        key = {'names': sess['names'], 'model': sess['model'], 'ops': sess['ops'], 'pre': sess.get('pre_file')}
        st.record(key, nontrivial=len(h.kinds & {'counted'}) > 0 and h.n_eval >= 3
                  and bool(h.kinds & {'nonfinite', 'boot', 'badlen', 'estimate', 'quick', 'estimate_boot', 'scaled',
                                      'findiff', 'checkder', 'abort', 'interrupted'}))
        for kd in h.kinds:
            st.extra.setdefault('sessions_with', {}).setdefault(kd, 0)
            st.extra['sessions_with'][kd] += 1
        if sess.get('clocale') and any(ord(ch) > 127 for n in sess['names'] for ch in n):
            st.extra['sessions_non_ascii_names_in_C_locale'] = st.extra.get('sessions_non_ascii_names_in_C_locale', 0) + 1
        report(ctx, h.viol, sess, 'iter')
        if h.unmodelled:
            # sessions with operations outside the model (file replaced by the user, model renamed): oracle only
            st.extra['oracle_only_sessions'] = st.extra.get('oracle_only_sessions', 0) + 1
            continue
        cases.append((h.coq(sess.get('pre_file')), len(h.labels()), sess, h.labels(), 'run_case'))
    st.extra['evaluations_inside_sessions'] = sum(c[1] for c in cases)
    res = eval_cases(ctx, st, 'iter', cases, per_file=max(4, len(cases) // ctx.n(8, 16) + 1))
    for c, bs in zip(cases, res):
        if bs is None:
            continue
        for lab, b in zip(c[3], bs):
            if not b:
                st.disagree({'session': c[2], 'at': lab}, 'model state differs from the implementation', None)
                break
    if st.disagreements:
        ctx.stream_broken('iter', f'{len(st.disagreements)} sessions disagree, first at: {st.disagreements[0]["case"]["at"]} '
                          f'of session {json.dumps(st.disagreements[0]["case"]["session"])[:600]}')
    return sessions


# ------------------------------------------------------------------------ stream: parse
def gen_parse_case(rng):
    k = rng.choice([1, 2, 3])
    names = sorted(rng.sample(NAME_POOL, k))
    init = [dy(rng) for _ in range(k)]
    sess = {'names': names, 'targets': [fhex(1.0)] * k, 'init': [fhex(v) for v in init], 'weights': [[1.0]] * k,
            'rows': 1, 'model': rng.choice(MODEL_POOL), 'save': True, 'div': False,
            'clocale': rng.random() < 0.5}
    lines = []
    pool = names + rng.sample(NAME_POOL, 2)
    ok = True
    for _ in range(rng.randint(0, 5)):
        n = enc(rng.choice(pool))
        v = rng.choice([dy(rng), dy(rng, bits=10) * 1e-7, 1e22, float('inf'), -0.0, 0.0, 0.0, 123456.789, 1 / 3])
        t = txt(fhex(v))
        r = rng.random()
        if r < 0.55:
            l = f'{n} = {t}\n'
        elif r < 0.65:
            l = f'{n}={t}\n'
        elif r < 0.75:
            l = f'  {n}  =\t{t}  \n'
        elif r < 0.80:
            l = f'{n} = {t}'  # no line terminator (only sensible as the last line, but anywhere is legal input)
        elif r < 0.85:
            l = f'{n} = \n'  # float('') -> ValueError
        elif r < 0.90:
            l = f'{n} = abc\n'
        elif r < 0.94:
            l = '\n'  # IndexError
        elif r < 0.97:
            l = f'{n}\n'  # no '=': IndexError
        else:
            l = f'{n} = 1.0 2.0\n'
        lines.append(l)
    content = ''.join(lines)
    return sess, content


def reference_dict(content):
    """the property, for a reader of `name = value` lines: the dict name -> double of a file (given as the
    latin-1 image of its bytes), or None when the bytes are not UTF-8 or some line is not of that form"""
    text = dec(content)
    if text is None:
        return None
    d = {}
    try:
        lines = text.split('\n')
        if lines[-1] == '':
            lines.pop()
        for l in lines:
            a, b = l.rsplit('=', 1)
            d[a.strip(' \t\r\x0b\x0c')] = float(b)
    except Exception:  # noqa
        return None
    return d


def reference_load(names, init, content):
    """EVERY name present in the file overrides the starting value, whatever the value (0.0 and -0.0
    included); other names keep their default.  Returns the list of hex doubles, or None."""
    d = reference_dict(content)
    if d is None:
        return None
    return [fhex(d[n]) if n in d else i for n, i in zip(names, init)]


def stream_parse(ctx):
    st = ctx.stream('parse', '_load_saved_iteration on crafted files (spacing variants, names containing "=", unknown / '
                    'missing / repeated names, missing terminator, empty value, garbage, blank line, line without "="): '
                    'success flag and resulting starting values compared with the generated parser + model of '
                    'change_init_values; file names for random model names; non-trivial = file with at least one line; '
                    'distinct by (names, content)')
    rng = ctx.sub_rng('parse')
    cases = load_corpus('parse') + [dict(zip(('sess', 'content'), gen_parse_case(rng))) for _ in range(ctx.n(160, 3000))]
    sessions = []
    for c in cases:
        s = dict(c['sess'])
        s['pre_file'] = c['content']
        s['ops'] = [{'op': 'new'}, {'op': 'load'}]
        sessions.append(s)
    # file names for random model names ride in the same subprocesses
    names = ['m', 'my model', 'a.b', '', 'x__y', '.iter', 'M=1'] + [''.join(rng.choice('abcXYZ_.- 019') for _ in range(rng.randint(1, 12)))
                                                                  for _ in range(ctx.n(20, 200))]
    nsess = [{'names': ['b1'], 'targets': [fhex(1.0)], 'init': [fhex(0.5)], 'weights': [[1.0]], 'rows': 1, 'model': m,
              'save': True, 'div': False, 'ops': [{'op': 'new'}]} for m in names]
    allsess = sessions + nsess
    results = run_sessions(ctx, 'iter', allsess, ctx.n(6, 16), timeout=900)
    nres = results[len(sessions):]
    results = results[:len(sessions)]
    items = []
    for c, sess, res in zip(cases, sessions, results):
        if 'harness_exc' in res:
            raise RuntimeError('implementation runner failed: ' + res['harness_exc'])
        rec = res['steps'][1]
        st.record({'names': sess['names'], 'content': c['content']}, nontrivial=bool(c['content']))
        if rec['file'] != c['content']:
            ctx.violation('C15/parse/file-modified', 'reading the iteration file modified it', {'mode': 'iter', 'session': sess},
                          c['content'], rec['file'])
        if not rec['ok'] and rec['exc'] not in ('ValueError', 'IndexError'):
            ctx.violation('C15/parse/unexpected-exception', f'_load_saved_iteration raised {rec["exc"]}: {rec.get("msg")}',
                          {'mode': 'iter', 'session': sess})
        ref = reference_load(sess['names'], sess['init'], c['content'])
        if rec['ok'] and ref is not None and ref != rec['init']:
            ctx.violation('C15/parse/restart-not-from-file',
                          'after reading the iteration file the starting values are not the saved values',
                          {'mode': 'iter', 'session': sess}, expected=[unhex(v) for v in ref],
                          observed={'file': c['content'], 'starting_values': [unhex(v) for v in rec['init']]},
                          how='./check C15 --replay <this file>')
        term = (f'({ccfg(sess)}, {cs(c["content"])}, {"true" if rec["ok"] else "false"}, {cvec(rec["init"])})')
        items.append((term, 1, sess, ['load'], 'load_case'))
    for m, r in zip(names, nres):
        st.record({'model': m}, nontrivial=True)
        items.append((f'({cs(m)}, {cs(r["steps"][0]["fname"])})', 1, m, ['name'], 'name_case'))
    load_items = [i for i in items if i[4] == 'load_case']
    name_items = [i for i in items if i[4] == 'name_case']
    res = eval_cases(ctx, st, 'parse', load_items, per_file=max(10, len(load_items) // ctx.n(5, 16) + 1)) \
        + eval_cases(ctx, st, 'names', name_items, per_file=250)
    for c, bs in zip(load_items + name_items, res):
        if bs is not None and not all(bs):
            st.disagree({'case': c[2], 'term': c[0][:400]}, 'generated parser / file name differs from the implementation', None)
    if st.disagreements:
        ctx.stream_broken('parse', f'{len(st.disagreements)} disagreements, first: {json.dumps(st.disagreements[0]["case"])[:700]}')


# ------------------------------------------------------------------------ stream: crash
def gen_crash_scenario(rng, use_estimate):
    k = rng.choice([2, 2, 3, 1])
    names = sorted(rng.sample(NAME_POOL, k))
    targets = zeros(rng, [dy(rng) for _ in range(k)], 0.4)
    init = [dy(rng) for _ in range(k)]
    weights = [[rng.choice([0.5, 1.0, 2.0]) for _ in range(2)] for _ in range(k)]
    sess = {'names': names, 'targets': [fhex(t) for t in targets], 'init': [fhex(v) for v in init], 'weights': weights,
            'rows': 2, 'model': rng.choice(MODEL_POOL), 'save': True, 'seed': 1, 'bootstrap_samples': 1, 'div': True,
            'clocale': rng.random() < 0.5}
    pre = None
    if rng.random() < 0.5:
        x0 = zeros(rng, [dy(rng) for _ in range(k)], 0.4)
        pre = ''.join(f'{enc(n)} = {txt(fhex(v))}\n' for n, v in zip(names, x0))
    sess['pre_file'] = pre
    if use_estimate:
        sess['ops'] = [{'op': 'new'}, {'op': rng.choice(['estimate', 'quick'])}]
    else:
        ops = [{'op': 'new'}]
        cur = list(init)
        for _ in range(rng.randint(2, 5)):
            r = rng.random()
            if r < 0.6:
                cur = [t + (b - t) * 0.5 for t, b in zip(targets, cur)]
                x = zeros(rng, cur, 0.2)
            elif r < 0.8:
                x = [t + dy(rng, -8, 8) for t in targets]
            else:
                x = [0.1] + targets[1:]
            e = {'op': 'eval', 'x': [fhex(v) for v in x]}
            if rng.random() < 0.3:
                e['scaled'] = True
            ops.append(e)
        sess['ops'] = ops
    sess['restart_ops'] = [{'op': 'new'}, {'op': 'estimate'}]
    return sess


def flat_evals(sess, steps):
    """the sequence of derivative evaluations of a (dry) run: (op index, inner index or None, x, f, gfin)"""
    out = []
    for i, (op, rec) in enumerate(zip(sess['ops'], steps)):
        if op['op'] == 'eval' and rec.get('ok'):
            out.append((i, None, op['x'], rec['f'], rec['gfin']))
        elif op['op'] in ('estimate', 'quick', 'estimate_boot'):
            for j, inn in enumerate(rec.get('inner', [])):
                if 'x' in inn:
                    out.append((i, j, inn['x'], inn['f'], inn['gfin']))
    return out


def crash_history(sess, dry, upto, k_steps, after, b_steps):
    """model history: everything before evaluation number `upto` as in the dry run, the crash, the
    restart by a new process"""
    h = Hist(sess, sess.get('pre_file'))
    n = 0
    done = False
    for i, (op, rec) in enumerate(zip(sess['ops'], dry['steps'])):
        if done:
            break
        kind = op['op']
        if kind == 'new':
            h.feed(i, op, rec)
        elif kind == 'eval':
            if n == upto:
                h.add(('CrashEval', op['x'], rec['f'], bool(rec['gfin']), k_steps),
                      {'file': after['file'], 'tmp': after['tmp'], 'best': None, 'susp': False, 'init': sess['init']},
                      'crash')
                done = True
            else:
                h.feed(i, op, rec)
            n += 1
        else:
            h.add('EstimateStart' if kind != 'quick' else 'QuickStart', None, 'start')
            h.counted = []
            for inn in rec.get('inner', []):
                if 'x' not in inn:
                    continue
                if n == upto:
                    h.add(('CrashEval', inn['x'], inn['f'], bool(inn['gfin']), k_steps),
                          {'file': after['file'], 'tmp': after['tmp'], 'best': None, 'susp': False, 'init': sess['init']},
                          'crash')
                    done = True
                    n += 1
                    break
                h.do_eval(inn['x'], inn, inn, f'step {i} evaluation')
                n += 1
    first_counted = h.counted[0] if h.counted else None
    pre_viol = list(h.viol)
    h.viol = []
    h.counted, h.inboot = [], False
    h.prev_file = after['file']
    for i, (op, rec) in enumerate(zip(sess['restart_ops'], b_steps)):
        h.feed(100 + i, op, rec)
    return h, first_counted, pre_viol


def stream_crash(ctx):
    st = ctx.stream('crash', 'a process (forked image) runs a scenario (scripted evaluations or a real estimate / '
                    'quick_estimate) and is stopped with os._exit inside save number j: right after open(), after every '
                    'byte count k of the content, between close and os.replace, right after os.replace -- for EVERY j '
                    'and k of the scenario (quick tier: a sample of k for the long ones); then a fresh process image '
                    'calls estimate(). Compared with the model: bytes of the file and of the .tmp after the crash, '
                    'state after every evaluation of the restart. Oracles: file absent or complete (old or new content), '
                    'restart succeeds, starts from the file (or the defaults), not below the original start; '
                    'non-trivial = crash strictly inside a save (after open, before replace); distinct by (scenario, j, k)')
    rng = ctx.sub_rng('crash')
    scenarios = load_corpus('crash') + [gen_crash_scenario(rng, use_estimate=(i % 2 == 1)) for i in range(ctx.n(4, 80))]
    dry = run_sessions(ctx, 'iter', scenarios, 2, timeout=900)
    sessions = []
    meta = []
    for sc, d in zip(scenarios, dry):
        if 'harness_exc' in d:
            raise RuntimeError('implementation runner failed: ' + d['harness_exc'])
        evs = flat_evals(sc, d['steps'])
        # which evaluations save, and how many bytes: from the observations of the dry run
        prev = sc.get('pre_file')
        j = 0
        hist = Hist(sc, sc.get('pre_file'))
        marker = None
        n = -1
        for i, (op, rec) in enumerate(zip(sc['ops'], d['steps'])):
            inner = [(None, op.get('x'), rec)] if op['op'] == 'eval' else \
                [(jj, inn['x'], inn) for jj, inn in enumerate(rec.get('inner', [])) if 'x' in inn]
            if op['op'] in ('new', 'estimate', 'quick', 'estimate_boot'):
                marker = None
            for jj, x, r in inner:
                if not r.get('ok', True) or 'f' not in r:
                    continue
                n += 1
                saves = r['gfin'] and len(x) == len(sc['names']) and frac(r['f']) is not None \
                    and (marker is None or frac(r['f']) >= frac(marker))
                if not saves:
                    continue
                marker = r['f']
                content = ''.join(f'{enc(nm)} = {txt(v)}\n' for nm, v in zip(sc['names'], x))
                L = len(content)
                points = [('byte', b) for b in range(0, L + 1)] + [('before_replace',), ('after_replace',)]
                if ctx.quick and len(points) > 14 and '_corpus' not in sc:
                    ends = {i + 1 for i, ch in enumerate(content) if ch == '\n'}
                    keep = {0, 1, L, L - 1} | ends | {e + 2 for e in ends if e + 2 < L} | set(rng.sample(range(2, L - 1), 4))
                    points = [p for p in points if p[0] != 'byte' or p[1] in keep]
                for p in points:
                    s2 = dict(sc)
                    s2['plan'] = {'save': j, 'point': list(p)}
                    sessions.append(s2)
                    k_steps = 1 + p[1] if p[0] == 'byte' else (L + 2 if p[0] == 'before_replace' else L + 3)
                    meta.append({'scenario': sc, 'dry': d, 'eval_no': n, 'k': k_steps, 'point': p, 'old': prev,
                                 'new': content})
                prev = content
                j += 1
    results = run_sessions(ctx, 'crash', sessions, ctx.n(12, 32))
    cases = []
    for s2, m, res in zip(sessions, meta, results):
        if 'harness_exc' in res:
            raise RuntimeError('implementation runner failed: ' + res['harness_exc'])
        wit = {'mode': 'crash', 'session': {k: v for k, v in s2.items() if k != '_corpus'}}
        st.record({'sc': m['scenario']['ops'], 'names': s2['names'], 'plan': s2['plan'], 'pre': s2.get('pre_file')},
                  nontrivial=m['point'][0] in ('byte', 'before_replace'))
        if res['a_exit'] != 77:
            ctx.stream_broken('crash', f'the crash plan {s2["plan"]} was not reached (exit {res["a_exit"]}): {str(res["a"])[:300]}')
            continue
        after = res['after_crash']
        # oracle 1: absent or complete, old or new
        if after['file'] not in (m['old'], m['new']):
            ctx.violation('C15/crash/torn-file', 'a process stopped in the middle of saving left an iteration file that is '
                          'neither the previous complete file nor the new one', wit,
                          expected={'old': m['old'], 'new': m['new']}, observed=after,
                          how='./check C15 --replay <this file>')
        if m['point'][0] == 'after_replace' and after['file'] != m['new']:
            ctx.violation('C15/crash/replace-lost', 'after os.replace the file does not hold the new content', wit, m['new'], after)
        # oracle 2: the restart succeeds
        b = res['b']
        if res['b_exit'] != 0 or b is None or 'steps' not in b or not b['steps'][-1].get('ok'):
            ctx.violation('C15/crash/restart-failed', 'a fresh process could not restart from the file left by the crash', wit,
                          expected='estimate() succeeds', observed={'file': after['file'], 'b_exit': res['b_exit'],
                                                                    'b': str(b)[:600]},
                          how='./check C15 --replay <this file>')
            continue
        h, first_counted, _ = crash_history(s2, m['dry'], m['eval_no'], m['k'], after, b['steps'])
        viol = list(h.viol)
        # oracle 4: not below the original start
        inner = [r for r in b['steps'][-1].get('inner', []) if 'x' in r]
        if first_counted is not None and inner:
            f0, f1 = frac(first_counted[1]), frac(inner[0]['f'])
            if f0 is not None and f1 is not None and f1 < f0:
                viol.append(('C15/crash/below-start', 'the restart begins below the original start',
                             {'original_start_f': unhex(first_counted[1]), 'restart_f': unhex(inner[0]['f'])}))
        for key, what, detail in viol:
            ctx.violation(key.replace('C15/iter/', 'C15/crash/'), what, wit, observed=detail, how='./check C15 --replay <this file>')
        cases.append((h.coq(s2.get('pre_file')), len(h.labels()), wit, h.labels(), 'run_case'))
    res = eval_cases(ctx, st, 'crash', cases, per_file=max(4, len(cases) // ctx.n(8, 16) + 1))
    for c, bs in zip(cases, res):
        if bs is None:
            continue
        for lab, b in zip(c[3], bs):
            if not b:
                st.disagree({'witness': c[2], 'at': lab}, 'model state differs from the implementation', None)
                break
    if st.disagreements:
        ctx.stream_broken('crash', f'{len(st.disagreements)} crash cases disagree with the model, first at '
                          f'{st.disagreements[0]["case"]["at"]}: {json.dumps(st.disagreements[0]["case"]["witness"])[:600]}')


def stream_kill(ctx):
    """thorough tier only -- NOT A PROOF: real SIGKILLs at random instants"""
    st = ctx.stream('sigkill', 'NOT A PROOF (sampling of real interleavings): a child process saves iterations in a tight '
                    'loop and receives SIGKILL after a random delay; the file must be absent or hold one of the evaluated '
                    'points completely, and a fresh process must restart from it; non-trivial = file present after the '
                    'kill; distinct by (delay, scenario)')
    rng = ctx.sub_rng('kill')
    sessions = []
    for i in range(400):
        k = rng.choice([2, 3])
        names = sorted(rng.sample(NAME_POOL, k))
        sess = {'names': names, 'targets': [fhex(dy(rng)) for _ in range(k)], 'init': [fhex(dy(rng)) for _ in range(k)],
                'weights': [[1.0, 0.5]] * k, 'rows': 2, 'model': 'm', 'save': True, 'div': True,
                'xs': [[fhex(dy(rng, bits=10) * rng.choice([1.0, 1e-9, 1e12, 1 / 3])) for _ in range(k)] for _ in range(5)],
                'delay': rng.choice([0.0, 0.0005, 0.001, 0.002, 0.005]) + rng.random() * 0.01}
        sessions.append(sess)
    B = (len(sessions) + 15) // 16
    batches = [sessions[i:i + B] for i in range(0, len(sessions), B)]
    results = ctx.impl_parallel('c15_iter.py', [{'mode': 'kill', 'sessions': b} for b in batches], timeout=1500)
    results = [r for batch in results for r in batch]
    for sess, res in zip(sessions, results):
        if 'harness_exc' in res:
            raise RuntimeError('implementation runner failed: ' + res['harness_exc'])
        after = res['after_crash']
        st.record({'delay': sess['delay'], 'xs': sess['xs']}, nontrivial=after['file'] is not None)
        wit = {'mode': 'kill', 'session': sess}
        allowed = [''.join(f'{enc(n)} = {txt(v)}\n' for n, v in zip(sess['names'], x)) for x in sess['xs']]
        if after['file'] is not None and after['file'] not in allowed:
            ctx.violation('C15/crash/torn-file', 'SIGKILL left an incomplete iteration file', wit, allowed, after)
        b = res['b']
        if res['b_exit'] != 0 or b is None or 'steps' not in b or not b['steps'][-1].get('ok'):
            ctx.violation('C15/crash/restart-failed', 'a fresh process could not restart after SIGKILL', wit,
                          observed={'file': after['file'], 'b': str(b)[:500]})


# ---------------------------------------------------------------------------- driver
def gen_all(ctx):
    ctx.gen('IterSave', Extractor().generate())


def search_after_break(ctx):
    """something no longer checks and no oracle fired yet: more oracle evaluations"""
    rng = ctx.sub_rng('search')
    sessions = load_corpus('iter') + [gen_session(rng, long=(i % 3 == 0), with_delete=(i % 2 == 0), external=(i % 2 == 1))
                                      for i in range(ctx.n(150, 1500))]
    results = run_sessions(ctx, 'iter', sessions, 16)
    for sess, res in zip(sessions, results):
        if 'harness_exc' in res:
            continue
        h = Hist(sess, sess.get('pre_file'))
        try:
            for i, (op, rec) in enumerate(zip(sess['ops'], res['steps'])):
                h.feed(i, op, rec)
        except RuntimeError:
            continue
        report(ctx, h.viol, sess, 'iter')
        if ctx.violations:
            return


def run(ctx):
    ctx.assumptions += ASSUME
    ctx.trusted += TRUSTED
    try:
        gen_all(ctx)
    except Untranslatable as e:
        ctx.tie_broken('py2v:IterSave', str(e))
    import time
    timing = ctx.notes.setdefault('timing_s', {})

    def timed(name, fn):
        t = time.time()
        fn()
        timing[name] = round(time.time() - t, 1)

    timed('build', ctx.build)
    # the three streams are independent: run them side by side (each one alternates between waiting for
    # implementation subprocesses and waiting for coqc)
    from concurrent.futures import ThreadPoolExecutor
    with ThreadPoolExecutor(max_workers=3) as ex:
        futs = [ex.submit(timed, 'iter', lambda: stream_iter(ctx)),
                ex.submit(timed, 'parse', lambda: stream_parse(ctx)),
                ex.submit(timed, 'crash', lambda: stream_crash(ctx))]
        for f in futs:
            f.result()
    if not ctx.quick:
        timed('sigkill', lambda: stream_kill(ctx))
    if ctx.broken and not ctx.violations:
        timed('search', lambda: search_after_break(ctx))


def replay(ctx, path):
    w = json.load(open(path))
    wit = w.get('witness')
    if not isinstance(wit, dict) or 'session' not in wit:
        print('replay: this file names an obligation/stream; re-run ./check C15')
        return 2
    mode, sess = wit['mode'], wit['session']
    env = C_LOCALE if sess.get('clocale') else None
    bad = []
    if mode == 'iter':
        res = ctx.impl('c15_iter.py', {'mode': 'iter', 'sessions': [sess]}, extra_env=env)[0]
        h = Hist(sess, sess.get('pre_file'))
        for i, (op, rec) in enumerate(zip(sess['ops'], res['steps'])):
            h.feed(i, op, rec)
        bad = [(k, what) for k, what, _ in h.viol]
    elif mode == 'crash':
        res = ctx.impl('c15_iter.py', {'mode': 'crash', 'sessions': [sess]}, extra_env=env)[0]
        after = res['after_crash']
        b = res['b']
        if res['b_exit'] != 0 or b is None or 'steps' not in b or not b['steps'][-1].get('ok'):
            bad.append(('C15/crash/restart-failed', str(b)[:300]))
        f = after['file']
        if f is not None:
            lines = [l + '\n' for l in f.split('\n')[:-1]] + ([f.split('\n')[-1]] if f.split('\n')[-1] else [])
            okf = len(lines) == len(sess['names']) and all(l.endswith('\n') and l.rsplit('=', 1)[0].strip(' \t') == enc(n)
                                                           for l, n in zip(lines, sess['names']))
            try:
                [float(l.rsplit('=', 1)[1]) for l in lines]
            except Exception:  # noqa
                okf = False
            if not okf:
                bad.append(('C15/crash/torn-file', f))
        print(json.dumps({'after_crash': after, 'restart': str(b)[:400]}))
    elif mode == 'kill':
        res = ctx.impl('c15_iter.py', {'mode': 'kill', 'sessions': [sess]})[0]
        print(json.dumps(res)[:600], '(a SIGKILL instant cannot be replayed exactly)')
    print(json.dumps({'still_fails': bool(bad), 'violations': bad}))
    return 1 if bad else 0
