"""C04 -- the sample log likelihood is the weighted sum of per-observation values.

Rocq: Model/LogLike.v (engine's partition of the rows over threads, per-thread accumulation, join; reals),
Proofs/LogLikeP.v, Properties/C04.v.
Tie A (regenerated on every run): Gen/Threads.v -- the `number_of_threads` getter (0 -> cpu count), the
division by the sample size at the end of calculate_likelihood and of calculate_likelihood_and_derivatives,
plus a fail-closed scan of how the engine is fed (data, expressions, thread count, restoration after bootstrap).
Tie B / property oracles: streams threads_resolution, partition_observed, library_splits, ll_vs_simulate (+ stress, thorough)."""
import ast
import json
import time
from fractions import Fraction

import py2v
from py2v import Untranslatable, simple, External
from common import coq_list, parse_bools, REPO, VERIF

U53 = Fraction(1, 2 ** 53)     # unit roundoff of IEEE-754 binary64

ASSUME = [
    'engine (cythonbiogeme, C++, external to /repo): the model Model/LogLike.v is a transcription of biogeme.cc '
    'prepareData / computeFunctionForThread / applyTheFormula; it is tied to the binary only by the streams '
    'partition_observed (bit-exact re-computation of the total under the modelled partition) and ll_vs_simulate',
    'ceil(double(n)/double(T)) equals the exact ceiling (true for n < 2^53); bioUInt arithmetic does not wrap',
    'schedules (PARTIAL): each thread writes only its own bioThreadArg and the join adds the partial results in the '
    'order of the thread index, so the model has no interleaving to quantify over; that the real C++ threads have no '
    'data race cannot be exhibited by the model. The stress run of the thorough tier (repetitions x thread counts on '
    '1000-row tables, identical doubles required run to run) is a TEST, NOT A PROOF',
    'the theorems are over Coq reals: the equalities between totals hold exactly there; on IEEE doubles they hold up to '
    'the rounding of the additions, which is what the oracle bound (8(n-1)+2k) 2^-53 sum|terms| accounts for',
    'mp.cpu_count() is a positive integer (Section variable cpu_count of Gen/Threads.v)',
    'library splitters (database.py): Model/LogLike.v py_range / extract_rows / array_split / split_pairs / row_split are hand-written models of '
    'Python range, DataFrame.iloc[list], numpy.array_split and Database.split, tied by stream library_splits (rows of extract_rows(range) and '
    'slice sizes of split compared inside Coq) and by the partition / sum oracles; the shuffle of split is an arbitrary permutation; '
    'split(groups=...) and the panel branch are covered by the oracles only (PARTIAL: no theorem)',
    'sample size N = number of rows (cross-sectional data) / number of individuals (panel data: the per-individual value is the one simulate reports; how it is built from the rows is property C09)',
]


def U(n):
    return ast.unparse(n)


def need(cond, msg):
    if not cond:
        raise Untranslatable(msg)


def _stores(fd, names):
    """(name, lineno) of every binding of one of `names` inside fd"""
    out = []
    for n in ast.walk(fd):
        if isinstance(n, ast.Name) and isinstance(n.ctx, (ast.Store, ast.Del)) and n.id in names:
            out.append((n.id, n.lineno))
    return out


# ---------------------------------------------------------------------------------------- tie A
def gen_threads_text():
    tr = py2v.load('src/biogeme/biogeme.py')
    cls = [n for n in tr.tree.body if isinstance(n, ast.ClassDef) and n.name == 'BIOGEME']
    need(len(cls) == 1, 'biogeme.py: class BIOGEME not found')
    cls = cls[0]
    out = ['From Coq Require Import ZArith Reals List Bool.\nFrom BV Require Import Model.LogLike.\n'
           'Import ListNotations.\nOpen Scope Z_scope.\n']

    # ---- the getter: the FunctionDef named number_of_threads decorated with @property
    getters = [n for n in cls.body if isinstance(n, ast.FunctionDef) and n.name == 'number_of_threads'
               and any(U(d) == 'property' for d in n.decorator_list)]
    need(len(getters) == 1, 'BIOGEME.number_of_threads: expected exactly one @property getter')

    def get_value(tr_, node, args):
        need(len(args) == 1 and args[0][0] == '"number_of_threads"%string',
             'number_of_threads getter reads another parameter: ' + U(node))
        return 'param_number_of_threads', 'Z'

    tr.externals['self.biogeme_parameters.get_value'] = External(get_value)
    tr.externals['mp.cpu_count'] = External(lambda tr_, node, args: (need(not args, 'cpu_count with arguments') or 'cpu_count', 'Z'))
    imports = [U(n) for n in tr.tree.body if isinstance(n, (ast.Import, ast.ImportFrom))]
    need('import multiprocessing as mp' in imports, 'biogeme.py: `mp` is not the multiprocessing module')
    saved_find = tr.find
    tr.find = lambda q: getters[0] if q == 'BIOGEME.number_of_threads' else saved_find(q)
    d = tr.function('BIOGEME.number_of_threads', {}, 'Z')
    tr.find = saved_find
    out.append('Section WithMachine.\n'
               'Variable cpu_count : Z.                 (* multiprocessing.cpu_count() *)\n'
               'Variable param_number_of_threads : Z.   (* biogeme_parameters.get_value("number_of_threads") *)\n'
               + d + 'End WithMachine.\n')

    # ---- calculate_likelihood: what happens to the engine's value
    fd = tr.find('BIOGEME.calculate_likelihood')
    need([a.arg for a in fd.args.args] == ['self', 'x', 'scaled', 'batch'], 'calculate_likelihood: signature changed')
    idx = [i for i, s in enumerate(fd.body) if isinstance(s, ast.Assign) and U(s.targets[0]) == 'f']
    need(len(idx) == 1 and U(fd.body[idx[0]].value) == 'self.theC.calculateLikelihood(x, self.id_manager.fixed_betas_values)',
         'calculate_likelihood: the value is not the one returned by the engine for (x, fixed betas)')
    need(len(_stores(fd, {'f', 'scaled', 'x'})) == 1, 'calculate_likelihood: f / scaled / x re-bound')
    tr.externals['self.database.get_sample_size'] = External(
        lambda tr_, node, args: (need(not args, 'get_sample_size with arguments') or 'sample_size', 'Z'))
    tr.partial = False

    def off_end(env):
        raise Untranslatable('calculate_likelihood: control falls off the end')

    body = tr.block(fd.body[idx[0] + 1:], {'f': 'R', 'scaled': 'bool'}, off_end, 'R')
    out.append(f'(* from src/biogeme/biogeme.py:{fd.body[idx[0]].lineno} BIOGEME.calculate_likelihood (after the engine call) *)\n'
               'Definition scaled_likelihood (sample_size : Z) (scaled : bool) (f : R) : R :=\n' + body + '.\n')

    # ---- calculate_likelihood_and_derivatives: specialised, fail-closed
    fd = tr.find('BIOGEME.calculate_likelihood_and_derivatives')
    need([a.arg for a in fd.args.args] == ['self', 'x', 'scaled', 'hessian', 'bhhh', 'batch'],
         'calculate_likelihood_and_derivatives: signature changed')
    call = ('self.theC.calculateLikelihoodAndDerivatives(x, self.id_manager.fixed_betas_values, '
            'self.id_manager.free_betas.indices.values(), g, h, bh, hessian, bhhh)')
    idx = [i for i, s in enumerate(fd.body) if isinstance(s, ast.Assign) and U(s.value) == call]
    need(len(idx) == 1 and U(fd.body[idx[0]].targets[0]).strip('()') == 'f, g, h, bh',
         'calculate_likelihood_and_derivatives: (f, g, h, bh) are not the values returned by the engine')
    line = fd.body[idx[0]].lineno
    late = [s for s in _stores(fd, {'f', 'g', 'h', 'bh', 'scaled'}) if s[1] > line]
    need(not late, f'calculate_likelihood_and_derivatives: engine values re-bound after the call: {late}')
    rest = fd.body[idx[0] + 1:]
    need(len(rest) >= 3 and isinstance(rest[-3], ast.If) and U(rest[-3].test) == 'scaled' and not rest[-3].orelse,
         'calculate_likelihood_and_derivatives: `if scaled:` block not found at the end')
    for s in rest[:-3]:
        need(not any(isinstance(x, (ast.Return,)) for x in ast.walk(s)),
             'calculate_likelihood_and_derivatives: early return between the engine call and the scaling')

    def output(stmts, what, divisor):
        need(len(stmts) == 2 and isinstance(stmts[0], ast.Assign) and U(stmts[0].targets[0]) == 'result'
             and isinstance(stmts[0].value, ast.Call) and U(stmts[0].value.func) == 'BiogemeFunctionOutput'
             and not stmts[0].value.args and U(stmts[1]) == 'return BiogemeFunctionOutputSmartOutputProxy(result)',
             f'{what}: result construction changed')
        kw = {k.arg: k.value for k in stmts[0].value.keywords}
        need(list(kw) == ['function', 'gradient', 'hessian', 'bhhh'], f'{what}: fields of the result changed')
        cells = []
        for field, var, vec in (('function', 'f', False), ('gradient', 'g', True), ('hessian', 'h', True), ('bhhh', 'bh', True)):
            v = kw[field]
            if divisor is not None:
                need(isinstance(v, ast.BinOp) and isinstance(v.op, ast.Div) and U(v.right) == divisor,
                     f'{what}: {field} is not divided by {divisor}')
                v = v.left
            need(U(v) == (f'np.asarray({var})' if vec else var), f'{what}: {field} is not the engine value {var}')
            if divisor is None:
                cells.append(var)
            else:
                cells.append(f'vdiv {var} {divisor}' if vec else f'({var} / {divisor})%R')
        return '(' + ', '.join(cells) + ')'

    sb = rest[-3].body
    need(len(sb) == 4 and U(sb[0]) == 'sample_size = float(self.database.get_sample_size())'
         and isinstance(sb[1], ast.If) and U(sb[1].test) == 'sample_size == 0' and not sb[1].orelse
         and len(sb[1].body) == 1 and isinstance(sb[1].body[0], ast.Raise),
         'calculate_likelihood_and_derivatives: sample-size guard changed')
    scaled_cells = output(sb[2:], 'scaled branch', 'sample_size')
    plain_cells = output(rest[-2:], 'unscaled branch', None)
    out.append(f'(* from src/biogeme/biogeme.py:{rest[-3].lineno} BIOGEME.calculate_likelihood_and_derivatives (after the engine call) *)\n'
               'Definition scaled_output (sample_size_Z : Z) (scaled : bool) (f : R) (g h bh : list R)\n'
               '    : option (R * list R * list R * list R) :=\n'
               '  if scaled then\n    let sample_size := IZR sample_size_Z in\n'
               f'    if Reqb sample_size 0%R then None else Some {scaled_cells}\n'
               f'  else Some {plain_cells}.\n')
    # ---- change_init_values: how the vector of current values follows the new values (fail-closed shape)
    fd = tr.find('BIOGEME.change_init_values')
    need([a.arg for a in fd.args.args] == ['self', 'betas'], 'change_init_values: signature changed')
    loops = [s_ for s_ in fd.body if isinstance(s_, ast.For)]
    need(len(loops) == 2 and U(loops[0]).replace('\n', ' ').split() == 'for _, f in self.formulas.items(): f.change_init_values(betas)'.split(),
         'change_init_values: the formulas are not all given the new values')
    lp = loops[1]
    need(U(lp.target).strip('()') == 'i, name' and U(lp.iter) == 'enumerate(self.id_manager.free_betas.names)' and len(lp.body) == 2
         and U(lp.body[0]) == 'value = betas.get(name)' and isinstance(lp.body[1], ast.If) and U(lp.body[1].test) == 'value is not None'
         and not lp.body[1].orelse and [U(x) for x in lp.body[1].body] == ['self.id_manager.free_betas_values[i] = value'],
         'change_init_values: the vector of current values is not updated with every value given (test must be `value is not None`)')
    out.append(f'(* from src/biogeme/biogeme.py:{lp.lineno} BIOGEME.change_init_values (update of id_manager.free_betas_values) *)\n'
               'Definition changed_value (old : R) (value : option R) : R :=\n  match value with Some v => v | None => old end.\n')
    return ''.join(out)


FEED = {
    '__init__': ['self.theC.setData(self.database.data)',
                 'self.theC.setExpressions(self.loglikeSignatures, self.number_of_threads)',
                 'self.theC.setExpressions(self.loglikeSignatures, self.number_of_threads, self.weightSignatures)'],
    'simulate': ['self.theC.simulateSeveralFormulas(formulas_signature, beta_values, self.id_manager.fixed_betas_values, '
                 'self.database.data, self.number_of_threads, self.database.get_sample_size())'],
    'estimate': ['self.theC.setData(sample)', 'self.theC.setData(self.database.data)'],
}


def scan_feed():
    """fail-closed scan: how the engine receives data, expressions and thread count"""
    tr = py2v.load('src/biogeme/biogeme.py')
    found = {}
    for fn, calls in FEED.items():
        fd = tr.find('BIOGEME.' + fn)
        have = [U(n) for n in ast.walk(fd) if isinstance(n, ast.Call) and U(n.func).startswith('self.theC.')]
        for c in calls:
            need(c in have, f'BIOGEME.{fn}: engine call `{c[:70]}...` not found')
        found[fn] = have
    # the weight formula reaches the engine iff a weight is given
    init = tr.find('BIOGEME.__init__')
    ifs = [n for n in ast.walk(init) if isinstance(n, ast.If) and U(n.test) == 'self.weight is None']
    need(len(ifs) == 1 and FEED['__init__'][1] in U(ifs[0].body[0]) and any(FEED['__init__'][2].replace(' ', '') in U(s).replace(' ', '').replace('\n', '') for s in ifs[0].orelse),
         'BIOGEME.__init__: the weight signature is not passed exactly when a weight formula exists')
    # after the bootstrap loop the estimation data go back to the engine, in a `finally`
    est = tr.find('BIOGEME.estimate')
    fin = [n for n in ast.walk(est) if isinstance(n, ast.Try) and n.finalbody
           and any('self.theC.setData(sample)' in U(s) for s in n.body)]
    need(len(fin) == 1 and any('self.theC.setData(self.database.data)' in U(s) for s in fin[0].finalbody),
         'BIOGEME.estimate: the estimation data are not given back to the engine after the bootstrap loop')
    # the setter feeds the engine again
    setters = [n for n in ast.walk(tr.tree) if isinstance(n, ast.FunctionDef) and n.name == 'number_of_threads'
               and any(U(d) == 'number_of_threads.setter' for d in n.decorator_list)]
    need(len(setters) == 1 and U(setters[0]).count('self.theC.setExpressions(') == 2,
         'number_of_threads setter: the engine is not fed again with the new thread count')
    return found


def gen_all(ctx):
    ctx.gen('Threads', gen_threads_text())


# ---------------------------------------------------------------------------------------- exact arithmetic
def F(r):
    """exact rational of a double sent as [numerator, denominator]; None for nan / inf"""
    if isinstance(r, list) and len(r) == 2:
        return Fraction(r[0], r[1])
    return None


def Fl(rs):
    out = [F(r) for r in rs]
    return None if any(v is None for v in out) else out


def to_float(fr):
    return fr.numerator / fr.denominator      # correctly rounded (int / int true division)


def val(p):
    """value of a part() result, or None"""
    return p['v'] if isinstance(p, dict) and p.get('ok') else None


TINY = Fraction(1, 2 ** 1000)


def sum_bound(n, absum, mults):
    """Error bound of a floating-point sum of n terms, each term the rounded product of `mults`+1 doubles.

    Recursive summation of n doubles IN ANY ORDER AND ANY BRACKETING (sequential inside each thread's block,
    then sequential over the threads' partial results; or part by part) returns sum x_i (1 + t_i) with
    |t_i| <= gamma_{n-1} = (n-1)u / (1 - (n-1)u), u = 2^-53 [Higham, Accuracy and Stability of Numerical
    Algorithms, 2nd ed., section 4.2: the bound holds for every ordering]; adding the first term to the
    initial 0.0 is exact.  Hence |computed - sum x_i| <= gamma_{n-1} sum|x_i|; we allow 8 (n-1) u sum|x_i|
    (covers gamma vs (n-1)u and the fact that sum|x_i| is evaluated on the unrounded terms).
    Each term x_i is itself the rounding of a product of mults+1 doubles (w*f: one multiplication,
    w*g_i*g_j: two): |x_i - exact_i| <= ((1+u)^mults - 1) |exact_i| <= 2 mults u |exact_i| (no underflow: the
    magnitudes are between 2^-40 and 2^20).  Total: (8 (n-1) + 2 mults) u sum|exact_i|.
    With no weight formula the engine adds f itself (mults = 0 would do); we keep mults >= 1 so that a
    one-row table has a bound of 2 ulp instead of exact equality."""
    return (8 * (n - 1) + 2 * max(1, mults)) * U53 * absum + TINY


def close_scaled(scaled_v, v, N):
    """scaled = fl(v / N): one rounding"""
    if scaled_v is None or v is None or not N:
        return False
    q = v / N
    return abs(scaled_v - q) <= 2 * U53 * abs(q) + TINY


# ---------------------------------------------------------------------------------------- generator
SCALE = 16
SPEC_KEYS = ('scale', 'model', 'betas', 'weight', 'wconst', 'llkey', 'wkey', 'cols')
T_KINDS = ['1', '2', '3', 'n-1', 'n', 'n+3', '0']


def gen_table(rng, n, model):
    hi = 3 if model == 3 else 2
    cols = {k: [rng.randint(-64, 64) for _ in range(n)] for k in ('x1', 'x2', 'x3')}
    cols['ch'] = [rng.randint(1, hi) * SCALE for _ in range(n)]
    style = rng.random()
    if style < 0.6:
        cols['w'] = [rng.randint(1, 64) for _ in range(n)]
    elif style < 0.8:      # wide dynamic range: 2^-4 .. 2^10
        cols['w'] = [2 ** rng.randint(0, 14) for _ in range(n)]
    else:                  # many equal weights and a few large ones
        cols['w'] = [16 if rng.random() < 0.8 else rng.randint(100, 4000) for _ in range(n)]
    cols['w2'] = [rng.randint(1, 32) for _ in range(n)]
    ng = rng.randint(2, max(2, min(6, n)))
    cols['grp'] = [rng.randint(1, ng) * SCALE for _ in range(n)]
    return cols


def thread_list(n, rng):
    ts = {'1': 1, '2': 2, '3': 3, 'n-1': max(1, n - 1), 'n': n, 'n+3': n + 3, '0': 0}
    out = []
    for k in T_KINDS:
        out.append([ts[k], 'params' if rng.random() < 0.3 else 'kw'])
    return out


def gen_split(rng, n):
    k = rng.randint(2, min(4, n))
    rows = list(range(n))
    mode = rng.random()
    if mode < 0.4:      # contiguous
        cuts = sorted(rng.sample(range(1, n), k - 1))
        parts = [rows[a:b] for a, b in zip([0] + cuts, cuts + [n])]
    elif mode < 0.7:    # interleaved
        parts = [rows[i::k] for i in range(k)]
    else:               # random assignment, every part non-empty, rows shuffled inside the parts
        rng.shuffle(rows)
        cuts = sorted(rng.sample(range(1, n), k - 1))
        parts = [rows[a:b] for a, b in zip([0] + cuts, cuts + [n])]
    return parts


def gen_range_partition(rng, n):
    """a partition of the positions 0..n-1 written with Python ranges of every kind / lists of positions"""
    mode = rng.random()
    if mode < 0.35:                         # interleaved: range(k, n, m)
        m = rng.randint(2, min(4, n))
        parts = [{'range': [k, n, m]} for k in range(m)]
    elif mode < 0.5:                        # interleaved, walked backwards
        m = rng.randint(2, min(4, n))
        parts = []
        for k in range(m):
            last = k + ((n - 1 - k) // m) * m
            parts.append({'range': [last, -1, -m]})
    elif mode < 0.65:                       # consecutive blocks, some reversed
        k = rng.randint(2, min(4, n))
        cuts = sorted(rng.sample(range(1, n), k - 1))
        parts = []
        for a, b in zip([0] + cuts, cuts + [n]):
            parts.append({'range': [a, b, 1]} if rng.random() < 0.6 else {'range': [b - 1, a - 1, -1]})
    elif mode < 0.8:                        # blocks themselves interleaved with step 2: evens / odds of each half
        h = n // 2
        parts = [p for p in ({'range': [0, h, 2]}, {'range': [1, h, 2]}, {'range': [h, n, 2]}, {'range': [h + 1, n, 2]})
                 if len(range(*p['range'])) > 0]
    else:                                   # lists of positions
        parts = [{'list': p} for p in gen_split(rng, n)]
    return parts


def gen_lib_ops(rng, n, panel=False, ngroups=0):
    ops = []
    if n < 2:
        return ops
    Tpool = [1, 2, 3, 0]
    if panel:
        for _ in range(2):
            k = rng.randint(2, min(4, n))
            ops.append({'op': 'split', 'slices': k, 'groups': None, 'seed': rng.randint(1, 10 ** 6), 'Ts': [rng.choice(Tpool) for _ in range(k)]})
        return ops
    if rng.random() < 0.75:
        parts = gen_range_partition(rng, n)
        ops.append({'op': 'extract', 'parts': parts, 'Ts': [rng.choice(Tpool) for _ in parts]})
    if rng.random() < 0.75:
        # number of slices: mostly one that does not divide n
        ks = [k for k in range(2, min(6, n) + 1)]
        nd = [k for k in ks if n % k]
        k = rng.choice(nd) if nd and rng.random() < 0.75 else rng.choice(ks)
        ops.append({'op': 'split', 'slices': k, 'groups': 'grp' if (rng.random() < 0.25 and ngroups >= k) else None, 'seed': rng.randint(1, 10 ** 6),
                    'Ts': [rng.choice(Tpool) for _ in range(k)]})
    if n <= 6 and rng.random() < 0.5:
        full = rng.random() < 0.5
        rg = None if full else [n - 1, -1, -1]
        ops.append({'op': 'rowsplit', 'range': None if full else {'range': rg}, 'Ts': [rng.choice([1, 2]) for _ in range(n)]})
    return ops


def gen_case(rng, i, n=None):
    if n is None:
        r = rng.random()
        n = rng.randint(1, 5) if r < 0.2 else rng.randint(6, 16) if r < 0.6 else rng.randint(17, 40)
    model = rng.choice([1, 2, 2, 3])
    betas = {f'b{k + 1}': rng.randint(-32, 32) for k in range(model)}
    c = {'kind': 'table', 'id': i, 'scale': SCALE, 'model': model, 'betas': betas,
         'weight': rng.choice([None, 'w', 'w', 'wexpr', 'const', 'const', 'constexpr', 'constcol']), 'cols': gen_table(rng, n, model),
         'threads': thread_list(n, rng), 'perms': [], 'splits': []}
    if c['weight'] in ('const', 'constexpr', 'constcol'):
        c['wconst'] = rng.choice([1, 2, 4, 8, 24, 32, 40, 100, 16]) if rng.random() < 0.7 else rng.randint(1, 400)
    if rng.random() < 0.3:      # the other accepted names of the two formulas
        c['llkey'], c['wkey'] = rng.choice(['log_like', 'loglike']), rng.choice(['weight', 'weights'])
    c['lib'] = gen_lib_ops(rng, n, ngroups=len(set(c['cols']['grp'])))
    if n >= 2:
        for _ in range(rng.randint(2, 3)):
            p = list(range(n))
            m = rng.random()
            if m < 0.25:
                p.reverse()
            elif m < 0.4:
                p = p[1:] + p[:1]
            else:
                rng.shuffle(p)
            c['perms'].append({'perm': p, 'T': rng.choice([1, 2, 3, max(1, n - 1), n, n + 3, 0])})
        for _ in range(rng.randint(1, 2)):
            parts = gen_split(rng, n)
            c['splits'].append({'parts': parts, 'Ts': [rng.choice([1, 2, 3, len(p), len(p) + 3, 0]) for p in parts]})
        if n <= 8 and rng.random() < 0.5:     # the finest split: one row per part
            c['splits'].append({'parts': [[r] for r in range(n)], 'Ts': [rng.choice([1, 2, 0]) for _ in range(n)]})
    if rng.random() < 0.25:
        c['negative'] = rng.choice([1, 2, 3])
    return c


def gen_panel_cols(rng, model, n_ind=None):
    """panel table: individuals with 1-5 rows each (unequal), identifier column pid (contiguous blocks, sorted)"""
    k = n_ind or rng.randint(2, 9)
    sizes = [rng.randint(1, 5) for _ in range(k)]
    if len(set(sizes)) == 1:
        sizes[0] = sizes[0] % 5 + 1
    n = sum(sizes)
    cols = gen_table(rng, n, model)
    ids = sorted(rng.sample(range(1, 60), k))
    cols['pid'] = [i * SCALE for i, sz in zip(ids, sizes) for _ in range(sz)]
    return cols, k


def gen_panel_case(rng, i):
    model = rng.choice([1, 2, 3])
    cols, k = gen_panel_cols(rng, model)
    return {'kind': 'table', 'id': f'panel{i}', 'panel': True, 'scale': SCALE, 'model': model,
            'betas': {f'b{j + 1}': rng.randint(-16, 16) for j in range(model)}, 'weight': None, 'cols': cols,
            'threads': [[t, rng.choice(['kw', 'params'])] for t in (1, 2, 3, max(1, k - 1), k, k + 3, 0)], 'perms': [], 'splits': [],
            'lib': gen_lib_ops(rng, k, panel=True)}


def load_corpus():
    out = []
    d = VERIF / 'corpus' / 'C04'
    if d.is_dir():
        for p in sorted(d.glob('*.json')):
            try:
                j = json.loads(p.read_text())
            except Exception as e:  # noqa
                raise RuntimeError(f'corpus file {p} unreadable: {e}')
            for c in (j if isinstance(j, list) else [j]):
                c['corpus'] = p.name
                out.append(c)
    return out


def witness(c, **kw):
    w = {k: c[k] for k in ('kind', 'scale', 'model', 'betas', 'weight', 'wconst', 'llkey', 'wkey', 'cols', 'panel') if k in c}
    w['table'] = 'cell value = cols[name][row] / scale; weights: ' + {
        None: 'none (weight one)', 'w': 'column w', 'wexpr': 'w*0.5 + w2', 'const': 'Numeric(wconst/scale)',
        'constexpr': 'Numeric(wconst/scale)*Numeric(1)+Numeric(0)', 'constcol': 'Numeric(wconst/scale)*w'}.get(c.get('weight'), str(c.get('weight')))
    w.update(kw)
    return w


HOW = ('PYTHONPATH=/repo/src /venv/bin/python /verif/lib/impl/c04_ll.py <<< \'{"cases": [<witness case>]}\' in a scratch '
       'directory, or ./check C04 --replay <this file>')


# ---------------------------------------------------------------------------------------- oracle
class Base:
    """exact per-row values of the base table: weights and log likelihood from simulate, derivatives from the
    disaggregated evaluator"""

    def __init__(self, c, sim, rows):
        self.ok = False
        self.why = ''
        llkey, wkey = c.get('llkey', 'log_like'), c.get('wkey', 'weight')
        if sim is None or llkey not in sim:
            self.why = f'simulate did not report {llkey}'
            return
        self.f = Fl(sim[llkey])
        self.n = len(sim[llkey])
        if c.get('weight'):
            if wkey not in sim:
                self.why = 'simulate did not report the weight formula'
                return
            self.w = Fl(sim[wkey])
        else:
            self.w = [Fraction(1)] * self.n
        if self.f is None or self.w is None:
            self.why = 'non-finite per-row value'
            return
        self.k = len(c['betas'])
        self.g = self.h = self.b = None
        if rows is not None:
            self.g = [Fl(r) for r in rows['g']]
            self.h = [Fl(r) for r in rows['h']]
            self.rf = Fl(rows['f'])
            if any(v is None for v in self.g) or any(v is None for v in self.h) or self.rf is None:
                self.why = 'non-finite per-row derivative'
                return
        self.ok = True

    def exact(self, what, rows, unweighted=False):
        """(exact sums, sums of absolute values, number of multiplications per term) of the vector `what` over rows"""
        if unweighted:
            saved, self.w = self.w, [Fraction(1)] * self.n
            try:
                return self.exact(what, rows)
            finally:
                self.w = saved
        if what == 'f':
            terms = [[self.w[r] * self.f[r]] for r in rows]
            m = 1
        elif what == 'g':
            terms = [[self.w[r] * x for x in self.g[r]] for r in rows]
            m = 1
        elif what == 'h':
            terms = [[self.w[r] * x for x in self.h[r]] for r in rows]
            m = 1
        else:
            terms = [[self.w[r] * gi * gj for gi in self.g[r] for gj in self.g[r]] for r in rows]
            m = 2
        d = len(terms[0])
        return ([sum(t[j] for t in terms) for j in range(d)], [sum(abs(t[j]) for t in terms) for j in range(d)], m)


def cmp_vec(observed, exact, absum, n, m):
    """index of the first entry outside the bound, or None"""
    if observed is None or len(observed) != len(exact):
        return -1
    for j, (o, e, a) in enumerate(zip(observed, exact, absum)):
        if abs(o - e) > sum_bound(n, a, m):
            return j
    return None


def check_eval(ctx, c, base, e, label, key, extra):
    """property oracle on everything one BIOGEME object reported (table = rows e['rows'] of the base table).
    Returns the dict of exact rationals of its totals (for sums over parts), or None."""
    rows = e['rows']
    n = len(rows)
    wit = witness(c, rows_of_the_table=rows, T=e.get('T'), where=label, **extra)

    def bad(sub, what, expected, observed):
        ctx.violation(f'C04/{key}/{sub}', f'{label}: {what}', wit, expected, observed, HOW)

    if 'build' in e:
        bad('exception', 'BIOGEME could not be built on a valid table: ' + str(e['build'])[:200], 'an object', e['build'])
        return None
    for k in ('Tres', 'N', 'f0', 'sim', 'f1', 'fs') + (('d', 'ds', 'fg', 'f2') if 'd' in e else ()):
        if not e[k]['ok']:
            bad('exception', f'{k} raised on a valid table: {e[k].get("exc")}: {e[k].get("msg")}', 'a value', e[k])
            return None
    N = val(e['N'])
    if N != n:
        bad('sample-size', f'sample size {N} for a table of {n} rows', n, N)
    own = Base(c, val(e['sim']), None)
    if not own.ok:
        bad('simulate', 'simulate: ' + own.why, 'finite per-row values', str(val(e['sim']))[:300])
        return None
    if own.n != n:
        bad('simulate', f'simulate reported {own.n} rows for a table of {n} rows', n, own.n)
        return None
    # (1) total = sum of weight x the value simulate reports, on this very object
    ex, ab, m = own.exact('f', range(n))
    tot = {}
    for k in ('f0', 'f1') + (('f2',) if 'd' in e else ()):
        v = F(val(e[k]))
        if v is None or abs(v - ex[0]) > sum_bound(n, ab[0], m):
            bad('total-vs-simulate', f'calculate_likelihood ({k}) is not within the summation bound of sum w_r * simulate_r',
                {'exact_sum': str(ex[0]), 'approx': to_float(ex[0]), 'bound': to_float(sum_bound(n, ab[0], m))},
                {'value': val(e[k]), 'approx': None if v is None else to_float(v)})
            return None
    f = F(val(e['f0']))
    tot['f'] = [f]
    # (2) per-row values do not depend on where the row sits: simulate of this table = base values of its rows
    for i, r in enumerate(rows):
        for name, a, b in (('log_like', own.f[i], base.f[r]), ('weight', own.w[i], base.w[r])):
            if abs(a - b) > 4 * U53 * abs(b) + TINY:
                bad('row-value', f'simulate reports another {name} for row {r} of the original table (position {i} here)',
                    to_float(b), to_float(a))
                return None
    # (3) the same total as the exact sum over the ORIGINAL table's rows (thread count / permutation / split)
    exb, abb, m = base.exact('f', rows)
    if abs(f - exb[0]) > sum_bound(n, abb[0], m):
        bad('invariance', 'total differs from the exact weighted sum of the original per-row values beyond the bound',
            to_float(exb[0]), to_float(f))
    # (4) scaled = total / N
    if not close_scaled(F(val(e['fs'])), f, N):
        bad('scaled', 'scaled likelihood is not total / sample size', to_float(f / N) if N else None, val(e['fs']))
    if 'd' not in e:
        return tot
    d, ds, fg = val(e['d']), val(e['ds']), val(e['fg'])
    k = base.k
    if e.get('free') != sorted(c['betas']):
        bad('parameters', 'free parameters are not the sorted names', sorted(c['betas']), e.get('free'))
        return tot
    fd = F(d['f'])
    if fd is None or abs(fd - ex[0]) > sum_bound(n, ab[0], 1):
        bad('total-vs-simulate', 'calculate_likelihood_and_derivatives: function value not within the bound of sum w_r * simulate_r',
            to_float(ex[0]), d['f'])
    ffg = F(fg['f'])
    if ffg is None or abs(ffg - ex[0]) > sum_bound(n, ab[0], 1):
        bad('total-vs-simulate', 'calculate_likelihood_and_derivatives(hessian=False, bhhh=False): function value not within the bound',
            to_float(ex[0]), fg['f'])
    for what, name, obs_raw in (('g', 'gradient', d['g']), ('h', 'hessian', d['h']), ('b', 'bhhh', d['b']), ('g', 'gradient (no hessian)', fg['g'])):
        obs = Fl(obs_raw)
        exv, abv, m = base.exact(what, rows)
        j = cmp_vec(obs, exv, abv, n, m)
        if j is not None:
            bad('derivatives', f'{name}: entry {j} is not within the summation bound of the weighted sum of the per-row values',
                [to_float(v) for v in exv], obs_raw if obs is None else [to_float(v) for v in obs])
            return tot
        if name in ('gradient', 'hessian', 'bhhh'):
            tot[what] = obs
    # scaled derivatives
    for what, name in (('f', 'function'), ('g', 'gradient'), ('h', 'hessian'), ('b', 'bhhh')):
        o = Fl([ds[what]] if what == 'f' else ds[what])
        u = [fd] if what == 'f' else Fl(d[what])
        if o is None or u is None or len(o) != len(u) or not all(close_scaled(a, b, N) for a, b in zip(o, u)):
            bad('scaled', f'scaled {name} is not the unscaled one divided by the sample size', None, ds[what])
            break
    return tot


def check_table(ctx, c, r, st_ll, st_part, part_items, lib_items=None):
    """one 'table' case: oracles + collection of the partition observations"""
    key = 'll'
    if r is None or 'crash' in r or 'runner' in r:
        ctx.violation('C04/ll/crash', 'the implementation died / the runner failed on a valid table', witness(c), 'results', r, HOW)
        return
    n = r['n']
    evs = r['evals']
    if not r['rows']['ok']:
        ctx.violation('C04/ll/exception', 'disaggregated evaluation raised on a valid table', witness(c), 'per-row values', r['rows'], HOW)
        return
    first = evs[0]
    base = Base(c, val(first.get('sim')) if 'sim' in first else None, val(r['rows']))
    if not base.ok:
        ctx.violation('C04/ll/simulate', 'simulate / per-row evaluation on the base table: ' + base.why, witness(c, T=first.get('T')),
                      'finite per-row values', str(first.get('sim'))[:300], HOW)
        return
    # the two per-row paths agree on the function value
    for i in range(n):
        if abs(base.rf[i] - base.f[i]) > 4 * U53 * abs(base.f[i]) + TINY:
            st_ll.disagree(witness(c, row=i), to_float(base.f[i]), to_float(base.rf[i]),
                           'disaggregated evaluator and simulate report different log likelihoods for one row')
            break
    # the one-expression evaluator, aggregated (no weight): the same sums
    agg = val(r['rows']).get('agg')
    if agg is not None:
        st_ll.record({'id': c.get('id'), 'n': n, 'what': 'one-expression evaluator, aggregated', 'h': hash_cols(c)}, nontrivial=n >= 2)
        for what, name in (('f', 'function'), ('g', 'gradient'), ('h', 'hessian'), ('b', 'bhhh')):
            exv, abv, m = base.exact(what, range(n), unweighted=True)
            obs = Fl([agg['f']] if what == 'f' else agg[what])
            j = cmp_vec(obs, exv, abv, n, m)
            if j is not None:
                ctx.violation(f'C04/ll/evaluator/{what}', f'Expression.get_value_and_derivatives(aggregation=True): {name} entry {j} is not the sum '
                              'of the per-row values it reports with aggregation=False', witness(c), [to_float(v) for v in exv], agg[what], HOW)
                break
        part_items.append((c, n, 4, {'f0': {'ok': True, 'v': agg['f']}, 'd': {'ok': True, 'v': agg}, 'unweighted': True}, base))
    for e in evs:
        st_ll.record({'id': c.get('id'), 'n': n, 'T': e['T'], 'w': c['weight'], 'm': c['model'], 'what': 'threads',
                      'h': hash_cols(c)}, nontrivial=n >= 2)
        check_eval(ctx, c, base, e, f'thread count {e["T"]} (via {e["via"]})', key + '/threads', {})
        # observation for the partition stream
        if e.get('Tres', {}).get('ok') and e.get('f0', {}).get('ok') and 'd' in e and e['d']['ok']:
            part_items.append((c, n, val(e['Tres']), e, base))
    for p, e in zip(c.get('perms', []), r['perms']):
        st_ll.record({'id': c.get('id'), 'n': n, 'T': e['T'], 'perm': p['perm'], 'h': hash_cols(c)},
                     nontrivial=p['perm'] != list(range(n)))
        check_eval(ctx, c, base, e, f'rows permuted, thread count {e["T"]}', key + '/permutation', {'permutation': p['perm']})
    for s, es in zip(c.get('splits', []), r['splits']):
        st_ll.record({'id': c.get('id'), 'n': n, 'split': s['parts'], 'Ts': s['Ts'], 'h': hash_cols(c)}, nontrivial=len(s['parts']) >= 2)
        tots = [check_eval(ctx, c, base, e, f'part {i} of a {len(es)}-way split, thread count {e["T"]}', key + '/split',
                           {'split': s['parts'], 'thread_counts': s['Ts']}) for i, e in enumerate(es)]
        if any(t is None or len(t) < 4 for t in tots):
            continue
        allrows = [x for prt in s['parts'] for x in prt]
        for what, name in (('f', 'log likelihood'), ('g', 'gradient'), ('h', 'hessian'), ('b', 'bhhh')):
            exv, abv, m = base.exact(what, allrows)
            summed = [sum(t[what][j] for t in tots) for j in range(len(exv))]
            j = cmp_vec(summed, exv, abv, n, m)
            if j is not None:
                ctx.violation(f'C04/ll/split/sum-{what}', f'sum over the parts of the {name} differs from the weighted sum over all rows (entry {j})',
                              witness(c, split=s['parts'], thread_counts=s['Ts']), [to_float(v) for v in exv],
                              [to_float(v) for v in summed], HOW)
                break
    for op, lr in zip(c.get('lib', []), r.get('lib', [])):
        check_lib(ctx, c, base, n, op, lr, st_ll, lib_items if lib_items is not None else [])
    if 'negative' in r:
        ng = r['negative']
        e0 = next((e for e in evs if 'd' in e and e['d']['ok']), None)
        if not ng['ok']:
            ctx.violation('C04/ll/negative/exception', 'NegativeLikelihood raised', witness(c, T=c['negative']), 'values', ng, HOW)
        elif e0 is not None:
            v = ng['v']
            exf, abf, _ = base.exact('f', range(n))
            exg, abg, _ = base.exact('g', range(n))
            exh, abh, _ = base.exact('h', range(n))
            okk = all(F(v[k]) is not None and abs(-F(v[k]) - exf[0]) <= sum_bound(n, abf[0], 1) for k in ('f', 'fg_f', 'fgh_f'))
            okk = okk and cmp_vec([-x for x in (Fl(v['fg_g']) or [])], exg, abg, n, 1) is None
            okk = okk and cmp_vec([-x for x in (Fl(v['fgh_g']) or [])], exg, abg, n, 1) is None
            okk = okk and cmp_vec([-x for x in (Fl(v['fgh_h']) or [])], exh, abh, n, 1) is None
            if not okk:
                ctx.violation('C04/ll/negative/value', 'the function given to the optimiser is not minus the unscaled weighted sums',
                              witness(c, T=c['negative']), {'f': to_float(-exf[0])}, v, HOW)


def spec_positions(spec):
    return list(range(*spec['range'])) if 'range' in spec else list(spec['list'])


def check_lib(ctx, c, base, n, op, r, st, lib_items):
    """parts made by the library itself (Database.extract_rows / split / mdcev_row_split): they must hold every
    observation exactly once and their totals must add up to the total of the data set"""
    name = op['op']
    key = f'll/lib-{name}'
    wit = witness(c, library_call=op)
    allobs = list(range(n))

    def bad(sub, what, expected, observed):
        ctx.violation(f'C04/{key}/{sub}', what, wit, expected, observed, HOW)

    def add_up(tots, label, quantities):
        if any(t is None for t in tots):
            return
        for what, qn in quantities:
            exv, abv, m = base.exact(what, allobs)
            summed = [sum(t[what][j] for t in tots) for j in range(len(exv))]
            j = cmp_vec(summed, exv, abv, n, m)
            if j is not None:
                bad(f'sum-{what}', f'{label}: the {qn} summed over the parts differs from the {qn} of the data set (entry {j})',
                    [to_float(v) for v in exv], [to_float(v) for v in summed])
                return

    ALLQ = (('f', 'log likelihood'), ('g', 'gradient'), ('h', 'hessian'), ('b', 'bhhh'))
    if 'error' in r:
        bad('exception', f'Database.{name} raised on a valid request: {r["error"].get("exc")}: {r["error"].get("msg")}', 'parts', r['error'])
        return
    if name in ('extract', 'rowsplit'):
        if name == 'extract':
            expected = [spec_positions(sp) for sp in op['parts']]
            call = 'extract_rows'
        else:
            pos = allobs if op.get('range') is None else spec_positions(op['range'])
            expected = [[x] for x in pos]
            call = 'mdcev_row_split'
        parts = r['parts']
        st.record({'id': c.get('id'), 'n': n, 'lib': op, 'h': hash_cols(c)}, nontrivial=len(expected) >= 2)
        if len(parts) != len(expected):
            bad('parts', f'Database.{call}: {len(parts)} parts for {len(expected)} requested' + (': ' + str(parts[0].get('build'))[:200] if parts else ''),
                len(expected), len(parts))
            return
        tots = []
        for i, (e, exp) in enumerate(zip(parts, expected)):
            if 'build' in e and e.get('rows') is None:
                bad('exception', f'Database.{call}, part {i}: {str(e["build"])[:250]}', exp, e['build'])
                return
            obs = e.get('raw_rows', e.get('rows'))
            if name == 'extract' and 'range' in op['parts'][i]:
                lib_items.append(('range', op['parts'][i]['range'], obs, c, op))
            if obs != exp:
                bad('rows', f'Database.{call}, part {i} ({op["parts"][i] if name == "extract" else exp}) does not hold the requested rows', exp, obs)
            tots.append(check_eval(ctx, c, base, e, f'part {i} made by Database.{call}', key, {'library_call': op}))
        add_up(tots, f'Database.{call}', ALLQ)
        return
    # ---- split
    pairs = r['pairs']
    k = op['slices']
    st.record({'id': c.get('id'), 'n': n, 'lib': op, 'h': hash_cols(c)}, nontrivial=(n % k != 0))
    if len(pairs) != k:
        bad('parts', f'Database.split returned {len(pairs)} pairs for {k} slices', k, len(pairs))
        return
    for i, p in enumerate(pairs):
        for role in ('validation', 'estimation'):
            if p[role].get('rows') is None:
                bad('exception', f'Database.split, slice {i}, {role} set: {str(p[role].get("build"))[:250]}', 'a data set', p[role].get('build'))
                return
    vrows = [p['validation']['rows'] for p in pairs]
    if sorted(x for v in vrows for x in v) != allobs:
        missing = sorted(set(allobs) - set(x for v in vrows for x in v))
        bad('not-a-partition', f'Database.split({k}) on {n} observations: the validation slices do not hold every observation exactly once '
            f'(missing {missing})', allobs, vrows)
        return
    for i, p in enumerate(pairs):
        if sorted(p['validation']['rows'] + p['estimation']['rows']) != allobs:
            bad('not-a-partition', f'Database.split({k}): estimation and validation sets of slice {i} do not hold every observation exactly once',
                allobs, {'estimation': p['estimation']['rows'], 'validation': p['validation']['rows']})
            return
    if op.get('groups') and not c.get('panel'):
        g = c['cols'][op['groups']]
        for gid in set(g):
            if len({i for i, v in enumerate(vrows) for x in v if g[x] == gid}) != 1:
                bad('groups', f'Database.split(groups): group {gid} is spread over several slices', 'one slice per group', vrows)
                return
    elif not c.get('panel'):
        lib_items.append(('split', n, k, [len(v) for v in vrows], c, op))
    vt = [check_eval(ctx, c, base, p['validation'], f'validation slice {i} of Database.split({k})', key, {'library_call': op})
          for i, p in enumerate(pairs)]
    add_up(vt, f'Database.split({k}), validation slices', ALLQ)
    for i, p in enumerate(pairs):
        et = check_eval(ctx, c, base, p['estimation'], f'estimation set {i} of Database.split({k})', key, {'library_call': op})
        add_up([et, vt[i]], f'Database.split({k}), estimation + validation set {i}', (('f', 'log likelihood'),))


def stream_library(ctx, lib_items):
    st = ctx.stream('library_splits',
                    'rows of Database.extract_rows(range(start, stop, step)) vs the model py_range, sizes of the validation slices of '
                    'Database.split(k) vs the model array_split_sizes n k, compared inside Coq; non-trivial = step other than 1 / n not a '
                    'multiple of k; distinct by (range, n) / (n, k)')
    if not lib_items:
        return
    items, metas = [], []
    for it in lib_items:
        if it[0] == 'range':
            (a, b, s_), obs = it[1], it[2]
            if obs is None:
                continue
            items.append(f'(true, [{a}; {b}; {s_}], ' + coq_list([str(x) for x in obs]) + ')')
            st.record({'range': it[1], 'n': len(it[3]['cols']['x1'])}, nontrivial=(s_ != 1))
        else:
            _, n, k, sizes = it[:4]
            items.append(f'(false, [{n}; {k}], ' + coq_list([str(x) for x in sizes]) + ')')
            st.record({'n': n, 'k': k}, nontrivial=(n % k != 0))
        metas.append(it)
    files = {}
    B = 300
    hdr = ('From Coq Require Import ZArith List Bool.\nFrom BV Require Import Model.LogLike.\nImport ListNotations.\nOpen Scope Z_scope.\n'
           'Fixpoint leq (a b : list Z) : bool := match a, b with [], [] => true | x :: a, y :: b => (x =? y) && leq a b | _, _ => false end.\n'
           'Definition chk (c : bool * list Z * list Z) : bool := let \'(isr, args, obs) := c in\n'
           '  match isr, args with\n  | true, [a; b; s] => leq (py_range a b s) obs\n'
           '  | false, [n; k] => leq (map Z.of_nat (array_split_sizes (Z.to_nat n) (Z.to_nat k))) obs\n  | _, _ => false end.\n')
    for i in range(0, len(items), B):
        files[f'lib_{i // B}'] = hdr + 'Definition cases := ' + coq_list(items[i:i + B], ';\n') + '.\nEval vm_compute in (map chk cases).\n'
    outs = ctx.coq_eval_many(files)
    for name, (ok, out) in outs.items():
        i0 = int(name.split('_')[1]) * B
        bs = parse_bools(out) if ok else []
        if not ok or len(bs) != len(items[i0:i0 + B]):
            ctx.stream_broken('library_splits', 'model evaluation failed: ' + out[-400:])
            return
        for j, b in enumerate(bs):
            if not b:
                it = metas[i0 + j]
                st.disagree({'kind': it[0], 'args': it[1] if it[0] == 'range' else [it[1], it[2]]}, 'model py_range / array_split_sizes',
                            it[2] if it[0] == 'range' else it[3])
    if st.disagreements:
        ctx.stream_broken('library_splits', f'{len(st.disagreements)} disagreements, first: ' + json.dumps(st.disagreements[0], default=str)[:800])


def hash_cols(c):
    from common import sha
    return sha([c['cols'], c['betas'], c['model'], c['weight']])


# ---------------------------------------------------------------------------------------- partition stream
def emulate(terms, bounds):
    """IEEE-754 double arithmetic (Python floats): per block sequential sum from 0.0, then the partial sums
    added in block order from 0.0 -- the model's thread_sum / join on doubles"""
    tot = 0.0
    for s, e in bounds:
        p = 0.0
        for r in range(s, e):
            p += terms[r]
        tot += p
    return tot


def naive_bounds(n, T):
    """what a different (wrong) partition would be: floor-sized blocks, remainder to the last thread"""
    T = min(T, n)
    size = n // T
    return [(t * size, n if t == T - 1 else (t + 1) * size) for t in range(T)]


def stream_partition(ctx, items):
    st = ctx.stream('partition_observed',
                    'the engine total (function value and every gradient entry) re-computed in IEEE double arithmetic under the '
                    'MODEL partition blocks n T (evaluated in Coq) must be the very double the engine returned (BIOGEME object with T threads; '
                    'one-expression evaluator, aggregated: 4 threads, values added one by one in the order of concat (blocks n 4)); '
                    'non-trivial = the same re-computation under a single block or under floor-sized blocks gives another double '
                    '(so the agreement discriminates between partitions); distinct by (table, weights, T)')
    pairs = sorted({(n, T) for (_, n, T, _, _) in items})
    if not pairs:
        ctx.stream_broken('partition_observed', 'no observation collected')
        return
    files = {}
    B = 400
    for i in range(0, len(pairs), B):
        chunk = pairs[i:i + B]
        files[f'part_{i // B}'] = ('From Coq Require Import ZArith List.\nFrom BV Require Import Model.LogLike.\nImport ListNotations.\n'
                                   'Open Scope Z_scope.\nDefinition cases : list (Z * Z) := '
                                   + coq_list([f'({n}, {T})' for n, T in chunk]) + '.\n'
                                   'Eval vm_compute in (map (fun c => bounds_flat (fst c) (snd c)) cases).\n')
    outs = ctx.coq_eval_many(files)
    model = {}
    for name, (ok, out) in outs.items():
        i0 = int(name.split('_')[1]) * B
        chunk = pairs[i0:i0 + B]
        body = None
        if ok and '=' in out:
            txt = out[out.index('=') + 1:]
            txt = txt[:txt.rindex(':')] if ':' in txt else txt
            try:
                body = json.loads(txt.replace(';', ','))
            except Exception:  # noqa
                body = None
        if body is None or len(body) != len(chunk):
            ctx.stream_broken('partition_observed', 'model evaluation failed: ' + out[-400:])
            return
        for pr, flat in zip(chunk, body):
            model[pr] = list(zip(flat[0::2], flat[1::2]))
    for c, n, T, e, base in items:
        bounds = model[(n, T)]
        cov = [r for s, en in bounds for r in range(s, en)]
        if cov != list(range(n)):
            st.disagree({'n': n, 'T': T}, 'a partition of the rows', bounds, 'model blocks are not a partition (contradicts T04a)')
            continue
        alt = [[(0, n)], naive_bounds(n, T)]
        if e.get('unweighted'):
            # one-expression evaluator, aggregated: its 4 threads each keep the LIST of their rows' values
            # (bioThreadArgOneExpression::aggregation is not set) and the join adds them one by one in thread order:
            # sequential accumulation over concat (blocks n 4) = rows 0..n-1 in order (T04a)
            alt = [bounds]
            bounds = [(r, r + 1) for r in cov]
        w = [to_float(x) for x in base.w]
        weighted = bool(c.get('weight')) and not e.get('unweighted')
        vecs = [('f', [to_float(x) for x in base.f], to_float(F(val(e['f0']))))]
        dg = Fl(val(e['d'])['g'])
        for k in range(base.k):
            vecs.append((f'g{k}', [to_float(base.g[r][k]) for r in range(n)], to_float(dg[k])))
        nontriv = False
        for name, per_row_v, engine_v in vecs:
            terms = [wi * v for wi, v in zip(w, per_row_v)] if weighted else per_row_v
            mine = emulate(terms, bounds)
            if any(emulate(terms, a) != mine for a in alt):
                nontriv = True
            if mine.hex() != engine_v.hex():
                st.disagree(witness(c, T=T, quantity=name), {'blocks': bounds, 'recomputed': mine.hex()}, engine_v.hex(),
                            'engine total is not the double obtained with the modelled partition')
                break
        st.record({'n': n, 'T': T, 'h': hash_cols(c), 'evaluator': bool(e.get('unweighted'))}, nontrivial=nontriv)
    if st.disagreements:
        ctx.stream_broken('partition_observed', f'{len(st.disagreements)} disagreements, first: '
                          + json.dumps(st.disagreements[0], default=str)[:1200])


# ---------------------------------------------------------------------------------------- rethread / bootstrap
RETHREAD_PAIRS = [[4, 2], [2, 4], [1, 16], [3, 0], [10, 1]]


def check_rethread(ctx, c, r, st):
    if r is None or 'crash' in r or 'runner' in r:
        tag = '+'.join(f'{a}->{b}' for a, b in c['pairs'])
        ctx.violation(f'C04/rethread/{tag}/crash', 'the process died after the thread count was changed through the setter '
                      '(old -> new, simulate, calculate_likelihood)', witness(c, pairs=c['pairs']), 'the same total', r, HOW)
        return
    n = r['n']
    for p in r['pairs']:
        tag = f'{p["old"]}->{p["new"]}'
        st.record({'n': n, 'pair': tag, 'h': hash_cols(c)}, nontrivial=p['old'] != p['new'])
        wit = witness(c, old_thread_count=p['old'], new_thread_count=p['new'],
                      steps='BIOGEME(number_of_threads=old); calculate_likelihood; obj.number_of_threads = new; simulate; calculate_likelihood')
        bad_part = next((k for k in ('build', 'f0', 'set', 'sim', 'f1', 'fs', 'd', 'N') if k in p and not p[k]['ok']), None)
        if bad_part:
            ctx.violation(f'C04/rethread/{tag}/exception', f'{bad_part} raised after changing the thread count {tag}', wit,
                          'the same total as before', p[bad_part], HOW)
            continue
        base = Base(c, val(p['sim']), val(r['rows']) if r['rows']['ok'] else None)
        if not base.ok or base.n != n:
            ctx.violation(f'C04/rethread/{tag}/simulate', 'simulate after the change: ' + (base.why or 'wrong number of rows'), wit, n, str(p['sim'])[:200], HOW)
            continue
        ex, ab, m = base.exact('f', range(n))
        for k in ('f0', 'f1'):
            v = F(val(p[k]))
            if v is None or abs(v - ex[0]) > sum_bound(n, ab[0], m):
                ctx.violation(f'C04/rethread/{tag}/total', f'{k}: after changing the thread count {tag} and simulating, the log likelihood '
                              'is not the weighted sum over all rows', wit, to_float(ex[0]), val(p[k]), HOW)
                break
        else:
            if not close_scaled(F(val(p['fs'])), F(val(p['f1'])), val(p['N'])):
                ctx.violation(f'C04/rethread/{tag}/scaled', 'scaled value is not total / N', wit, None, val(p['fs']), HOW)
            d = val(p['d'])
            fd = F(d['f'])
            if fd is None or abs(fd - ex[0]) > sum_bound(n, ab[0], 1):
                ctx.violation(f'C04/rethread/{tag}/total', 'calculate_likelihood_and_derivatives after the change', wit, to_float(ex[0]), d['f'], HOW)
            elif base.g is not None:
                for what in ('g', 'h', 'b'):
                    exv, abv, mm = base.exact(what, range(n))
                    if cmp_vec(Fl(d[what]), exv, abv, n, mm) is not None:
                        ctx.violation(f'C04/rethread/{tag}/derivatives', f'{what} after the change is not the weighted sum over all rows',
                                      wit, [to_float(v) for v in exv], d[what], HOW)
                        break


def check_bootstrap(ctx, c, r, st):
    wit = witness(c, T=c['T'], bootstrap_samples=c['samples'], seed=c['seed'],
                  steps='simulate; calculate_likelihood; estimate(run_bootstrap=True); calculate_likelihood; simulate')
    if c.get('fault_at'):
        wit['fault_at'] = c['fault_at']
        wit['steps'] = ('simulate; calculate_likelihood; estimate(run_bootstrap=True) with obj.optimize replaced so that its '
                        f'call number {c["fault_at"]} raises; exception caught; calculate_likelihood; ..._and_derivatives; simulate')
    if r is None or 'crash' in r or 'runner' in r:
        ctx.violation('C04/bootstrap/crash', 'the process died', wit, 'results', r, HOW)
        return None
    n = r['n']
    for k in ('build', 'sim_before', 'f_before'):
        if k in r and not r[k]['ok']:
            ctx.violation('C04/bootstrap/exception', f'{k} raised', wit, 'a value', r[k], HOW)
            return None
    if not r['estimate']['ok']:
        return False          # the estimation itself failed on this table: not a statement of C04
    if c.get('fault_at'):
        if not val(r['estimate']).get('interrupted'):
            return False
    elif val(r['estimate'])['nboot'] != c['samples']:
        return False
    st.record({'n': n, 'T': c['T'], 'samples': c['samples'], 'fault_at': c.get('fault_at'), 'panel': bool(c.get('panel')), 'h': hash_cols(c)}, nontrivial=True)
    for k in ('f_after', 'fs_after', 'd_after', 'sim_after', 'N'):
        if not r[k]['ok']:
            ctx.violation('C04/bootstrap/exception', f'{k} raised after the bootstrap run', wit, 'a value', r[k], HOW)
            return True
    base = Base(c, val(r['sim_before']), val(r['rows']) if r['rows']['ok'] else None)
    after = Base(c, val(r['sim_after']), None)
    if not base.ok or not after.ok or base.n != n or after.n != n:
        ctx.violation('C04/bootstrap/simulate', 'simulate before / after the bootstrap run: ' + (base.why or after.why or 'wrong number of rows'),
                      wit, n, None, HOW)
        return True
    ex, ab, m = base.exact('f', range(n))
    fb, fa = F(val(r['f_before'])), F(val(r['f_after']))
    if fb is None or abs(fb - ex[0]) > sum_bound(n, ab[0], m):
        ctx.violation('C04/bootstrap/before', 'log likelihood before estimation is not the weighted sum', wit, to_float(ex[0]), val(r['f_before']), HOW)
    if fa is None or abs(fa - ex[0]) > sum_bound(n, ab[0], m):
        ctx.violation('C04/bootstrap/after', ('after an INTERRUPTED estimate(run_bootstrap=True) (exception in a re-estimation, caught) '
                      if c.get('fault_at') else 'after estimate(run_bootstrap=True) ') + 'the log likelihood at the same parameters is no longer the '
                      'weighted sum over the rows of the data set (the engine is not evaluating the estimation data)',
                      wit, {'before': val(r['f_before']), 'exact_sum': to_float(ex[0])}, {'after': val(r['f_after'])}, HOW)
        return True
    for i in range(n):
        if abs(after.f[i] - base.f[i]) > 4 * U53 * abs(base.f[i]) + TINY or abs(after.w[i] - base.w[i]) > 4 * U53 * abs(base.w[i]) + TINY:
            ctx.violation('C04/bootstrap/simulate-after', f'simulate after the bootstrap run reports another value for row {i}', wit,
                          to_float(base.f[i]), to_float(after.f[i]), HOW)
            return True
    if not close_scaled(F(val(r['fs_after'])), fa, val(r['N'])):
        ctx.violation('C04/bootstrap/scaled', 'scaled value after the bootstrap run is not total / N', wit, None, val(r['fs_after']), HOW)
    d = val(r['d_after'])
    if base.g is not None:
        for what in ('g', 'h', 'b'):
            exv, abv, mm = base.exact(what, range(n))
            if cmp_vec(Fl(d[what]), exv, abv, n, mm) is not None:
                ctx.violation('C04/bootstrap/derivatives', f'{what} after the bootstrap run is not the weighted sum over the rows', wit,
                              [to_float(v) for v in exv], d[what], HOW)
                break
    return True


def gen_bootstrap_case(rng, i, fault=False, panel=False):
    if panel:
        cols, _ = gen_panel_cols(rng, 2, n_ind=rng.randint(14, 24))
        n = len(cols['x1'])
    else:
        n = rng.randint(30, 60)
        cols = gen_table(rng, n, 2)
    # a choice that depends on the attributes, so that the estimation is well behaved
    cols['ch'] = [(1 if (cols['x1'][r] - cols['x2'][r] + rng.randint(-60, 60)) > 0 else 2) * SCALE for r in range(n)]
    cols['w'] = [rng.randint(8, 32) for _ in range(n)]
    c = {'kind': 'bootstrap', 'id': f'boot{i}', 'scale': SCALE, 'model': 2, 'betas': {'b1': rng.randint(-8, 8), 'b2': rng.randint(-8, 8)},
         'weight': None if panel else rng.choice([None, 'w']), 'cols': cols, 'T': rng.choice([1, 2, 3, 0]), 'samples': rng.randint(2, 4),
         'seed': rng.randint(1, 10 ** 6)}
    if panel:
        c['panel'] = True
    if fault:      # optimize call 1 is the estimation itself; calls 2 .. samples+1 are the bootstrap re-estimations
        c['fault_at'] = rng.randint(2, c['samples'] + 1)
    return c


# ---------------------------------------------------------------------------------------- histories on one object
def gen_history_case(rng, i, klass='generic'):
    n = rng.randint(4, 20)
    model = rng.choice([1, 2, 2, 3])
    names = [f'b{k + 1}' for k in range(model)]

    def point(zero_prob=0.3):
        return {k: (0 if rng.random() < zero_prob else rng.choice([-1, 1]) * rng.randint(1, 32)) for k in names}

    c = {'kind': 'history', 'id': f'hist{i}', 'class': klass, 'scale': SCALE, 'model': model,
         'betas': {k: rng.choice([-1, 1]) * rng.randint(1, 32) for k in names},       # non-zero starting values
         'weight': rng.choice([None, 'w', 'wexpr', 'const']), 'cols': gen_table(rng, n, model), 'T': rng.choice([1, 2, 3, 0])}
    if c['weight'] == 'const':
        c['wconst'] = rng.choice([8, 24, 40])
    c['points'] = [point() for _ in range(rng.randint(2, 4))]
    npt = len(c['points'])
    steps = []
    if klass == 'shared-parameters':
        c['shared'] = True
        c['T'] = rng.choice([4, 8, n])
        steps = [{'op': 'like', 'pt': 0, 'scaled': False}, {'op': 'other', 'T': rng.choice([1, 2, 3])}, {'op': 'sim', 'pt': 0},
                 {'op': 'like', 'pt': 0, 'scaled': False}, {'op': 'derivs', 'pt': 1, 'scaled': False, 'hessian': True, 'bhhh': True},
                 {'op': 'other', 'T': rng.choice([n + 2, 16])}, {'op': 'sim', 'pt': 1}, {'op': 'like', 'pt': 1, 'scaled': True}]
    elif klass == 'threads-after-derivatives':
        c['T'] = rng.choice([1, 2, 3])
        steps = [{'op': 'derivs', 'pt': 0, 'scaled': False, 'hessian': True, 'bhhh': True},
                 {'op': 'threads', 'T': rng.choice([c['T'] + 1, 8, 16, 0])}, {'op': 'like', 'pt': 0, 'scaled': False},
                 {'op': 'derivs', 'pt': 1, 'scaled': False, 'hessian': True, 'bhhh': True}, {'op': 'sim', 'pt': 1}]
    else:
        derivs_seen = False
        for _ in range(rng.randint(6, 11)):
            u = rng.random()
            if u < 0.3:
                steps.append({'op': 'derivs', 'pt': rng.randrange(npt), 'scaled': rng.random() < 0.2,
                              'hessian': rng.random() < 0.8, 'bhhh': rng.random() < 0.8})
                derivs_seen = True
            elif u < 0.4:
                steps.append({'op': 'like', 'pt': rng.randrange(npt), 'scaled': rng.random() < 0.5})
            elif u < 0.5:
                steps.append({'op': 'sim', 'pt': rng.randrange(npt)})
            elif u < 0.75:
                # new values for some of the parameters, exact zeros among them; then the likelihood at the current values
                sub = [k for k in names if rng.random() < 0.7] or [names[0]]
                steps.append({'op': 'change', 'values': {k: (0 if rng.random() < 0.5 else rng.choice([-1, 1]) * rng.randint(1, 32)) for k in sub}})
                steps.append({'op': 'init'})
            elif u < 0.85:
                steps.append({'op': 'random', 'seed': rng.randint(1, 10 ** 6), 'bound': rng.choice([100.0, 2.0, 1.0])})
                steps.append({'op': 'init'})
            elif u < 0.95:
                if not derivs_seen:          # (raising the count after a derivatives call: class threads-after-derivatives)
                    steps.append({'op': 'threads', 'T': rng.choice([1, 2, 3, n, n + 3, 0])})
            else:
                steps.append({'op': 'init'})
        if rng.random() < 0.25 and n >= 12 and model <= 2:
            steps.append({'op': 'change', 'values': {k: 0 for k in names if rng.random() < 0.6}})
            steps.append({'op': 'estimate'})
            steps.append({'op': 'init'})
    c['steps'] = steps
    return c


def check_history(ctx, c, r, st):
    klass = c.get('class', 'generic')
    key = f'C04/history/{klass}'
    wit = witness(c, points=c['points'], T=c['T'], steps=c['steps'], shared_parameters=bool(c.get('shared')),
                  history='one BIOGEME object built with number_of_threads=T; steps in order; every kept result re-read at the end')
    wit['class'] = klass
    if r is None or 'crash' in r or 'runner' in r:
        ctx.violation(key + '/crash', 'the process died during a history of calls on one BIOGEME object', wit, 'results', r, HOW)
        return
    n = r['n']
    if 'build' in r:
        ctx.violation(key + '/exception', 'BIOGEME could not be built: ' + str(r['build'])[:200], wit, 'an object', r['build'], HOW)
        return
    bases = []
    for j, p in enumerate(r['points']):
        b = Base(c, val(p)['sim'], val(p)) if p['ok'] else None
        if b is None or not b.ok or b.n != n:
            ctx.violation(key + '/exception', f'per-observation values at point {j} unavailable', wit, 'values', p if not p['ok'] else b.why, HOW)
            return
        bases.append(b)
    cpu = None
    current = {k: Fraction(v, c['scale']) for k, v in c['betas'].items()}     # model of the object's current values
    known = True

    def vec_ok(base, what, obs_raw, div):
        exv, abv, m = base.exact(what, range(n))
        obs = Fl(obs_raw)
        if obs is None or len(obs) != len(exv):
            return False
        for o, e, a in zip(obs, exv, abv):
            if abs(o - e / div) > sum_bound(n, a, m) / div + 2 * U53 * abs(e / div):
                return False
        return True

    def check_derivs(base, stp, d):
        div = n if stp['scaled'] else 1
        bad = [nm for what, nm, on in (('f', 'function', True), ('g', 'gradient', True), ('h', 'hessian', stp['hessian']), ('b', 'bhhh', stp['bhhh']))
               if on and not vec_ok(base, what, [d['f']] if what == 'f' else d[what], div)]
        return bad

    for i, (stp, res) in enumerate(zip(c['steps'], r['steps'])):
        op = stp['op']
        st.record({'id': c['id'], 'step': i, 'op': stp, 'h': hash_cols(c), 'class': klass}, nontrivial=i > 0)
        where = f'step {i} ({op})'
        if not res['ok']:
            ctx.violation(key + '/exception', f'{where} raised: {res.get("exc")}: {res.get("msg")}', wit, 'a value', res, HOW)
            return
        v = res['v']
        if op == 'derivs':
            base = bases[stp['pt']]
            bad = check_derivs(base, stp, v)
            if bad:
                ctx.violation(key + '/derivatives', f'{where} at point {stp["pt"]}: {bad} not the weighted sums of the per-row values at that point',
                              wit, None, v, HOW)
                return
            fin = r['final'].get(str(i))
            if fin is None or not fin['ok'] or check_derivs(base, stp, fin['v']):
                ctx.violation(key + '/result-overwritten', f'{where}: the result returned for point {stp["pt"]} was right when returned but '
                              f'{check_derivs(base, stp, fin["v"]) if fin and fin["ok"] else "unreadable"} no longer hold(s) the sums at that point after the later calls',
                              wit, v, fin, HOW)
                return
        elif op == 'like':
            base = bases[stp['pt']]
            if not vec_ok(base, 'f', [v], n if stp['scaled'] else 1):
                exv, _, _ = base.exact('f', range(n))
                ctx.violation(key + '/total', f'{where} at point {stp["pt"]}: not the weighted sum of the per-row values' + (' / N' if stp['scaled'] else ''),
                              wit, to_float(exv[0] / (n if stp['scaled'] else 1)), v, HOW)
                return
        elif op == 'sim':
            base = bases[stp['pt']]
            for tag, sm in (('returned', v), ('re-read at the end', (r['final'].get(str(i)) or {}).get('v'))):
                own = Base(c, sm, None)
                if not own.ok or own.n != n or any(abs(a - b) > 4 * U53 * abs(b) + TINY for a, b in zip(own.f + own.w, base.f + base.w)):
                    ctx.violation(key + '/simulate', f'{where}: per-row values ({tag}) differ from those of a fresh object at point {stp["pt"]}', wit, None, sm, HOW)
                    return
        elif op == 'change':
            for k, x in stp['values'].items():
                current[k] = Fraction(x, c['scale'])
        elif op in ('random',):
            known = False
        elif op in ('threads', 'other'):
            pass
        elif op in ('init', 'estimate'):
            cur = {k: F(x) for k, x in v['cur'].items()}
            if op == 'init':
                if known and any(cur.get(k) != current[k] for k in current):
                    ctx.violation(key + '/current-values', f'{where}: get_beta_values() is not the result of the change_init_values calls',
                                  wit, {k: to_float(x) for k, x in current.items()}, v['cur'], HOW)
                    return
                vec = Fl(v['vec'])
                if vec is None or vec != [cur[k] for k in r['free']]:
                    ctx.violation(key + '/current-values', f'{where}: the parameter vector used for the likelihood (id_manager.free_betas_values) differs from '
                                  'get_beta_values()', wit, v['cur'], v['vec'], HOW)
                    # keep going: the likelihood oracle below gives the property-level witness
            fresh = Base(c, v['sim'], None)
            if not fresh.ok or fresh.n != n:
                ctx.violation(key + '/simulate', f'{where}: simulate at the current values: ' + (fresh.why or 'wrong number of rows'), wit, n, None, HOW)
                return
            ex, ab, m = fresh.exact('f', range(n))
            for nm in (('f', 'init') if op == 'init' else ('init',)):
                fv = F(v[nm])
                if fv is None or abs(fv - ex[0]) > sum_bound(n, ab[0], m):
                    what = ('calculate_init_likelihood()' if nm == 'f' else 'the initial log likelihood kept by ' + ('the object' if op == 'init' else 'estimate()'))
                    ctx.violation(key + '/init-likelihood', f'{where}: {what} is not the weighted sum of the values simulate reports at the current '
                                  'values get_beta_values()', wit, {'current': {k: to_float(x) for k, x in cur.items()}, 'exact_sum': to_float(ex[0])},
                                  v[nm], HOW)
                    return
            if op == 'init':
                own = Base(c, v['own'], None)
                if not own.ok or any(abs(a - b) > 4 * U53 * abs(b) + TINY for a, b in zip(own.f, fresh.f)):
                    ctx.violation(key + '/simulate', f'{where}: simulate of the object differs from a fresh object at the same values', wit, None, v['own'], HOW)
                    return
            else:
                known = False
                # what the object reports at its current values AFTER estimate() is a witness class of its own
                key = 'C04/history/after-estimate'


# ---------------------------------------------------------------------------------------- stream ll_vs_simulate
LL_RULE = ('generated tables (1-40 rows, dyadic cells k/16), logit log likelihood with 1-3 parameters at dyadic parameter points, weight '
           'column / weight expression / none; every table evaluated with thread counts {1,2,3,n-1,n,n+3,0=cpu count} (given through the '
           'BIOGEME keyword or a Parameters object), on 2-3 row permutations and on 1-3 splits into 2-4 parts (and the one-row-per-part '
           'split for n<=8); after changing the thread count through the setter; before / after estimate(run_bootstrap=True), also when a '
           'bootstrap re-estimation raises (fault injected into the k-th optimize call, caught) on cross-sectional and panel data; panel '
           'tables (unequal individuals, log PanelLikelihoodTrajectory): one observation = one individual, scaled = total / number of individuals; '
           'weight formula also a bare Numeric constant, a constant expression, a constant times a column, formulas named loglike / weights; '
           'parts made by the library: Database.extract_rows on range partitions (interleaved step 2-4, backwards, reversed blocks, lists), '
           'Database.split(k) (k mostly not dividing n; groups=; panel) validation slices and estimation/validation pairs, mdcev_row_split. '
           'Oracle: calculate_likelihood and calculate_likelihood_and_derivatives (f, g, h, bhhh; scaled and not) within '
           '(8(n-1)+2k) 2^-53 sum|terms| of the EXACT rational sum of weight x per-row value (simulate for f and the weight; the '
           'disaggregated evaluator for the derivatives). One evaluation = one BIOGEME object; non-trivial = at least 2 rows (threads), '
           'a non-identity permutation, at least 2 parts; distinct by (table, weights, parameters, thread count / permutation / split)')


def stream_ll(ctx, only=None, n_cases=None, with_partition=True):
    st = ctx.stream('ll_vs_simulate', LL_RULE)
    rng = ctx.sub_rng('ll_vs_simulate')
    if only is not None:
        cases = only
    else:
        cases = load_corpus()
        ngen = n_cases if n_cases is not None else ctx.n(48, 1000)
        cases += [gen_case(rng, i) for i in range(ngen)]
        # every size from 1 to 12 at least once (small tables exercise T > n)
        cases += [gen_case(rng, 10000 + n, n=n) for n in range(1, 13)]
        for i in range(ctx.n(2, 8)):
            base = gen_case(rng, 20000 + i, n=rng.choice([5, 10, 11, 16, 23]))
            for j, pr in enumerate(RETHREAD_PAIRS + [[rng.randint(1, 20), rng.randint(0, 20)] for _ in range(2)]):
                cases.append({'kind': 'rethread', 'id': f'rt{i}.{j}', 'pairs': [pr],
                              **{k: base[k] for k in SPEC_KEYS if k in base}})
        cases += [gen_bootstrap_case(rng, i) for i in range(ctx.n(2, 6))]
        cases += [gen_panel_case(rng, i) for i in range(ctx.n(6, 60))]
        cases += [gen_bootstrap_case(rng, 100 + i, fault=True, panel=(i % 2 == 1)) for i in range(ctx.n(4, 16))]
        cases.append(gen_bootstrap_case(rng, 200, fault=False, panel=True))
        cases += [gen_history_case(rng, i) for i in range(ctx.n(16, 200))]
        cases += [gen_history_case(rng, 1000 + i, 'shared-parameters') for i in range(ctx.n(2, 8))]
        cases += [gen_history_case(rng, 2000 + i, 'threads-after-derivatives') for i in range(ctx.n(2, 8))]
    t0 = time.time()
    # rethread / bootstrap cases first and in chunks of their own (a reverted fix kills the process / is slow)
    hist = [c for c in cases if c['kind'] == 'history']
    gen_h = [c for c in hist if c.get('class', 'generic') == 'generic']
    oth_h = [c for c in hist if c.get('class', 'generic') != 'generic']
    res_hist = (ctx.impl_cases('c04_ll.py', gen_h, chunk=max(1, len(gen_h) // 16 + 1), timeout=600) if gen_h else []) + \
               (ctx.impl_cases('c04_ll.py', oth_h, chunk=1, timeout=600) if oth_h else [])
    for c_, r_ in zip(gen_h + oth_h, res_hist):
        check_history(ctx, c_, r_, st)
    special = [c for c in cases if c['kind'] == 'rethread'] + [c for c in cases if c['kind'] == 'bootstrap']
    tables = [c for c in cases if c['kind'] == 'table']
    nrt = sum(1 for c in special if c['kind'] == 'rethread')
    res_special = (ctx.impl_cases('c04_ll.py', special[:nrt], chunk=3, timeout=600) if nrt else []) + \
                  (ctx.impl_cases('c04_ll.py', special[nrt:], chunk=1, timeout=600) if special[nrt:] else [])
    res_tables = ctx.impl_cases('c04_ll.py', tables, chunk=max(1, min(12, len(tables) // 16 + 1)), timeout=900) if tables else []
    part_items, lib_items = [], []
    for c, r in zip(tables, res_tables):
        check_table(ctx, c, r, st, None, part_items, lib_items)
    boot_ok = 0
    boot_corpus_failed = []
    for c, r in zip(special, res_special):
        if c['kind'] == 'rethread':
            check_rethread(ctx, c, r, st)
        elif c['kind'] == 'bootstrap':
            ok = check_bootstrap(ctx, c, r, st)
            boot_ok += 1 if ok else 0
            if ok is False and c.get('corpus'):
                boot_corpus_failed.append(c['corpus'])
    st.extra['wall_s'] = round(time.time() - t0, 1)
    st.extra['bootstrap_cases_estimated'] = boot_ok
    if only is None and (boot_ok == 0 or boot_corpus_failed):
        ctx.stream_broken('ll_vs_simulate', f'no bootstrap case could be estimated / corpus bootstrap case failed to estimate: {boot_corpus_failed}')
    if st.disagreements:
        ctx.stream_broken('ll_vs_simulate', f'{len(st.disagreements)} disagreements, first: ' + json.dumps(st.disagreements[0], default=str)[:1200])
    if with_partition:
        stream_partition(ctx, part_items)
        stream_library(ctx, lib_items)


# ---------------------------------------------------------------------------------------- stream threads_resolution
def stream_threads(ctx):
    st = ctx.stream('threads_resolution',
                    'number_of_threads getter for parameter values 0..40, 64, 1000 given through the BIOGEME keyword, a Parameters '
                    'object or the setter vs the GENERATED definition number_of_threads cpu p evaluated in Coq; every (value, route) '
                    'is a distinct decision; non-trivial = value 0 (resolution to the cpu count) or a route other than the keyword')
    rng = ctx.sub_rng('threads')
    base = gen_case(rng, 0, n=6)
    reqs = [[p, route] for p in [0, 1, 2, 3, 5, 7, 16, 17, 40, 64, 1000] for route in ('kw', 'params', 'setter')]
    reqs += [[rng.randint(0, 40), rng.choice(['kw', 'params', 'setter'])] for _ in range(ctx.n(10, 60))]
    c = {'kind': 'threads', 'requests': reqs, **{k: base[k] for k in SPEC_KEYS if k in base}}
    res = ctx.impl_cases('c04_ll.py', [c], chunk=1)[0]
    if res is None or 'crash' in res or 'runner' in res:
        ctx.violation('C04/threads/crash', 'thread-count resolution: the process died', {'requests': reqs}, None, res, HOW)
        return
    cpu = res['cpu']
    items, metas = [], []
    for (p, route), r in zip(reqs, res['requests']):
        st.record({'p': p, 'route': route}, nontrivial=(p == 0 or route != 'kw'))
        if not r['ok']:
            ctx.violation(f'C04/threads/exception/{route}', f'number_of_threads={p} via {route} raised', {'p': p, 'route': route}, 'a thread count', r, HOW)
            continue
        got = r['v']['got']
        # property oracle: 0 -> cpu count, otherwise the value itself
        want = cpu if p == 0 else p
        if got != want or r['v']['param'] != p:
            ctx.violation(f'C04/threads/resolution/{route}', f'number_of_threads for parameter value {p} (via {route}) is {got}', {'p': p, 'route': route, 'cpu_count': cpu},
                          want, r['v'], HOW)
        items.append(f'({cpu}, {p}, {got})')
        metas.append((p, route, got))
    if not items:
        return
    text = ('From Coq Require Import ZArith List.\nFrom BV Require Import Gen.Threads.\nImport ListNotations.\nOpen Scope Z_scope.\n'
            "Definition chk (c : Z * Z * Z) : bool := let '(cpu, p, got) := c in number_of_threads cpu p =? got.\n"
            'Definition cases := ' + coq_list(items) + '.\nEval vm_compute in (map chk cases).\n')
    ok, out = ctx.coq_eval('threads_0', text)
    bs = parse_bools(out) if ok else []
    if not ok or len(bs) != len(items):
        ctx.stream_broken('threads_resolution', 'model evaluation failed: ' + out[-400:])
        return
    for b, m in zip(bs, metas):
        if not b:
            st.disagree({'p': m[0], 'route': m[1], 'cpu': cpu}, 'generated number_of_threads cpu p', m[2])
    if st.disagreements:
        ctx.stream_broken('threads_resolution', f'{len(st.disagreements)} disagreements, first: {st.disagreements[0]}')


# ---------------------------------------------------------------------------------------- stress (thorough)
def stream_stress(ctx):
    st = ctx.stream('stress_run_to_run',
                    'NOT A PROOF: 100 repetitions x 10 thread counts on 1000-row tables, 16 processes at once; every repetition must '
                    'return the very same doubles (f; g, h, bhhh every 4th; simulate every 25th) and every thread count a total within '
                    'the summation bound of the exact sum; one evaluation = one calculate_likelihood call; distinct by (table, T)')
    rng = ctx.sub_rng('stress')
    cases = []
    for i in range(16):
        model = rng.choice([1, 2, 3])
        cases.append({'kind': 'stress', 'id': f'stress{i}', 'n': rng.choice([1000, 1000, 997, 1024]), 'seed': rng.randint(1, 10 ** 6), 'model': model,
                      'betas': {f'b{k + 1}': rng.randint(-16, 16) for k in range(model)}, 'weight': rng.choice([None, 'w', 'wexpr']),
                      'reps': 100, 'threads': [1, 2, 3, 7, 16, 0, 64, 999, 1000, 1003]})
    t0 = time.time()
    res = ctx.impl_cases('c04_ll.py', cases, chunk=1, timeout=1500)
    for c, r in zip(cases, res):
        wit = {k: c[k] for k in ('kind', 'n', 'seed', 'model', 'betas', 'weight', 'reps', 'threads')}
        wit['table'] = 'generated inside lib/impl/c04_ll.py case_stress from numpy default_rng(seed)'
        if r is None or 'crash' in r or 'runner' in r:
            ctx.violation('C04/stress/crash', 'the process died during the stress run', wit, None, r, HOW)
            continue
        n = r['n']
        for run in r['runs']:
            T = run['T']
            w1 = dict(wit, T=T)
            if 'build' in run or not run['res']['ok']:
                ctx.violation('C04/stress/exception', f'stress run raised with {T} threads', w1, None, run.get('build') or run['res'], HOW)
                continue
            v = run['res']['v']
            for _ in range(c['reps']):
                st.evaluations += 1
            st.hashes.add(f'{c["id"]}:{T}')
            if len(st.samples) < 2:
                st.samples.append({'id': c['id'], 'n': n, 'T': T, 'distinct_f': len(v['f']), 'distinct_derivatives': v['nd']})
            if len(v['f']) != 1 or v['nd'] != 1:
                ctx.violation('C04/stress/run-to-run', f'{len(v["f"])} different log likelihoods / {v["nd"]} different derivative sets in {c["reps"]} '
                              f'repetitions with {T} threads on the same table and parameters', w1, 'one value', {'values': v['f'], 'nd': v['nd']}, HOW)
                continue
            base = Base(c, v['sim'], None)
            if not base.ok or base.n != n:
                ctx.violation('C04/stress/simulate', 'simulate: ' + (base.why or 'wrong number of rows'), w1, n, None, HOW)
                continue
            ex, ab, m = base.exact('f', range(n))
            f = F(v['f_ratio'][0])
            if f is None or abs(f - ex[0]) > sum_bound(n, ab[0], m):
                ctx.violation('C04/stress/total', f'total with {T} threads is not within the bound of the exact sum', w1, to_float(ex[0]), v['f_ratio'][0], HOW)
            fd = F(v['d']['f'])
            if fd is None or abs(fd - ex[0]) > sum_bound(n, ab[0], m):
                ctx.violation('C04/stress/total', f'calculate_likelihood_and_derivatives with {T} threads: function not within the bound', w1,
                              to_float(ex[0]), v['d']['f'], HOW)
    st.extra['wall_s'] = round(time.time() - t0, 1)
    st.extra['label'] = 'stress test, NOT a proof'


# ---------------------------------------------------------------------------------------- driver
def run(ctx):
    ctx.assumptions += ASSUME
    ctx.trusted += [
        'tie A: /verif/lib/py2v (fail-closed) for the number_of_threads getter and the tail of calculate_likelihood; a specialised '
        'fail-closed ast extractor in lib/props/C04.py for the tail of calculate_likelihood_and_derivatives (fields function / gradient / '
        'hessian / bhhh are the engine values, divided by float(sample size) when scaled) and a scan of the engine calls (setData, '
        'setExpressions with the thread count and the weight signature, simulateSeveralFormulas, restoration after bootstrap, setter); '
        'the generated number_of_threads is validated against the implementation on this run (stream threads_resolution)',
        'the hand-written engine model Model/LogLike.v (transcribed from cythonbiogeme biogeme.cc / evaluateExpressions.cc, not in /repo) and '
        'the harness: case generators, lib/impl/c04_ll.py, exact rational oracle (fractions.Fraction), IEEE re-computation in Python floats',
        'the C++ engine itself, its memory safety and its real threads are NOT verified (differential runs only)',
    ]
    try:
        gen_all(ctx)
    except Untranslatable as e:
        ctx.tie_broken('py2v:Threads', str(e))
    try:
        ctx.notes['engine_calls'] = scan_feed()
    except Untranslatable as e:
        ctx.tie_broken('scan:engine-feed', str(e))
    ctx.build()
    stream_threads(ctx)
    stream_ll(ctx)
    if not ctx.quick:
        stream_stress(ctx)
    if ctx.broken and not ctx.violations:
        # failing-input search: more oracle evaluations (implementation only), fresh seed
        saved = len(ctx.broken)
        old = ctx.seed
        ctx.seed = f'{old}-search'
        try:
            stream_ll(ctx, n_cases=ctx.n(150, 1500), with_partition=False)
        finally:
            ctx.seed = old
        del ctx.broken[saved:]


def replay(ctx, path):
    w = json.load(open(path))
    wit, key = w.get('witness'), w.get('key') or ''
    import shutil
    if not wit or 'cols' not in wit:
        if wit and wit.get('kind') == 'stress':
            print('replay: stress witnesses are re-run by ./check C04 --tier thorough')
        else:
            print('replay: this file names an obligation/stream; re-run ./check C04')
        shutil.rmtree(ctx.scratch, ignore_errors=True)
        return 2
    n = len(wit['cols']['x1'])
    c = {k: wit[k] for k in SPEC_KEYS + ('panel',) if k in wit}
    c['id'] = 'replay'
    parts = key.split('/')
    if len(parts) > 1 and parts[1] == 'history':
        c.update(kind='history', points=wit['points'], steps=wit['steps'], T=wit['T'], shared=wit.get('shared_parameters', False))
        c['class'] = wit.get('class', 'generic')
    elif len(parts) > 1 and parts[1] == 'rethread':
        c.update(kind='rethread', pairs=[[wit['old_thread_count'], wit['new_thread_count']]] if 'old_thread_count' in wit else wit.get('pairs', RETHREAD_PAIRS))
    elif len(parts) > 1 and parts[1] == 'bootstrap':
        c.update(kind='bootstrap', T=wit['T'], samples=wit['bootstrap_samples'], seed=wit['seed'])
        if wit.get('fault_at'):
            c['fault_at'] = wit['fault_at']
    else:
        T = wit.get('T')
        c.update(kind='table', threads=[[1, 'kw']] + ([[T, 'kw'], [T, 'params']] if T is not None else []), perms=[], splits=[])
        if 'permutation' in wit:
            c['perms'] = [{'perm': wit['permutation'], 'T': T if T is not None else 1}]
        if 'library_call' in wit:
            c['lib'] = [wit['library_call']]
        if 'split' in wit:
            c['splits'] = [{'parts': wit['split'], 'Ts': wit.get('thread_counts') or [1] * len(wit['split'])}]
        if parts[-2:-1] == ['negative'] or 'negative' in key:
            c['negative'] = T or 1
    stream_ll(ctx, only=[c], with_partition=False)
    bad = bool(ctx.violations)
    print(json.dumps({'key': key, 'still_fails': bad,
                      'violations': [{'key': v['key'], 'what': v['what'][:300]} for v in ctx.violations[:3]]}))
    shutil.rmtree(ctx.scratch, ignore_errors=True)
    return 1 if bad else 0
