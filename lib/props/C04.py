"""C04 -- the sample log likelihood is the weighted sum of per-observation values.

Rocq: Model/LogLike.v (engine's partition of the rows over threads, per-thread accumulation, join; reals),
Proofs/LogLikeP.v, Properties/C04.v.
Tie A (regenerated on every run): Gen/Threads.v -- the `number_of_threads` getter (0 -> cpu count), the
division by the sample size at the end of calculate_likelihood and of calculate_likelihood_and_derivatives,
plus a fail-closed scan of how the engine is fed (data, expressions, thread count, restoration after bootstrap).
Tie B / property oracles: streams threads_resolution, partition_observed, ll_vs_simulate (+ stress, thorough)."""
import ast
import json
import time
from fractions import Fraction

import py2v
from py2v import Untranslatable, simple, External
from common import coq_list, parse_bools, REPO, VERIF

U53 = Fraction(1, 2 ** 53)     # unit roundoff of IEEE-754 binary64

ASSUME = [
    'engine (cythonbiogeme, C++, external to /repo): the model Model/LogLike.v is a transcription of biogeme.cc '
    'prepareData / computeFunctionForThread / applyTheFormula; it is tied to the binary only by the streams '
    'partition_observed (bit-exact re-computation of the total under the modelled partition) and ll_vs_simulate',
    'ceil(double(n)/double(T)) equals the exact ceiling (true for n < 2^53); bioUInt arithmetic does not wrap',
    'schedules (PARTIAL): each thread writes only its own bioThreadArg and the join adds the partial results in the '
    'order of the thread index, so the model has no interleaving to quantify over; that the real C++ threads have no '
    'data race cannot be exhibited by the model. The stress run of the thorough tier (repetitions x thread counts on '
    '1000-row tables, identical doubles required run to run) is a TEST, NOT A PROOF',
    'the theorems are over Coq reals: the equalities between totals hold exactly there; on IEEE doubles they hold up to '
    'the rounding of the additions, which is what the oracle bound (8(n-1)+2k) 2^-53 sum|terms| accounts for',
    'mp.cpu_count() is a positive integer (Section variable cpu_count of Gen/Threads.v)',
    'sample size N = number of rows (cross-sectional data; panel data: number of individuals, property C09)',
]


def U(n):
    return ast.unparse(n)


def need(cond, msg):
    if not cond:
        raise Untranslatable(msg)


def _stores(fd, names):
    """(name, lineno) of every binding of one of `names` inside fd"""
    out = []
    for n in ast.walk(fd):
        if isinstance(n, ast.Name) and isinstance(n.ctx, (ast.Store, ast.Del)) and n.id in names:
            out.append((n.id, n.lineno))
    return out


# ---------------------------------------------------------------------------------------- tie A
def gen_threads_text():
    tr = py2v.load('src/biogeme/biogeme.py')
    cls = [n for n in tr.tree.body if isinstance(n, ast.ClassDef) and n.name == 'BIOGEME']
    need(len(cls) == 1, 'biogeme.py: class BIOGEME not found')
    cls = cls[0]
    out = ['From Coq Require Import ZArith Reals List Bool.\nFrom BV Require Import Model.LogLike.\n'
           'Import ListNotations.\nOpen Scope Z_scope.\n']

    # ---- the getter: the FunctionDef named number_of_threads decorated with @property
    getters = [n for n in cls.body if isinstance(n, ast.FunctionDef) and n.name == 'number_of_threads'
               and any(U(d) == 'property' for d in n.decorator_list)]
    need(len(getters) == 1, 'BIOGEME.number_of_threads: expected exactly one @property getter')

    def get_value(tr_, node, args):
        need(len(args) == 1 and args[0][0] == '"number_of_threads"%string',
             'number_of_threads getter reads another parameter: ' + U(node))
        return 'param_number_of_threads', 'Z'

    tr.externals['self.biogeme_parameters.get_value'] = External(get_value)
    tr.externals['mp.cpu_count'] = External(lambda tr_, node, args: (need(not args, 'cpu_count with arguments') or 'cpu_count', 'Z'))
    imports = [U(n) for n in tr.tree.body if isinstance(n, (ast.Import, ast.ImportFrom))]
    need('import multiprocessing as mp' in imports, 'biogeme.py: `mp` is not the multiprocessing module')
    saved_find = tr.find
    tr.find = lambda q: getters[0] if q == 'BIOGEME.number_of_threads' else saved_find(q)
    d = tr.function('BIOGEME.number_of_threads', {}, 'Z')
    tr.find = saved_find
    out.append('Section WithMachine.\n'
               'Variable cpu_count : Z.                 (* multiprocessing.cpu_count() *)\n'
               'Variable param_number_of_threads : Z.   (* biogeme_parameters.get_value("number_of_threads") *)\n'
               + d + 'End WithMachine.\n')

    # ---- calculate_likelihood: what happens to the engine's value
    fd = tr.find('BIOGEME.calculate_likelihood')
    need([a.arg for a in fd.args.args] == ['self', 'x', 'scaled', 'batch'], 'calculate_likelihood: signature changed')
    idx = [i for i, s in enumerate(fd.body) if isinstance(s, ast.Assign) and U(s.targets[0]) == 'f']
    need(len(idx) == 1 and U(fd.body[idx[0]].value) == 'self.theC.calculateLikelihood(x, self.id_manager.fixed_betas_values)',
         'calculate_likelihood: the value is not the one returned by the engine for (x, fixed betas)')
    need(len(_stores(fd, {'f', 'scaled', 'x'})) == 1, 'calculate_likelihood: f / scaled / x re-bound')
    tr.externals['self.database.get_sample_size'] = External(
        lambda tr_, node, args: (need(not args, 'get_sample_size with arguments') or 'sample_size', 'Z'))
    tr.partial = False

    def off_end(env):
        raise Untranslatable('calculate_likelihood: control falls off the end')

    body = tr.block(fd.body[idx[0] + 1:], {'f': 'R', 'scaled': 'bool'}, off_end, 'R')
    out.append(f'(* from src/biogeme/biogeme.py:{fd.body[idx[0]].lineno} BIOGEME.calculate_likelihood (after the engine call) *)\n'
               'Definition scaled_likelihood (sample_size : Z) (scaled : bool) (f : R) : R :=\n' + body + '.\n')

    # ---- calculate_likelihood_and_derivatives: specialised, fail-closed
    fd = tr.find('BIOGEME.calculate_likelihood_and_derivatives')
    need([a.arg for a in fd.args.args] == ['self', 'x', 'scaled', 'hessian', 'bhhh', 'batch'],
         'calculate_likelihood_and_derivatives: signature changed')
    call = ('self.theC.calculateLikelihoodAndDerivatives(x, self.id_manager.fixed_betas_values, '
            'self.id_manager.free_betas.indices.values(), g, h, bh, hessian, bhhh)')
    idx = [i for i, s in enumerate(fd.body) if isinstance(s, ast.Assign) and U(s.value) == call]
    need(len(idx) == 1 and U(fd.body[idx[0]].targets[0]).strip('()') == 'f, g, h, bh',
         'calculate_likelihood_and_derivatives: (f, g, h, bh) are not the values returned by the engine')
    line = fd.body[idx[0]].lineno
    late = [s for s in _stores(fd, {'f', 'g', 'h', 'bh', 'scaled'}) if s[1] > line]
    need(not late, f'calculate_likelihood_and_derivatives: engine values re-bound after the call: {late}')
    rest = fd.body[idx[0] + 1:]
    need(len(rest) >= 3 and isinstance(rest[-3], ast.If) and U(rest[-3].test) == 'scaled' and not rest[-3].orelse,
         'calculate_likelihood_and_derivatives: `if scaled:` block not found at the end')
    for s in rest[:-3]:
        need(not any(isinstance(x, (ast.Return,)) for x in ast.walk(s)),
             'calculate_likelihood_and_derivatives: early return between the engine call and the scaling')

    def output(stmts, what, divisor):
        need(len(stmts) == 2 and isinstance(stmts[0], ast.Assign) and U(stmts[0].targets[0]) == 'result'
             and isinstance(stmts[0].value, ast.Call) and U(stmts[0].value.func) == 'BiogemeFunctionOutput'
             and not stmts[0].value.args and U(stmts[1]) == 'return BiogemeFunctionOutputSmartOutputProxy(result)',
             f'{what}: result construction changed')
        kw = {k.arg: k.value for k in stmts[0].value.keywords}
        need(list(kw) == ['function', 'gradient', 'hessian', 'bhhh'], f'{what}: fields of the result changed')
        cells = []
        for field, var, vec in (('function', 'f', False), ('gradient', 'g', True), ('hessian', 'h', True), ('bhhh', 'bh', True)):
            v = kw[field]
            if divisor is not None:
                need(isinstance(v, ast.BinOp) and isinstance(v.op, ast.Div) and U(v.right) == divisor,
                     f'{what}: {field} is not divided by {divisor}')
                v = v.left
            need(U(v) == (f'np.asarray({var})' if vec else var), f'{what}: {field} is not the engine value {var}')
            if divisor is None:
                cells.append(var)
            else:
                cells.append(f'vdiv {var} {divisor}' if vec else f'({var} / {divisor})%R')
        return '(' + ', '.join(cells) + ')'

    sb = rest[-3].body
    need(len(sb) == 4 and U(sb[0]) == 'sample_size = float(self.database.get_sample_size())'
         and isinstance(sb[1], ast.If) and U(sb[1].test) == 'sample_size == 0' and not sb[1].orelse
         and len(sb[1].body) == 1 and isinstance(sb[1].body[0], ast.Raise),
         'calculate_likelihood_and_derivatives: sample-size guard changed')
    scaled_cells = output(sb[2:], 'scaled branch', 'sample_size')
    plain_cells = output(rest[-2:], 'unscaled branch', None)
    out.append(f'(* from src/biogeme/biogeme.py:{rest[-3].lineno} BIOGEME.calculate_likelihood_and_derivatives (after the engine call) *)\n'
               'Definition scaled_output (sample_size_Z : Z) (scaled : bool) (f : R) (g h bh : list R)\n'
               '    : option (R * list R * list R * list R) :=\n'
               '  if scaled then\n    let sample_size := IZR sample_size_Z in\n'
               f'    if Reqb sample_size 0%R then None else Some {scaled_cells}\n'
               f'  else Some {plain_cells}.\n')
    return ''.join(out)


FEED = {
    '__init__': ['self.theC.setData(self.database.data)',
                 'self.theC.setExpressions(self.loglikeSignatures, self.number_of_threads)',
                 'self.theC.setExpressions(self.loglikeSignatures, self.number_of_threads, self.weightSignatures)'],
    'simulate': ['self.theC.simulateSeveralFormulas(formulas_signature, beta_values, self.id_manager.fixed_betas_values, '
                 'self.database.data, self.number_of_threads, self.database.get_sample_size())'],
    'estimate': ['self.theC.setData(sample)', 'self.theC.setData(self.database.data)'],
}


def scan_feed():
    """fail-closed scan: how the engine receives data, expressions and thread count"""
    tr = py2v.load('src/biogeme/biogeme.py')
    found = {}
    for fn, calls in FEED.items():
        fd = tr.find('BIOGEME.' + fn)
        have = [U(n) for n in ast.walk(fd) if isinstance(n, ast.Call) and U(n.func).startswith('self.theC.')]
        for c in calls:
            need(c in have, f'BIOGEME.{fn}: engine call `{c[:70]}...` not found')
        found[fn] = have
    # the weight formula reaches the engine iff a weight is given
    init = tr.find('BIOGEME.__init__')
    ifs = [n for n in ast.walk(init) if isinstance(n, ast.If) and U(n.test) == 'self.weight is None']
    need(len(ifs) == 1 and FEED['__init__'][1] in U(ifs[0].body[0]) and any(FEED['__init__'][2].replace(' ', '') in U(s).replace(' ', '').replace('\n', '') for s in ifs[0].orelse),
         'BIOGEME.__init__: the weight signature is not passed exactly when a weight formula exists')
    # after the bootstrap loop the estimation data go back to the engine, in a `finally`
    est = tr.find('BIOGEME.estimate')
    fin = [n for n in ast.walk(est) if isinstance(n, ast.Try) and n.finalbody
           and any('self.theC.setData(sample)' in U(s) for s in n.body)]
    need(len(fin) == 1 and any('self.theC.setData(self.database.data)' in U(s) for s in fin[0].finalbody),
         'BIOGEME.estimate: the estimation data are not given back to the engine after the bootstrap loop')
    # the setter feeds the engine again
    setters = [n for n in ast.walk(tr.tree) if isinstance(n, ast.FunctionDef) and n.name == 'number_of_threads'
               and any(U(d) == 'number_of_threads.setter' for d in n.decorator_list)]
    need(len(setters) == 1 and U(setters[0]).count('self.theC.setExpressions(') == 2,
         'number_of_threads setter: the engine is not fed again with the new thread count')
    return found


def gen_all(ctx):
    ctx.gen('Threads', gen_threads_text())
