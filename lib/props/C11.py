"""C11 -- every named draw type delivers the distribution and structure it advertises.

Tie A (fail-closed, `ast`): native_draws.native_random_number_generators + the helper bodies + the
antithetic parts of draws.get_antithetic / draws.get_normal_wichura_draws -> rocq/Gen/DrawCatalogue.v
(a list of `entry` records), and the branch conditions of get_normal_wichura_draws -> `wichura`.
Tie B: streams halton / mlhs / types(anti, sym, shape) / quantile, implementation vs model.
"""
import ast
import json
import math
from fractions import Fraction as F
from pathlib import Path

from py2v import Untranslatable
from common import REPO, VERIF, coq_string, coq_list, parse_bools, coq_bool

NATIVE = 'src/biogeme/native_draws.py'
DRAWS = 'src/biogeme/draws.py'
CORPUS = VERIF / 'corpus' / 'C11'


# =====================================================================================
# tie A: extraction
# =====================================================================================
def U(node, msg):
    raise Untranslatable(f'C11 extractor: {msg} (line {getattr(node, "lineno", "?")}: '
                         f'{ast.unparse(node)[:120] if node is not None else ""})')


def _functions(tree):
    return {n.name: n for n in tree.body if isinstance(n, ast.FunctionDef)}


def _body(fn):
    """statements of a function without the docstring"""
    b = list(fn.body)
    if b and isinstance(b[0], ast.Expr) and isinstance(b[0].value, ast.Constant) and isinstance(b[0].value.value, str):
        b = b[1:]
    return b


def _defaults(fn):
    a = fn.args
    if a.vararg or a.kwarg or a.kwonlyargs or a.posonlyargs:
        U(fn, 'unexpected signature')
    names = [x.arg for x in a.args]
    d = {}
    for name, dv in zip(names[len(names) - len(a.defaults):], a.defaults):
        if not isinstance(dv, ast.Constant):
            U(fn, f'non-constant default for {name}')
        d[name] = dv.value
    return names, d


def _is_name(n, s):
    return isinstance(n, ast.Name) and n.id == s


def _dotted(n):
    if isinstance(n, ast.Name):
        return n.id
    if isinstance(n, ast.Attribute):
        b = _dotted(n.value)
        return None if b is None else b + '.' + n.attr
    return None


class Extractor:
    """A tiny symbolic interpreter for the helper functions of native_draws.py.  Values:
       ('ss',)              the sample size
       ('count', 'n'|'half') the requested number of draws, or int(number_of_draws / 2)
       ('fun', ref)          a generator function
       ('arr', {...})        an array described by the fields of a catalogue entry"""

    GENS = ('get_uniform', 'get_latin_hypercube_draws', 'get_halton_draws', 'get_normal_wichura_draws',
            'get_antithetic')

    def __init__(self):
        self.nd_src = (REPO / NATIVE).read_text()
        self.dr_src = (REPO / DRAWS).read_text()
        self.nd = ast.parse(self.nd_src)
        self.dr = ast.parse(self.dr_src)
        self.nd_f = _functions(self.nd)
        self.dr_f = _functions(self.dr)
        for g in self.GENS:
            if g not in self.dr_f:
                raise Untranslatable(f'C11 extractor: draws.{g} not found')
        imp = [n for n in self.nd.body if isinstance(n, ast.ImportFrom) and n.module == 'biogeme'
               and any(a.name == 'draws' and a.asname is None for a in n.names)]
        if not imp:
            raise Untranslatable('C11 extractor: `from biogeme import draws` not found in native_draws.py')
        self.sig = {g: _defaults(self.dr_f[g]) for g in self.GENS}
        self._check_signatures()
        self.wich_anti = self._wichura_antithetic()
        self.depth = 0

    # ---- draws.py: facts the table relies on
    def _check_signatures(self):
        exp = {
            'get_uniform': ['sample_size', 'number_of_draws', 'symmetric'],
            'get_latin_hypercube_draws': ['sample_size', 'number_of_draws', 'symmetric', 'uniform_numbers'],
            'get_halton_draws': ['sample_size', 'number_of_draws', 'symmetric', 'base', 'skip', 'shuffled'],
            'get_antithetic': ['uniform_draws', 'sample_size', 'number_of_draws'],
            'get_normal_wichura_draws': ['sample_size', 'number_of_draws', 'uniform_numbers', 'antithetic'],
        }
        for g, names in exp.items():
            if self.sig[g][0] != names:
                raise Untranslatable(f'C11 extractor: signature of draws.{g} changed: {self.sig[g][0]}')

    def _wichura_antithetic(self):
        """get_normal_wichura_draws(antithetic=True): halves number_of_draws before generating and
        returns np.concatenate((draws, MIRROR draws), axis=K).  Returns (mirror, axis)."""
        fn = self.dr_f['get_normal_wichura_draws']
        body = _body(fn)
        halves = False
        concat = None
        for s in body:
            if isinstance(s, ast.If) and _is_name(s.test, 'antithetic') and not s.orelse:
                for t in s.body:
                    if (isinstance(t, ast.Assign) and len(t.targets) == 1 and _is_name(t.targets[0], 'number_of_draws')
                            and self._is_half(t.value, 'number_of_draws')):
                        halves = True
                    if isinstance(t, ast.Assign) and len(t.targets) == 1 and _is_name(t.targets[0], 'draws'):
                        concat = self._concat(t.value, 'draws')
        if not halves or concat is None:
            U(fn, 'antithetic handling of get_normal_wichura_draws not recognised')
        last = body[-1]
        if not (isinstance(last, ast.Return) and _is_name(last.value, 'draws')):
            U(last, 'get_normal_wichura_draws does not end with `return draws`')
        # uniform numbers: generated when not provided
        ok = False
        for s in body:
            if (isinstance(s, ast.If) and isinstance(s.test, ast.Compare) and _is_name(s.test.left, 'uniform_numbers')
                    and len(s.test.ops) == 1 and isinstance(s.test.ops[0], ast.Is)
                    and isinstance(s.test.comparators[0], ast.Constant) and s.test.comparators[0].value is None):
                for t in s.body:
                    if (isinstance(t, ast.Assign) and _is_name(t.targets[0], 'uniform_numbers')
                            and isinstance(t.value, ast.Call) and _dotted(t.value.func) == 'np.random.uniform'):
                        ok = True
        if not ok:
            U(fn, '`if uniform_numbers is None: uniform_numbers = np.random.uniform(...)` not found')
        return concat

    @staticmethod
    def _is_half(e, name):
        """int(<name> / 2) or int(<name> / 2.0)"""
        return (isinstance(e, ast.Call) and _is_name(e.func, 'int') and len(e.args) == 1 and not e.keywords
                and isinstance(e.args[0], ast.BinOp) and isinstance(e.args[0].op, ast.Div)
                and _is_name(e.args[0].left, name)
                and isinstance(e.args[0].right, ast.Constant) and e.args[0].right.value in (2, 2.0)
                and not isinstance(e.args[0].right.value, bool))

    @staticmethod
    def _concat(e, name=None):
        """np.concatenate((X, -X), axis=K) or np.concatenate((X, 1 - X), axis=K) -> (X, mirror, K)"""
        if not (isinstance(e, ast.Call) and _dotted(e.func) == 'np.concatenate' and len(e.args) == 1
                and isinstance(e.args[0], ast.Tuple) and len(e.args[0].elts) == 2
                and len(e.keywords) == 1 and e.keywords[0].arg == 'axis'
                and isinstance(e.keywords[0].value, ast.Constant) and type(e.keywords[0].value.value) is int):
            return None
        a, b = e.args[0].elts
        if not isinstance(a, ast.Name) or (name is not None and a.id != name):
            return None
        if isinstance(b, ast.UnaryOp) and isinstance(b.op, ast.USub) and _is_name(b.operand, a.id):
            m = 'MNeg'
        elif (isinstance(b, ast.BinOp) and isinstance(b.op, ast.Sub) and isinstance(b.left, ast.Constant)
              and b.left.value == 1 and type(b.left.value) in (int, float) and _is_name(b.right, a.id)):
            m = 'MOneMinus'
        else:
            return None
        return (a.id, m, e.keywords[0].value.value)

    # ---- interpreter
    def run_function(self, fn, args, where):
        """Evaluate the body of `fn` (native_draws helper or draws.get_antithetic) on symbolic args."""
        self.depth += 1
        if self.depth > 6:
            U(fn, 'helper nesting too deep')
        names, defaults = _defaults(fn)
        if defaults or len(names) != len(args):
            U(fn, f'cannot call {fn.name} with {len(args)} arguments')
        env = dict(zip(names, args))
        body = _body(fn)
        if not body:
            U(fn, 'empty helper')
        for s in body[:-1]:
            if not (isinstance(s, ast.Assign) and len(s.targets) == 1 and isinstance(s.targets[0], ast.Name)):
                U(s, 'unsupported statement in helper')
            env[s.targets[0].id] = self.eval(s.value, env)
        last = body[-1]
        if not isinstance(last, ast.Return) or last.value is None:
            U(last, 'helper does not end with a return')
        v = self.eval(last.value, env)
        self.depth -= 1
        if v[0] != 'arr':
            U(last, 'helper does not return an array')
        return v

    def eval(self, e, env):
        if isinstance(e, ast.Name):
            if e.id in env:
                return env[e.id]
            if e.id in self.nd_f:
                return ('fun', e.id)
            U(e, f'unknown name {e.id}')
        if isinstance(e, ast.Attribute):
            d = _dotted(e)
            if d and d.startswith('draws.') and d[6:] in self.GENS:
                return ('fun', d)
            U(e, 'unknown attribute')
        if isinstance(e, ast.Constant) and type(e.value) in (bool, int) or (isinstance(e, ast.Constant) and e.value is None):
            return ('const', e.value)
        if isinstance(e, ast.Call):
            for nm, v in env.items():
                if v == ('count', 'n') and self._is_half(e, nm):
                    return ('count', 'half')
            for nm, v in env.items():
                if v[0] == 'count' and self._is_half(e, nm):
                    U(e, 'halving twice')
            c = self._concat(e)
            if c is not None:
                x, mirror, axis = c
                a = env.get(x)
                if not a or a[0] != 'arr' or a[1]['antithetic']:
                    U(e, 'concatenate of something that is not a plain generated array')
                r = dict(a[1])
                r.update(antithetic=True, mirror=mirror, axis=axis)
                return ('arr', r)
            f = self.eval(e.func, env)
            if f[0] != 'fun':
                U(e, 'call of a non-function')
            args = [self.eval(a, env) for a in e.args]
            kw = {}
            for k in e.keywords:
                if k.arg is None:
                    U(e, '**kwargs')
                kw[k.arg] = self.eval(k.value, env)
            return self.call(f[1], args, kw, e)
        U(e, 'unsupported expression')

    def call(self, ref, args, kw, node):
        if not ref.startswith('draws.'):
            if kw:
                U(node, 'keyword call of a local helper')
            return self.run_function(self.nd_f[ref], args, node)
        g = ref[6:]
        names, defaults = self.sig[g]
        if g == 'get_antithetic':
            if kw:
                U(node, 'keyword call of get_antithetic')
            return self.run_function(self.dr_f[g], args, node)
        # bind arguments
        b = {}
        if len(args) > len(names):
            U(node, 'too many arguments')
        for nm, v in zip(names, args):
            b[nm] = v
        for k, v in kw.items():
            if k not in names or k in b:
                U(node, f'bad keyword {k}')
            b[k] = v
        for nm in names:
            if nm not in b:
                if nm not in defaults:
                    U(node, f'missing argument {nm}')
                b[nm] = ('const', defaults[nm])
        if b['sample_size'] != ('ss',) or b['number_of_draws'][0] != 'count':
            U(node, 'sample_size / number_of_draws not passed through')
        cols = b['number_of_draws'][1]

        def const(nm, typ):
            v = b[nm]
            if v[0] != 'const' or type(v[1]) is not typ:
                U(node, f'argument {nm} is not a {typ.__name__} constant')
            return v[1]

        base = dict(family=None, base=0, skip=0, symmetric=False, shuffled=False, normal=False,
                    antithetic=False, mirror='MNone', axis=0, half=(cols == 'half'))
        if g == 'get_uniform':
            base.update(family='FUniform', symmetric=const('symmetric', bool))
        elif g == 'get_latin_hypercube_draws':
            if b['uniform_numbers'] != ('const', None):
                U(node, 'uniform_numbers passed to get_latin_hypercube_draws')
            base.update(family='FMLHS', symmetric=const('symmetric', bool))
        elif g == 'get_halton_draws':
            base.update(family='FHalton', symmetric=const('symmetric', bool), base=const('base', int),
                        skip=const('skip', int), shuffled=const('shuffled', bool))
        elif g == 'get_normal_wichura_draws':
            anti = const('antithetic', bool)
            un = b['uniform_numbers']
            if cols != 'n':
                U(node, 'get_normal_wichura_draws called with a halved number of draws')
            if un == ('const', None):
                base.update(family='FUniform', half=anti)
            elif un[0] == 'arr':
                u = un[1]
                if u['normal'] or u['antithetic']:
                    U(node, 'uniform_numbers= is not a plain uniform stage')
                base.update(family=u['family'], base=u['base'], skip=u['skip'], symmetric=u['symmetric'],
                            shuffled=u['shuffled'], half=u['half'])
            else:
                U(node, 'uniform_numbers= not understood')
            base.update(normal=True)
            if anti:
                _, mirror, axis = self.wich_anti
                base.update(antithetic=True, mirror=mirror, axis=axis)
        return ('arr', base)

    # ---- the table
    def catalogue(self):
        table = None
        for n in self.nd.body:
            if (isinstance(n, ast.Assign) and len(n.targets) == 1
                    and _is_name(n.targets[0], 'native_random_number_generators')):
                if table is not None:
                    U(n, 'native_random_number_generators assigned twice')
                table = n.value
            elif isinstance(n, (ast.AugAssign, ast.AnnAssign)) and 'native_random_number_generators' in ast.unparse(n):
                U(n, 'native_random_number_generators modified')
            elif isinstance(n, ast.Expr) and 'native_random_number_generators' in ast.unparse(n):
                U(n, 'native_random_number_generators modified')
        if not isinstance(table, ast.Dict):
            raise Untranslatable('C11 extractor: native_random_number_generators is not a dict display')
        out = []
        for k, v in zip(table.keys, table.values):
            if not (isinstance(k, ast.Constant) and isinstance(k.value, str)):
                U(k, 'non-literal key')
            if not (isinstance(v, ast.Call) and _is_name(v.func, 'RandomNumberGeneratorTuple') and not v.args
                    and sorted(x.arg for x in v.keywords) == ['description', 'generator']):
                U(v, 'entry is not RandomNumberGeneratorTuple(generator=, description=)')
            kws = {x.arg: x.value for x in v.keywords}
            d = kws['description']
            if not (isinstance(d, ast.Constant) and isinstance(d.value, str)):
                U(d, 'non-literal description')
            self.depth = 0
            f = self.eval(kws['generator'], {})
            if f[0] != 'fun':
                U(v, 'generator is not a function reference')
            if f[1].startswith('draws.'):
                arr = self.call(f[1], [('ss',), ('count', 'n')], {}, v)
            else:
                arr = self.run_function(self.nd_f[f[1]], [('ss',), ('count', 'n')], v)
            rec = dict(arr[1])
            rec.update(key=k.value, descr=d.value, helper=f[1])
            out.append(rec)
        return out

    # ---- Wichura: constants and branch conditions
    def wichura(self):
        fn = self.dr_f['get_normal_wichura_draws']
        consts = {}
        stm = {}
        neg = []
        for s in _body(fn):
            if isinstance(s, ast.Assign) and len(s.targets) == 1:
                t = s.targets[0]
                if isinstance(t, ast.Name):
                    if isinstance(s.value, ast.Constant) and type(s.value.value) is float:
                        if t.id in consts:
                            U(s, f'constant {t.id} assigned twice')
                        consts[t.id] = s.value.value
                    elif t.id in ('q', 'cond1', 'cond2', 'cond2a', 'cond2b', 'cond2c', 'cond2d', 'cond2d_a', 'cond2d_b'):
                        if t.id in stm:
                            U(s, f'{t.id} assigned twice')
                        stm[t.id] = s.value
                elif (isinstance(t, ast.Subscript) and isinstance(t.value, ast.Name) and isinstance(t.slice, ast.Name)):
                    key = (t.value.id, t.slice.id)
                    if key[0] == 'r':
                        if key in stm:
                            U(s, f'r[{key[1]}] assigned twice')
                        stm[key] = s.value
                    if key[0] == 'draws' and isinstance(s.value, ast.UnaryOp) and isinstance(s.value.op, ast.USub):
                        o = s.value.operand
                        if not (isinstance(o, ast.Subscript) and _is_name(o.value, 'draws') and _is_name(o.slice, key[1])):
                            U(s, 'unexpected negation')
                        neg.append(key[1])
        need = ['split2', 'const1', 'const2'] + [f'{c}{i}' for c in 'abcdef' for i in range(8) if not (c in 'bdf' and i == 0)]
        for nm in need:
            if nm not in consts:
                raise Untranslatable(f'C11 extractor: constant {nm} not found in get_normal_wichura_draws')

        def cmp_abs(e, what):
            # np.abs(X) OP const
            if not (isinstance(e, ast.Compare) and len(e.ops) == 1 and isinstance(e.left, ast.Call)
                    and _dotted(e.left.func) == 'np.abs' and len(e.left.args) == 1 and not e.left.keywords
                    and isinstance(e.left.args[0], ast.Name) and e.left.args[0].id in ('uniform_numbers', 'q')):
                U(e, f'{what}: expected np.abs(uniform_numbers|q) <op> constant')
            return ('ArgU' if e.left.args[0].id == 'uniform_numbers' else 'ArgQ', self._op(e.ops[0], e),
                    self._num(e.comparators[0], consts))

        def and_cmp(e, first, var, what):
            # np.logical_and(first, var OP const)
            if not (isinstance(e, ast.Call) and _dotted(e.func) == 'np.logical_and' and len(e.args) == 2
                    and _is_name(e.args[0], first) and isinstance(e.args[1], ast.Compare)
                    and len(e.args[1].ops) == 1 and _is_name(e.args[1].left, var)):
                U(e, f'{what}: expected np.logical_and({first}, {var} <op> constant)')
            return (self._op(e.args[1].ops[0], e), self._num(e.args[1].comparators[0], consts))

        for nm in ('q', 'cond1', 'cond2', 'cond2a', 'cond2b', 'cond2c', 'cond2d', 'cond2d_a', 'cond2d_b',
                   ('r', 'cond1'), ('r', 'cond2a'), ('r', 'cond2b'), ('r', 'cond2d'), ('r', 'cond2d_a'), ('r', 'cond2d_b')):
            if nm not in stm:
                raise Untranslatable(f'C11 extractor: statement defining {nm} not found in get_normal_wichura_draws')
        q = stm['q']
        if not (isinstance(q, ast.BinOp) and isinstance(q.op, ast.Sub) and _is_name(q.left, 'uniform_numbers')):
            U(q, 'q = uniform_numbers - constant expected')
        w = {'shift': self._num(q.right, consts)}
        w['arg1'], w['op1'], w['c1'] = cmp_abs(stm['cond1'], 'cond1')
        w['arg2'], w['op2'], w['c2'] = cmp_abs(stm['cond2'], 'cond2')
        w['opa'], w['ca'] = and_cmp(stm['cond2a'], 'cond2', 'q', 'cond2a')
        w['opb'], w['cb'] = and_cmp(stm['cond2b'], 'cond2', 'q', 'cond2b')

        def src(e, c):
            if (isinstance(e, ast.Subscript) and _is_name(e.value, 'uniform_numbers') and _is_name(e.slice, c)):
                return 'SrcU'
            if (isinstance(e, ast.BinOp) and isinstance(e.op, ast.Sub) and isinstance(e.left, ast.Constant)
                    and e.left.value == 1 and type(e.left.value) in (int, float)
                    and isinstance(e.right, ast.Subscript) and _is_name(e.right.value, 'uniform_numbers')
                    and _is_name(e.right.slice, c)):
                return 'SrcOneMinusU'
            U(e, f'r[{c}] = uniform_numbers[{c}] or 1 - uniform_numbers[{c}] expected')

        w['srca'] = src(stm[('r', 'cond2a')], 'cond2a')
        w['srcb'] = src(stm[('r', 'cond2b')], 'cond2b')
        for c in neg:
            if c not in ('cond2a', 'cond2b'):
                raise Untranslatable(f'C11 extractor: unexpected negation of draws[{c}]')
        w['nega'] = neg.count('cond2a') % 2 == 1
        w['negb'] = neg.count('cond2b') % 2 == 1
        # the remaining structure (checked for shape, used by the harness' reference only)
        opc, cc = and_cmp(stm['cond2c'], 'cond2', 'r', 'cond2c')
        opd, cd = and_cmp(stm['cond2d'], 'cond2', 'r', 'cond2d')
        opda, cda = and_cmp(stm['cond2d_a'], 'cond2d', 'r', 'cond2d_a')
        opdb, cdb = and_cmp(stm['cond2d_b'], 'cond2d', 'r', 'cond2d_b')
        w['tail'] = dict(opc=opc, cc=cc, opd=opd, cd=cd, opda=opda, cda=cda, opdb=opdb, cdb=cdb)
        for nm in ('const1', 'split2', 'const2'):
            w[nm] = consts[nm]
        return w, consts

    @staticmethod
    def _op(o, node):
        for cls, nm in ((ast.LtE, 'CLe'), (ast.Lt, 'CLt'), (ast.GtE, 'CGe'), (ast.Gt, 'CGt')):
            if isinstance(o, cls):
                return nm
        U(node, 'unsupported comparison operator')

    @staticmethod
    def _num(e, consts):
        if isinstance(e, ast.Constant) and type(e.value) in (int, float):
            return float(e.value)
        if isinstance(e, ast.Name) and e.id in consts:
            return consts[e.id]
        U(e, 'numeric constant expected')


def coq_dy(x: float) -> str:
    """exact binary64 value as a Gallina Q term"""
    n, d = float(x).as_integer_ratio()
    k = d.bit_length() - 1
    assert d == 1 << k
    return f'(dy ({n})%Z {k}%N)'


def coq_entry(r):
    return ('mkEntry ' + ' '.join([
        coq_string(r['key']), coq_string(r['descr']), coq_string(r['helper']), r['family'],
        f"({r['base']})%Z", f"({r['skip']})%Z", coq_bool(r['symmetric']), coq_bool(r['shuffled']),
        coq_bool(r['normal']), coq_bool(r['antithetic']), r['mirror'], f"({r['axis']})%Z", coq_bool(r['half'])]))


def extract(ctx=None):
    ex = Extractor()
    cat = ex.catalogue()
    w, consts = ex.wichura()
    return cat, w, consts


def gen_text(cat, w):
    t = ('From Coq Require Import ZArith QArith List String.\nFrom BV Require Import Model.DrawsGen.\n'
         'Import ListNotations.\nLocal Open Scope string_scope.\n'
         f'(* from {NATIVE}: native_random_number_generators and the helpers it points to *)\n'
         'Definition catalogue : list entry :=\n  [ ' + ';\n    '.join(coq_entry(r) for r in cat) + ' ].\n\n'
         f'(* from {DRAWS}: get_normal_wichura_draws, the conditions selecting the formula *)\n'
         'Definition wichura : wbranches :=\n  mkW ' + ' '.join([
             coq_dy(w['shift']), w['arg1'], w['op1'], coq_dy(w['c1']), w['arg2'], w['op2'], coq_dy(w['c2']),
             w['opa'], coq_dy(w['ca']), w['srca'], coq_bool(w['nega']),
             w['opb'], coq_dy(w['cb']), w['srcb'], coq_bool(w['negb']),
             coq_dy(w['const1']), coq_dy(w['split2']), coq_dy(w['const2'])]) + '.\n')
    return t


def gen_all(ctx):
    cat, w, consts = extract()
    ctx.gen('DrawCatalogue', gen_text(cat, w))
    return cat, w, consts


# =====================================================================================
# numbers
# =====================================================================================
U53 = F(1, 2 ** 53)


def coq_q(x: float) -> str:
    """a finite binary64 value for the case files: P m k = m / 2^k, M m k = -m / 2^k, PB / MB m k = +-m * 2^k
    (primitive integer literals; m < 2^53).  Callers never pass nan / inf (see all_finite)."""
    x = float(x)
    if x == 0.0:
        return '(P 0 0)'
    m, e = math.frexp(abs(x))            # abs(x) = m * 2^e, 0.5 <= m < 1
    n = int(m * 2 ** 53)                 # exact: m has 53 significant bits
    e -= 53
    while n % 2 == 0:
        n //= 2
        e += 1
    assert F(n) * F(2) ** e == F(abs(x))
    neg = x < 0
    if e <= 0:
        return f'({"M" if neg else "P"} {n} {-e})'
    return f'({"MB" if neg else "PB"} {n} {e})'


def all_finite(xs):
    return all(finite(float(x)) if isinstance(x, (int, float)) else False for x in xs)


def coq_frac(f: F) -> str:
    """a tolerance k * 2^-53 (k small)"""
    k = f / U53
    assert k.denominator == 1 and 0 <= k < 2 ** 60
    return f'(P {k.numerator} 53)'


def coq_qlist(xs):
    return '[' + '; '.join(coq_q(x) for x in xs) + ']'


def coq_qrows(rows):
    return '[' + ';\n '.join(coq_qlist(r) for r in rows) + ']'


def chunks(xs, k=200):
    return [xs[i:i + k] for i in range(0, len(xs), k)] or [[]]


def coq_nlist(xs):
    return '[' + '; '.join(str(int(i)) for i in xs) + ']'


def finite(x):
    return isinstance(x, float) and not (math.isnan(x) or math.isinf(x))


def radical_inverse(b: int, n: int) -> F:
    """independent oracle: digit reversal in exact rationals"""
    r, f = F(0), F(1, b)
    while n > 0:
        n, d = divmod(n, b)
        r += d * f
        f /= b
    return r


def ndigits(b, n):
    k = 0
    while n > 0:
        n //= b
        k += 1
    return max(k, 1)


def halton_tol(base, maxindex):
    """get_halton_draws computes element k as (((0 + fl(d1*i1)) + fl(d2*i2)) + ...) with d_t = fl(1/base**t),
    one term per base-`base` digit of k.  If base is a power of two every d_t, product and partial sum is a dyadic
    number with few bits: exact.  Otherwise: each product carries a relative error <= 2*2^-53 (rounded d_t, rounded
    product; the products sum to < 1, so <= 2*2^-53 in total) and each of the T-1 rounded additions of numbers < 1
    adds <= 2^-54: total < (2 + T/2) * 2^-53.  We allow (T + 3) * 2^-53 -- two orders of magnitude below the spacing
    base^-T >= 1/(base * maxindex) of neighbouring radical inverses."""
    if base & (base - 1) == 0:
        return F(0)
    return (ndigits(base, maxindex) + 3) * U53


MLHS_TOL = 3 * U53      # fl(fl(i + u) / N): two roundings, value <= 1
SYM_EXTRA = U53         # fl(2x - 1): 2x exact, one rounding of a number of magnitude <= 1
ANTI_EXTRA = U53        # fl(1 - x): one rounding, magnitude <= 1


def sym_tol(t):
    return 2 * t + SYM_EXTRA


# =====================================================================================
# AS241 / PPND16 reference (Python floats, operation order of the published routine)
# =====================================================================================
class AS241:
    def __init__(self):
        K = json.loads((CORPUS / 'as241_ppnd16.json').read_text())
        self.K = K
        for c in 'abcdef':
            setattr(self, c, [float(x) for x in K[c]])
        self.split1, self.split2 = float(K['split1']), float(K['split2'])
        self.const1, self.const2 = float(K['const1']), float(K['const2'])

    @staticmethod
    def _horner(co, r):
        v = co[7]
        for k in (6, 5, 4, 3, 2, 1, 0):
            v = v * r + co[k]
        return v

    def central(self, p):
        q = p - 0.5
        r = self.const1 - q * q
        return q * self._horner(self.a, r) / self._horner(self.b, r)

    def tail_r(self, r):
        if r <= self.split2:
            r = r - self.const2
            return self._horner(self.c, r) / self._horner(self.d, r)
        r = r - self.split2
        return self._horner(self.e, r) / self._horner(self.f, r)

    def tail(self, area):
        """the positive tail value for a tail area in (0, 1)"""
        return self.tail_r(math.sqrt(-math.log(area)))

    def tail_close(self, z, area):
        """is z the tail formula evaluated at r = sqrt(-log(area)), when log/sqrt are only trusted to a few ulps?
        The implementation uses numpy's vectorised log (documented <= 4 ulp, and not the same for every array length),
        the reference libm's.  Where the code applies the tail formula far outside its domain (known defect) the
        numerator polynomial nearly cancels (0.004 from terms of size 1), so a fixed ulp count on z is meaningless.
        Tolerance = running error bound of the two Horner evaluations, 16 * 2^-53 * (S_num + |z| S_den) / |den| with
        S = sum |c_k| |x|^k, plus the effect of 8 ulps on r (slope by a central difference), plus 8 ulps of z."""
        if not (0.0 < area < 1.0) or not finite(z):
            return False
        try:
            r = math.sqrt(-math.log(area))
            v = self.tail_r(r)
            if r <= self.split2:
                x, num, den = r - self.const2, self.c, self.d
            else:
                x, num, den = r - self.split2, self.e, self.f
            s_num = sum(abs(ck) * abs(x) ** k for k, ck in enumerate(num))
            s_den = sum(abs(ck) * abs(x) ** k for k, ck in enumerate(den))
            dv = abs(self._horner(den, x))
            h = 1e-7 * r
            slope = abs(self.tail_r(r + h) - self.tail_r(r - h)) / (2 * h)
        except (ValueError, ZeroDivisionError, OverflowError):
            return False
        if not all(finite(t) for t in (v, s_num, s_den, dv, slope)) or dv == 0.0:
            return False
        tol = 16 * 2.0 ** -53 * (s_num + abs(v) * s_den) / dv + slope * r * 8 * 2.0 ** -52 + ZTOL_ULPS * 2.0 ** -53 * abs(v)
        return abs(F(z) - F(v)) <= F(tol)

    def matches(self, reg, p, z):
        """is z the value of formula `reg` (C central, L lower tail, H upper tail) at p?"""
        try:
            if reg == 'C':
                return zclose(z, self.central(p))
            if reg == 'L':
                return self.tail_close(-z, p)
            return self.tail_close(z, 1 - p)
        except (ValueError, ZeroDivisionError, OverflowError):
            return False

    def region(self, p):
        q = p - 0.5
        if abs(q) <= self.split1:
            return 'C'
        return 'L' if q < 0 else 'H'

    def ppnd16(self, p):
        reg = self.region(p)
        if reg == 'C':
            return self.central(p)
        r = p if reg == 'L' else 1 - p
        if r <= 0:
            return 0.0          # IFAULT = 1 in the published routine
        v = self.tail(r)
        return -v if reg == 'L' else v

    def value(self, reg, p):
        if reg == 'C':
            return self.central(p)
        return -self.tail(p) if reg == 'L' else self.tail(1 - p)

    def matches_near(self, reg, lo, hi, z):
        """is z the value of formula `reg` at SOME p of [lo, hi]?  (each formula is monotone in p; used when the uniform
        number is only known up to the rounding of the Halton construction)"""
        if self.matches(reg, lo, z) or self.matches(reg, hi, z) or self.matches(reg, (lo + hi) / 2, z):
            return True
        try:
            a, b = self.value(reg, lo), self.value(reg, hi)
        except (ValueError, ZeroDivisionError, OverflowError):
            return False
        if not (finite(a) and finite(b) and finite(z)):
            return False
        # where the code applies a formula outside its domain (known defect) the computed function is noisy at the
        # 10-ulp level and not monotone at that scale: 64 ulps of slack (a wrong base or skip moves z by > 1e-6)
        slack = 64 * U53 * max(abs(F(a)), abs(F(b)))
        return min(F(a), F(b)) - slack <= F(z) <= max(F(a), F(b)) + slack

    def candidates(self, p):
        """value of each of the three formulas at p (None where not computable)"""
        out = {}
        try:
            out['C'] = self.central(p)
        except (ValueError, ZeroDivisionError, OverflowError):
            out['C'] = None
        for reg, area, sgn in (('L', p, -1.0), ('H', 1 - p, 1.0)):
            try:
                out[reg] = sgn * self.tail(area) if 0 < area < 1 else None
            except (ValueError, ZeroDivisionError, OverflowError):
                out[reg] = None
        return out


# |z_impl - z_ref| <= ZTOL_ULPS * 2^-53 * |z_ref|: the implementation evaluates the same formulas in the same order
# with numpy's vectorised log/sqrt (documented <= 4 ulp for the SIMD log) instead of libm's; the error of log enters
# r = sqrt(-log p) halved, and r - 1.6 / r - 5 are then evaluated by a smooth rational function of slope ~ 1.5:
# a handful of ulps of z.  Measured on this machine: bit-for-bit equal wherever the code selects AS241's formula.
ZTOL_ULPS = 8


def zclose(z, ref):
    if ref is None or not finite(z) or not finite(ref):
        return False
    return abs(F(z) - F(ref)) <= ZTOL_ULPS * U53 * abs(F(ref))


def phi_error(u, z):
    """|Phi(z) - u| relative to the tail area min(u, 1-u), with math.erfc; and the tolerance.
    AS241 promises z to about 1 part in 10^16; a relative error eps of z moves the tail area by about (1 + z^2) eps
    (Mills ratio), and erfc(z / sqrt 2) itself has the same conditioning.  Measured maximum of
    err / ((1 + z^2) 2^-53) on the region where the code is right: 6.2; we allow 32."""
    if u <= 0.5:
        area, got = u, 0.5 * math.erfc(-z / math.sqrt(2.0))
    else:
        area, got = 1.0 - u, 0.5 * math.erfc(z / math.sqrt(2.0))
    if area <= 0:
        return 0.0, 1.0
    err = abs(got - area) / area
    tol = 32 * (1.0 + z * z) * 2.0 ** -53
    return err, tol


def classify_quantile(ref: AS241, u, z):
    """None if z is the normal quantile of u (AS241 value and Phi(z) = u); otherwise the witness-class key."""
    if not (0.0 < u < 1.0):
        return None
    reg = ref.region(u)
    ok_ref = ref.matches(reg, u, z)
    ok_phi = False
    if finite(z):
        e, t = phi_error(u, z)
        ok_phi = e <= t
    if ok_ref and ok_phi:
        return None
    # the known defect: the code tests |u| <= 0.45 instead of |u - 1/2| <= 0.425, so
    #   u in (0, 0.075)      gets the central formula (AS241: lower tail)
    #   u in (0.45, 0.925]   gets a tail formula      (AS241: central)
    if reg == 'L' and u < 0.5 - ref.split1 and ref.matches('C', u, z):
        return 'C11/quantile/central-formula-below-0.075'
    if reg == 'C' and 0.45 < u <= 0.5 + ref.split1 and ref.matches('L' if u < 0.5 else 'H', u, z):
        return 'C11/quantile/tail-formula-on-0.45-0.925'
    if not ok_ref:
        for r2 in 'CLH':
            if r2 != reg and ref.matches(r2, u, z):
                return f'C11/quantile/formula-{r2}-where-AS241-has-{reg}'
        return f'C11/quantile/value-region-{reg}'
    return f'C11/quantile/phi-region-{reg}'


# =====================================================================================
# what an entry advertises (parsed from description and key, in Python, for the oracles)
# =====================================================================================
import re


def advertised(key, descr):
    m = re.search(r'base (\d+)', descr)
    k = re.search(r'skipping the first (\d+)', descr)
    return dict(
        halton='Halton' in descr, mlhs='Latin Hypercube' in descr,
        base=int(m.group(1)) if m else None, skip=int(k.group(1)) if k else None,
        symmetric='[-1, 1]' in descr, antithetic='ntithetic' in descr, normal='ormal' in descr)


def strata_ok(xs, N, symmetric):
    """exactly one point in each of the N equal strata.  Fast path: exact integer floor(N * x) of every double, each
    stratum hit once.  If that fails (or a point sits within 4 ulps of a stratum end, the points being rounded):
    sorted point j must lie in stratum j, with 4 ulps of slack at the ends."""
    if len(xs) != N:
        return False, f'{len(xs)} points for {N} strata'
    if not all_finite(xs):
        return False, 'non-finite point'
    seen = bytearray(N)
    fast = True
    for x in xs:
        num, den = float(x).as_integer_ratio()
        if symmetric:                   # (x + 1) / 2
            num, den = num + den, 2 * den
        k = (num * N) // den
        if not (0 <= k < N) or seen[k]:
            fast = False
            break
        seen[k] = 1
    if fast:
        return True, ''
    ys = sorted(((F(x) + 1) / 2 if symmetric else F(x)) for x in xs)
    d = 4 * U53
    empty = None
    for j, y in enumerate(ys):
        if not (F(j, N) - d <= y < F(j + 1, N) + d):
            occupied = len({int(v * N) for v in ys if 0 <= v < 1})
            return False, (f'sorted point {j} = {float(y)!r} is not in [{j}/{N}, {j + 1}/{N}); '
                           f'{occupied} of {N} strata are occupied')
    return True, ''


def boundary_sizes(rng, base, skip, count, nmax=4000):
    """(sample_size, number_of_draws) such that the number of Halton numbers the code must build,
    sample_size * number_of_draws + skip + 1, sits on or next to a boundary of its doubling construction:
    i * base^t + delta, delta in -1..2 (i = 1: a whole round; i > 1: a copy inside a round).  delta = 1 is the case
    'size + skip is an exact power of the base': the last number is the first of a new round."""
    out = []
    tries = 0
    while len(out) < count and tries < 400:
        tries += 1
        t = rng.randint(1, 12)
        i = 1 if rng.random() < 0.6 else rng.randint(1, max(1, base - 1))
        delta = [1, 1, 0, 2, -1][len(out) % 5] if tries <= count * 3 else rng.choice([-1, 0, 1, 2])
        N = i * base ** t + delta - skip - 1
        if not (1 <= N <= nmax):
            continue
        divs = [d for d in range(1, min(N, 400) + 1) if N % d == 0]
        ss = rng.choice(divs)
        if (ss, N // ss) not in out:
            out.append((ss, N // ss))
    return out


SIZES = [(1, 2), (3, 10), (7, 64), (50, 200)]

# Numbers travel as primitive 63-bit integer literals (mantissa, binary exponent): Coq builds ordinary Z / positive
# literals by reduction, at ~0.1 ms per digit, primitive integers are read natively (50x faster).  Uint63.to_Z turns
# them into Z inside vm_compute.
COQ_HEAD = ('From Coq Require Import ZArith QArith List String Uint63.\n'
            'From BV Require Import Model.DrawsGen Gen.DrawCatalogue.\nImport ListNotations.\n'
            'Local Open Scope Q_scope.\nLocal Open Scope uint63_scope.\n'
            'Definition P (m k : int) : Q := Qmake (Uint63.to_Z m) (Z.to_pos (2 ^ Uint63.to_Z k)).\n'
            'Definition M (m k : int) : Q := Qmake (- Uint63.to_Z m) (Z.to_pos (2 ^ Uint63.to_Z k)).\n'
            'Definition PB (m k : int) : Q := inject_Z (Uint63.to_Z m * 2 ^ Uint63.to_Z k).\n'
            'Definition MB (m k : int) : Q := inject_Z (- (Uint63.to_Z m * 2 ^ Uint63.to_Z k)).\n'
            'Definition NL (l : list int) : list N := map (fun i => Z.to_N (Uint63.to_Z i)) l.\n'
            'Definition nat_of (i : int) : nat := Z.to_nat (Uint63.to_Z i).\n'
            'Definition dflt := mkEntry "" "" "" FUniform 0%Z 0%Z false false false false MNone 0%Z false.\n'
            'Definition E (k : int) := nth (nat_of k) catalogue dflt.\nDefinition idq (x : Q) := x.\n'
            'Definition chk_out (k ss n : int) tol us perm out :=\n'
            '  close_rows tol (gen_output idq (E k) (nat_of ss) (nat_of n) (List.concat us) (NL perm)) out.\n'
            'Definition chk_uin (k ss n : int) tol us perm uin :=\n'
            '  close_list tol (List.concat (gen_rows (E k) (nat_of ss) (nat_of n) (List.concat us) (NL perm))) (List.concat uin).\n'
            'Definition chk_halton (b len skip : int) (s sh : bool) perm tol (ss n : int) out :=\n'
            '  let h := halton_py (Uint63.to_Z b) (nat_of len) (nat_of skip) in\n'
            '  close_rows tol (reshape (nat_of ss) (nat_of n) (map (symopt s) (if sh then permute (NL perm) h else h))) out.\n'
            'Definition chk_mlhs us perm (s : bool) tol (ss n : int) out :=\n'
            '  close_rows tol (reshape (nat_of ss) (nat_of n) (mlhs (List.concat us) (NL perm) s)) out.\n'
            'Definition region_code (r : wregion) : int :=\n'
            '  match r with WCentral => 0 | WTailLow => 1 | WTailHigh => 2 | WUnassigned => 3 end.\n'
            'Definition chk_region (u : Q) (code : int) := (region_code (impl_region wichura u) =? code).\n')


class Batch:
    """Coq evaluation of boolean checks, packed into files by size."""

    def __init__(self, ctx, prefix, budget=12000):
        self.ctx, self.prefix, self.budget = ctx, prefix, budget
        self.files, self.cur, self.cur_size, self.owners = {}, [], 0, {}

    def add(self, owner, term, size):
        if self.cur and self.cur_size + size > self.budget:
            self.flush()
        self.cur.append((owner, term))
        self.cur_size += size

    def flush(self):
        if not self.cur:
            return
        name = f'{self.prefix}_{len(self.files)}'
        self.files[name] = COQ_HEAD + 'Eval vm_compute in [' + ';\n'.join(t for _, t in self.cur) + '].\n'
        self.owners[name] = [o for o, _ in self.cur]
        self.cur, self.cur_size = [], 0

    def run(self):
        """-> {owner: True/False/None (None = evaluation failed)}, list of failure texts"""
        self.flush()
        import time
        t0 = time.time()
        outs = self.ctx.coq_eval_many(self.files, timeout=1200)
        self.ctx.notes.setdefault('timing', {})[f'coq:{self.prefix}'] = [len(self.files), round(time.time() - t0, 1)]
        res, errs = {}, []
        for name, owners in self.owners.items():
            ok, out = outs[name]
            bs = parse_bools(out) if ok else []
            if not ok or len(bs) != len(owners):
                errs.append(f'{name}: ' + out[-500:])
                for o in owners:
                    res[o] = None
                continue
            for o, b in zip(owners, bs):
                res[o] = b
        return res, errs


class Reporter:
    """de-duplicates violations per key (ctx.violation keeps the first 5 anyway)"""

    def __init__(self, ctx):
        self.ctx, self.seen = ctx, {}

    def __call__(self, key, what, witness, expected=None, observed=None, how=None):
        self.seen[key] = self.seen.get(key, 0) + 1
        if self.seen[key] <= 2:
            self.ctx.violation(key, what, witness, expected, observed, how)


# =====================================================================================
# stream: the 21 catalogued types
# =====================================================================================
def type_cases(ctx, cat, sizes, tag='types', boundary=0, large=()):
    """sizes: run for every entry.  boundary: that many extra sizes per Halton entry on the boundaries of the doubling
    construction (incl. size + skip = exact power of the base).  large: keys run once with more than 100000
    generated points (size thresholds inside the generators)."""
    rng = ctx.sub_rng(tag)
    cases = []
    for (ss, n) in sizes:
        for k, r in enumerate(cat):
            cases.append({'key': r['key'], 'k': k, 'ss': ss, 'n': n, 'seed': rng.randrange(1, 2 ** 31)})
    for k, r in enumerate(cat):
        if boundary and r['family'] == 'FHalton' and r['base'] >= 2:
            for (ss, n) in boundary_sizes(rng, r['base'], r['skip'], boundary):
                cases.append({'key': r['key'], 'k': k, 'ss': ss, 'n': n, 'seed': rng.randrange(1, 2 ** 31), 'boundary': True})
        if r['key'] in large:
            ss = rng.choice([250, 400, 500, 1000])
            per_row = 100000 // ss + rng.randint(1, 40)              # generated points per row: ss * per_row > 100000
            n = 2 * per_row if r['half'] else per_row
            cases.append({'key': r['key'], 'k': k, 'ss': ss, 'n': n, 'seed': rng.randrange(1, 2 ** 31), 'large': True})
    return cases


def run_impl(ctx, mode, cases, per=None):
    """split the cases over subprocesses; returns one result per case (harness failures -> exception)"""
    if not cases:
        return []
    per = per or max(1, (len(cases) + 15) // 16)
    parts = [cases[i:i + per] for i in range(0, len(cases), per)]
    import time
    t0 = time.time()
    outs = ctx.impl_parallel('c11_draws.py', [{'mode': mode, 'cases': p} for p in parts], timeout=1500)
    ctx.notes.setdefault('timing', {})[f'impl:{mode}:{len(cases)}'] = round(time.time() - t0, 1)
    res = []
    for p, o in zip(parts, outs):
        if not o.get('ok'):
            res += [{'ok': False, 'exc': 'runner:' + str(o.get('exc')), 'msg': str(o.get('msg'))[-400:]}] * len(p)
        else:
            res += o['results']
    return res


def oracle_type_case(ctx, rep, ref, rec, c, r, peers, extra=None, how_prefix=''):
    """Direct statements of the property on the implementation's output for one catalogued type.
    rec: extracted catalogue record; c: case; r: implementation result; peers: {key: result} same size & run."""
    key, ss, n = c['key'], c['ss'], c['n']
    how = how_prefix + f"np.random.seed({c['seed']}); native_random_number_generators['{key}'].generator({ss}, {n})"
    wit = {'key': key, 'sample_size': ss, 'number_of_draws': n, 'seed': c['seed']}
    if extra:
        wit.update(extra)
    if not r.get('ok'):
        rep(f'C11/shape/{key}-exception', f'{key}: generator raised {r.get("exc")}', wit, 'an array', r, how)
        return
    adv = advertised(key, r.get('descr', rec['descr']))
    # shape
    if r['shape'] != [ss, n] or r['rows'] is None:
        rep(f'C11/shape/{key}', f'{key}: shape {r["shape"]} instead of ({ss}, {n})', wit, [ss, n], r['shape'], how)
        return
    rows = r['rows']
    flat = [x for row in rows for x in row]
    # support
    if not all(finite(x) for x in flat):
        rep(f'C11/support/{key}-nonfinite', f'{key}: non-finite draw', wit, 'finite numbers',
            [x for x in flat if not finite(x)][:3], how)
        return
    if not adv['normal']:
        lo = -1.0 if adv['symmetric'] else 0.0
        bad = [x for x in flat if not (lo <= x <= 1.0)]
        if bad:
            rep(f'C11/support/{key}', f'{key}: draw outside [{lo:g}, 1]', wit, f'[{lo:g}, 1]', bad[:3], how)
    # antithetic: second half of every row = mirror image of the first half
    R = n // 2 if adv['antithetic'] else n
    if adv['antithetic']:
        neg = adv['symmetric'] or adv['normal']
        for o, row in enumerate(rows):
            for j in range(R):
                a, b = row[j], row[R + j]
                good = (b == -a) if neg else abs(F(b) - (1 - F(a))) <= ANTI_EXTRA
                if not good:
                    rep(f'C11/anti/{key}', f'{key}: draw {R + j} of observation {o} is not the mirror image of draw {j}',
                        dict(wit, observation=o, draw=j), ('-x' if neg else '1 - x') + f' of {a!r}', b, how)
                    break
            else:
                continue
            break
    gen = [row[:R] for row in rows]            # the generated part
    gflat = [x for row in gen for x in row]
    N = ss * R
    uin = None                                 # uniform numbers fed to the quantile transform
    if adv['normal']:
        w = r['rec']['wichura']
        if len(w) == 1 and w[0]['u'] is not None:
            uin = w[0]['u']
        elif len(w) == 0 and len(r['rec']['uniform']) == 1:
            uin = r['rec']['uniform'][0]
        elif len(w) == 1 and w[0]['u'] is None and len(r['rec']['uniform']) == 1:
            uin = r['rec']['uniform'][0]
        if uin is not None and len(uin) != N:
            uin = None
        if uin is not None and not all_finite(uin):
            rep(f'C11/support/{key}-uniform-nonfinite', f'{key}: a non-finite number is fed to the quantile transform', wit,
                'numbers of (0,1)', [x for x in uin if not finite(x)][:3], how)
            uin = None
    # Halton: radical inverse of the advertised base after the advertised skip
    if adv['halton'] and adv['base']:
        b = adv['base']
        skip = adv['skip'] if adv['skip'] is not None else rec['skip']
        tol = halton_tol(b, N + skip + 1)
        for j in range(N):
            phi = radical_inverse(b, j + skip + 1)
            if adv['normal']:
                if uin is not None:
                    good = abs(F(uin[j]) - phi) <= tol
                    obs = uin[j]
                else:
                    good = any(ref.matches_near(rg, float(phi - tol - U53), float(phi + tol + U53), gflat[j]) for rg in 'CLH')
                    obs = gflat[j]
            else:
                want = 2 * phi - 1 if adv['symmetric'] else phi
                good = abs(F(gflat[j]) - want) <= (sym_tol(tol) if adv['symmetric'] else tol)
                obs = gflat[j]
            if not good:
                same = [k2 for k2, r2 in peers.items() if k2 != key and r2.get('ok') and r2.get('rows') == rows]
                rep(f'C11/catalogue/{key}-base',
                    f'{key} ("{rec["descr"]}"): element {j} is not derived from the radical inverse of {j + skip + 1} in base {b}'
                    + (f'; the output is identical to that of {same[0]}' if same else ''),
                    dict(wit, element=j, identical_to=same), f'phi_{b}({j + skip + 1}) = {phi} (~{float(phi)!r})', obs, how)
                break
    # different advertised bases -> different sequences
    if adv['halton'] and adv['base']:
        for k2, r2 in peers.items():
            if k2 <= key or not r2.get('ok'):
                continue
            a2 = advertised(k2, r2.get('descr', ''))
            if (a2['halton'] and a2['base'] and a2['base'] != adv['base']
                    and (a2['symmetric'], a2['normal'], a2['antithetic']) == (adv['symmetric'], adv['normal'], adv['antithetic'])
                    and r2.get('rows') == rows):
                rep(f'C11/catalogue/{k2}-same-as-{key}',
                    f'{k2} (advertised base {a2["base"]}) returns exactly the output of {key} (advertised base {adv["base"]})',
                    dict(wit, other=k2), 'different sequences', {'first_row': rows[0][:6]}, how + f'; same call with {k2}')
    # MLHS: one point per stratum of the generated part
    if adv['mlhs']:
        pts = uin if adv['normal'] else gflat
        if pts is not None:
            ok, msg = strata_ok(pts, N, adv['symmetric'] and not adv['normal'])
            if not ok:
                rep(f'C11/mlhs/{key}-strata', f'{key}: the generated part does not put one point in each of {N} strata: {msg}',
                    wit, 'one point per stratum', msg, how)
    # normal: elementwise quantile of the uniform numbers
    if adv['normal'] and uin is not None and N <= 50000:      # (beyond: the quantile transform is swept by stream quantile)
        for j in range(N):
            kq = classify_quantile(ref, uin[j], gflat[j])
            if kq:
                rep(kq, f'{key}: draw {gflat[j]!r} is not the standard normal quantile of the uniform number {uin[j]!r}',
                    dict(wit, element=j, u=uin[j]), ref.ppnd16(uin[j]), gflat[j],
                    f'draws.get_normal_wichura_draws(1, 1, uniform_numbers=np.array([{uin[j]!r}]))')


def model_type_case(batch, rec, c, r, owner=None):
    """Coq side: the generated catalogue record, fed with the observed RNG output, must reproduce the array.
    Returns a reason string when the case cannot be encoded (RNG used differently from the record)."""
    ss, n, k = c['ss'], c['n'], c['k']
    if not r.get('ok') or r.get('rows') is None:
        return 'no array'
    if r.get('shape') != [ss, n] or not all(all_finite(row) for row in r['rows']):
        return 'array of another shape or with non-finite numbers (no model value is non-finite)'
    R = n // 2 if rec['half'] else n
    N = ss * R
    rr = r['rec']
    if not rr.get('shuffle_ok', True):
        return 'shuffle capture failed'
    nu = {'FUniform': 1, 'FHalton': 0, 'FMLHS': 1}[rec['family']]
    ns = {'FUniform': 0, 'FHalton': 1 if rec['shuffled'] else 0, 'FMLHS': 1}[rec['family']]
    if len(rr['uniform']) != nu or len(rr['shuffle']) != ns:
        return f'RNG calls: {len(rr["uniform"])} uniform / {len(rr["shuffle"])} shuffle, record expects {nu} / {ns}'
    us = rr['uniform'][0] if nu else []
    perm = rr['shuffle'][0] if ns else []
    if not all_finite(us):
        return 'non-finite uniform numbers observed'
    if (nu and len(us) != N) or (ns and len(perm) != N):
        return 'RNG calls of unexpected size'
    if rec['family'] == 'FHalton':
        t = halton_tol(rec['base'], N + rec['skip'] + 1) if rec['base'] >= 2 else F(0)
    elif rec['family'] == 'FMLHS':
        t = MLHS_TOL
    else:
        t = F(0)
    if rec['symmetric']:
        t = sym_tol(t)
    usq = '[' + ';\n '.join(coq_qlist(ch) for ch in chunks(us)) + ']' if us else '[]'
    owner = owner or (c['key'], ss, n)
    if rec['normal']:
        w = rr['wichura']
        if len(w) == 1 and w[0]['u'] is not None:
            uin = w[0]['u']
        else:
            uin = us if rec['family'] == 'FUniform' else None
        if uin is None or len(uin) != N:
            return 'uniform numbers fed to the quantile transform not observed'
        if not all_finite(uin):
            return 'non-finite numbers fed to the quantile transform'
        uinq = '[' + ';\n '.join(coq_qlist(ch) for ch in chunks(uin)) + ']'
        batch.add(owner, f'chk_uin {k} {ss} {n} {coq_frac(t)} {usq} {coq_nlist(perm)} {uinq}', 3 * N + 50)
    else:
        if rec['antithetic'] and rec['mirror'] == 'MOneMinus':
            t = t + ANTI_EXTRA
        batch.add(owner, f'chk_out {k} {ss} {n} {coq_frac(t)} {usq} {coq_nlist(perm)} {coq_qrows(r["rows"])}', 3 * N + 50)
    return None


def stream_types(ctx, rep, ref, cat, sizes, coq=True, tag='types', boundary=0, large=()):
    streams = {
        'halton': ctx.stream('halton', 'get_halton_draws directly (bases 2..13 incl. non-primes, skips 0..1000, symmetric, shuffled) and '
                             'the 9 Halton types of the catalogue x sizes; implementation doubles vs halton_py in Coq (exact for base 2^k, '
                             '(digits+3) ulp otherwise); non-trivial = more than one doubling round (length + skip + 1 > base)'),
        'mlhs': ctx.stream('mlhs', 'get_latin_hypercube_draws directly (given uniform numbers, observed shuffle) and the 6 MLHS types; '
                           'vs mlhs in Coq (3 ulp) + one point per stratum; non-trivial = at least 2 strata'),
        'anti': ctx.stream('anti', 'the 7 antithetic types x sizes (even draws): row = first half ++ mirror; non-trivial = all'),
        'sym': ctx.stream('sym', 'the 7 symmetric types x sizes: 2u-1 of the observed unit numbers (Coq) and support [-1,1]; non-trivial = all'),
        'shape': ctx.stream('shape', 'all 21 types x sizes incl. 1x2, 3x10, 7x64, 50x200: shape, support, Database.generate_draws '
                            'shape enforcement; non-trivial = more than one observation or more than 2 draws'),
    }
    cases = type_cases(ctx, cat, sizes, tag, boundary=boundary, large=large)
    res = run_impl(ctx, 'types', cases, per=max(1, len(cases) // 32 + 1))
    by_size = {}
    for c, r in zip(cases, res):
        by_size.setdefault((c['ss'], c['n']), {})[c['key']] = r
    batch = Batch(ctx, tag)
    skipped = []
    # Coq literals cost ~0.1 ms per digit: in the quick tier the arrays of more than 2000 numbers are compared with the
    # Coq model for a seed-dependent third of the types only (the oracles below see all of them; thorough: all in Coq)
    rot = ctx.sub_rng(tag + ':rotation')
    big_in_coq = set(rot.sample([r['key'] for r in cat], min(len(cat), 7))) if ctx.quick else {r['key'] for r in cat}
    for c, r in zip(cases, res):
        rec = cat[c['k']]
        small = {'key': c['key'], 'ss': c['ss'], 'n': c['n'], 'seed': c['seed']}
        streams['shape'].record(small, nontrivial=c['ss'] > 1 or c['n'] > 2)
        if rec['family'] == 'FHalton':
            streams['halton'].record(small, nontrivial=c['ss'] * c['n'] + rec['skip'] + 1 > rec['base'])
        if rec['family'] == 'FMLHS':
            streams['mlhs'].record(small, nontrivial=c['ss'] * c['n'] >= 4)
        if rec['antithetic']:
            streams['anti'].record(small)
        if rec['symmetric']:
            streams['sym'].record(small)
        oracle_type_case(ctx, rep, ref, rec, c, r, by_size[(c['ss'], c['n'])])
        if coq and (c['ss'] * c['n'] <= 2000 or (c['key'] in big_in_coq and c['ss'] * c['n'] <= 12000)):
            why = model_type_case(batch, rec, c, r)
            if why:
                skipped.append((small, why))
    if not coq:
        return
    out, errs = batch.run()
    for e in errs:
        ctx.stream_broken('shape', 'model evaluation failed: ' + e)
    fam_stream = {'FHalton': 'halton', 'FMLHS': 'mlhs', 'FUniform': 'shape'}
    for c, r in zip(cases, res):
        rec = cat[c['k']]
        v = out.get((c['key'], c['ss'], c['n']), 'absent')
        if v is False:
            small = {'key': c['key'], 'ss': c['ss'], 'n': c['n'], 'seed': c['seed']}
            names = [fam_stream[rec['family']]] + (['anti'] if rec['antithetic'] else []) + (['sym'] if rec['symmetric'] else [])
            for nm in names:
                streams[nm].disagree(small, 'gen_output of the generated catalogue record on the observed RNG output',
                                     {'first_row': (r.get('rows') or [[]])[0][:6]})
    for small, why in skipped:
        if why != 'no array':
            streams['shape'].disagree(small, 'catalogue record', why, 'the generator does not use the RNG the way its record says')
    for nm, st in streams.items():
        if st.disagreements and not any(b['name'] == f'C11/{nm}' for b in ctx.broken):
            ctx.stream_broken(nm, f'{len(st.disagreements)} disagreements, first: {json.dumps(st.disagreements[0])[:600]}')


# =====================================================================================
# stream: get_halton_draws called directly
# =====================================================================================
def check_halton_call(rep, st, batch, owner, c, r, extra=None, how_prefix='', coq=True):
    """one call of get_halton_draws: oracle (exact radical inverse, Fractions) + Coq case (halton_py)"""
    N = c['ss'] * c['n']
    how = how_prefix + (f"np.random.seed({c['seed']}); draws.get_halton_draws({c['ss']}, {c['n']}, symmetric={c['symmetric']}, "
                        f"base={c['base']}, skip={c['skip']}, shuffled={c['shuffled']})")
    key = f"C11/halton/base{c['base']}-skip{c['skip']}" + ('-sym' if c['symmetric'] else '') + ('-shuffled' if c['shuffled'] else '')
    if extra:
        key += '-in-history'
    wit = dict(c)
    if extra:
        wit.update(extra)
    if not r.get('ok'):
        rep(key + '-exception', f'get_halton_draws raised {r.get("exc")}', wit, 'an array', r, how)
        return
    if r['shape'] != [c['ss'], c['n']] or r['rows'] is None:
        rep(key + '-shape', f'get_halton_draws returned shape {r["shape"]}', wit, [c['ss'], c['n']], r['shape'], how)
        return
    flat = [x for row in r['rows'] for x in row]
    tol = halton_tol(c['base'], N + c['skip'] + 1)
    tol_o = sym_tol(tol) if c['symmetric'] else tol
    want = [radical_inverse(c['base'], j + c['skip'] + 1) for j in range(N)]
    if c['symmetric']:
        want = [2 * w - 1 for w in want]
    if not all(finite(x) for x in flat):
        rep(key + '-nonfinite', 'get_halton_draws returned a non-finite number', wit, None, None, how)
        return
    got = [F(x) for x in flat]
    if c['shuffled']:
        got, want2 = sorted(got), sorted(want)
    else:
        want2 = want
    for j in range(N):
        if abs(got[j] - want2[j]) > tol_o:
            rep(key, f'get_halton_draws: {"sorted " if c["shuffled"] else ""}element {j} is not the '
                f'{"2x-1 image of the " if c["symmetric"] else ""}radical inverse in base {c["base"]} after skipping {c["skip"]}',
                dict(wit, element=j), float(want2[j]), float(got[j]), how)
            break
    perm = []
    if c['shuffled']:
        if len(r['shuffle']) != 1 or not r['shuffle_ok'] or len(r['shuffle'][0]) != N:
            st.disagree(wit, 'one np.random.shuffle of the whole sequence', f'{len(r["shuffle"])} shuffles observed')
            return
        perm = r['shuffle'][0]
    elif r['shuffle'] or r['n_uniform']:
        st.disagree(wit, 'no use of the RNG', f'{len(r["shuffle"])} shuffles, {r["n_uniform"]} uniform calls')
        return
    if not coq:
        return
    batch.add(owner, f'chk_halton {c["base"]} {N} {c["skip"]} {coq_bool(c["symmetric"])} {coq_bool(c["shuffled"])} '
                     f'{coq_nlist(perm)} {coq_frac(tol_o)} {c["ss"]} {c["n"]} {coq_qrows(r["rows"])}', 2 * N + 50)


def stream_halton(ctx, rep):
    st = ctx.stream('halton', '')
    rng = ctx.sub_rng('halton')
    cases = [dict(ss=2, n=10, base=3, skip=0, symmetric=False, shuffled=False, seed=1),     # the docstring example
             dict(ss=1, n=1, base=2, skip=0, symmetric=False, shuffled=False, seed=1),
             dict(ss=1, n=1, base=2, skip=10, symmetric=True, shuffled=True, seed=1)]
    corpus = CORPUS / 'halton_cases.json'
    if corpus.exists():
        cases += json.loads(corpus.read_text())
    for _ in range(ctx.n(40, 400)):
        ss = rng.choice([1, 2, 3, 5, 7, 13, 50])
        n = rng.choice([1, 2, 3, 7, 10, 16, 31, 64, 100, 200])
        if ss * n > ctx.n(1200, 10000):
            n = max(1, ctx.n(1200, 10000) // ss)
        cases.append(dict(ss=ss, n=n, base=rng.choice([2, 2, 3, 3, 5, 5, 7, 11, 13, 4, 6, 10]),
                          skip=rng.choice([0, 0, 1, 2, 9, 10, 10, 37, 100, 1000]),
                          symmetric=rng.random() < 0.3, shuffled=rng.random() < 0.25, seed=rng.randrange(1, 2 ** 31)))
    # boundaries of the doubling construction (size + skip + 1 = i * base^t + delta), every base and skip
    for _ in range(ctx.n(30, 300)):
        base = rng.choice([2, 3, 5, 7, 4, 6, 10, 11])
        skip = rng.choice([0, 0, 1, 3, 10, 10, 37, 100])
        for (ss, n) in boundary_sizes(rng, base, skip, 1, nmax=ctx.n(1500, 8000)):
            cases.append(dict(ss=ss, n=n, base=base, skip=skip, symmetric=rng.random() < 0.3, shuffled=rng.random() < 0.2,
                              seed=rng.randrange(1, 2 ** 31)))
    # size thresholds: more than 100000 numbers, ending exactly on a power of the base (oracle only, no Coq)
    for base in ([rng.choice([2, 3, 5])] if ctx.quick else [2, 3, 5, 7]):
        t = 1
        while base ** t <= 100000:
            t += 1
        skip = rng.choice([0, 10])
        N = base ** t - skip                       # size + skip = base^t
        ss = rng.choice([d for d in range(1, 60) if N % d == 0])
        cases.append(dict(ss=ss, n=N // ss, base=base, skip=skip, symmetric=False, shuffled=False, seed=1))
    res = run_impl(ctx, 'halton', cases)
    batch = Batch(ctx, 'halton')
    for i, (c, r) in enumerate(zip(cases, res)):
        st.record(c, nontrivial=c['ss'] * c['n'] + c['skip'] + 1 > c['base'])
        check_halton_call(rep, st, batch, i, c, r, coq=c['ss'] * c['n'] <= 12000)
    out, errs = batch.run()
    for e in errs:
        ctx.stream_broken('halton', 'model evaluation failed: ' + e)
    for i, v in out.items():
        if v is False:
            st.disagree(cases[i], 'halton_py (Coq)', {'first_row': res[i]['rows'][0][:6]})
    if st.disagreements and not any(b['name'] == 'C11/halton' for b in ctx.broken):
        ctx.stream_broken('halton', f'{len(st.disagreements)} disagreements, first: {json.dumps(st.disagreements[0])[:600]}')


# =====================================================================================
# stream: histories -- several calls in ONE process (what a call leaves behind must not change the next)
# =====================================================================================
def describe_step(s):
    if s['kind'] == 'type':
        return f"np.random.seed({s['seed']}); native_random_number_generators['{s['key']}'].generator({s['ss']}, {s['n']})"
    return (f"np.random.seed({s['seed']}); draws.get_halton_draws({s['ss']}, {s['n']}, symmetric={s['symmetric']}, "
            f"base={s['base']}, skip={s['skip']}, shuffled={s['shuffled']})")


def gen_histories(ctx, cat, count):
    rng = ctx.sub_rng('histories')
    idx = {r['key']: i for i, r in enumerate(cat)}
    native = {}
    for r in cat:
        if r['family'] == 'FHalton':
            native.setdefault(r['base'], []).append(r['key'])

    def direct(base, ss, n, skip=0, shuffled=False, symmetric=False):
        return dict(kind='halton', ss=ss, n=n, base=base, skip=skip, symmetric=symmetric, shuffled=shuffled,
                    seed=rng.randrange(1, 2 ** 31))

    def typ(key, ss, n):
        return dict(kind='type', key=key, k=idx[key], ss=ss, n=n, seed=rng.randrange(1, 2 ** 31))

    hs = []
    for b in sorted(native):
        ks = native[b]
        # a long shuffled call, then shorter native types of the same base
        hs.append([direct(b, 4, 25, 0, shuffled=True)] + [typ(k, ss, n) for k, (ss, n) in zip(ks, [(3, 8), (1, 10), (5, 16)])])
        # a long plain call, a short shuffled one, then a native type and a plain call again
        hs.append([direct(b, 10, 30, 3), direct(b, 2, 20, 5, shuffled=True), typ(ks[0], 2, 10), direct(b, 5, 5, 0)])
    hs.append([direct(7, 3, 100), direct(7, 1, 40, 10, shuffled=True, symmetric=True), direct(7, 2, 12, 1)])
    while len(hs) < count:
        b = rng.choice([2, 3, 5, 2, 3, 5, 7, 4])
        steps = []
        for j in range(rng.randint(2, 4)):
            if b in native and rng.random() < 0.4:
                steps.append(typ(rng.choice(native[b]), rng.choice([1, 2, 3, 5]), 2 * rng.randint(1, 20)))
            else:
                bb = b if rng.random() < 0.85 else rng.choice([2, 3, 5])
                steps.append(direct(bb, rng.choice([1, 2, 3, 7]), rng.choice([1, 2, 5, 10, 30, 60]),
                                    rng.choice([0, 0, 1, 5, 10, 10, 37]), shuffled=rng.random() < 0.45,
                                    symmetric=rng.random() < 0.25))
        if rng.random() < 0.5:    # longest first: later calls fit in whatever the first one left behind
            steps.sort(key=lambda s: -(s['ss'] * s['n'] + s.get('skip', 10)))
        hs.append(steps)
    return hs


def check_history(ctx, rep, ref, cat, st, batch, hi, steps, h, coq=True):
    if not h.get('ok') or len(h.get('steps', [])) != len(steps):
        rep('C11/halton/history-exception', f'a history of generator calls failed: {h.get("exc")} {h.get("msg")}',
            {'history': steps}, 'arrays', h, ' ; '.join(describe_step(s) for s in steps))
        return
    for i, (s, r) in enumerate(zip(steps, h['steps'])):
        extra = {'history': steps, 'step': i}
        pre = ('in ONE process: ' + ' ; '.join(describe_step(x) for x in steps[:i]) + ' ; then ') if i else ''
        if s['kind'] == 'type':
            rec = cat[s['k']]
            oracle_type_case(ctx, rep, ref, rec, s, r, {}, extra=extra, how_prefix=pre)
            why = model_type_case(batch, rec, s, r, owner=(hi, i)) if coq else None
            if why and why != 'no array':
                st.disagree({'history': steps, 'step': i}, 'catalogue record', why)
        else:
            c = {k: s[k] for k in ('ss', 'n', 'base', 'skip', 'symmetric', 'shuffled', 'seed')}
            check_halton_call(rep, st, batch, (hi, i), c, r, extra=extra, how_prefix=pre)


def stream_histories(ctx, rep, ref, cat, coq=True):
    st = ctx.stream('halton', '')
    st.rule += (' | histories: 2-4 calls in one fresh process mixing shuffled / plain get_halton_draws, different lengths '
                '(shorter after longer), skips, and the native Halton types of the same base; every result checked as a '
                'single call is')
    hs = gen_histories(ctx, cat, ctx.n(30, 250))
    res = run_impl(ctx, 'history', [{'steps': h} for h in hs])
    batch = Batch(ctx, 'history')
    for hi, (steps, h) in enumerate(zip(hs, res)):
        later_same = any(a['kind'] == 'halton' and a['shuffled'] and any(
            (b.get('base') or cat[b['k']]['base']) == a['base'] for b in steps[i + 1:]) for i, a in enumerate(steps))
        st.record({'history': [describe_step(s) for s in steps]}, nontrivial=later_same)
        check_history(ctx, rep, ref, cat, st, batch, hi, steps, h, coq=coq)
    out, errs = batch.run()
    for e in errs:
        ctx.stream_broken('halton', 'model evaluation failed: ' + e)
    for (hi, i), v in out.items():
        if v is False:
            st.disagree({'history': [describe_step(s) for s in hs[hi]], 'step': i}, 'model (Coq) of this call alone',
                        {'first_row': (res[hi]['steps'][i].get('rows') or [[]])[0][:6]})
    if st.disagreements and not any(b['name'] == 'C11/halton' for b in ctx.broken):
        ctx.stream_broken('halton', f'{len(st.disagreements)} disagreements, first: {json.dumps(st.disagreements[0])[:600]}')


# =====================================================================================
# stream: table -- Database.generate_draws gives every NAMED variable the series of ITS type
# =====================================================================================
def gen_tables(ctx, cat):
    rng = ctx.sub_rng('table')
    keys = [r['key'] for r in cat]
    halton = [r['key'] for r in cat if r['family'] == 'FHalton']
    cases = [dict(decl=[['z_unif', 'UNIFORM_HALTON3'], ['a_norm', 'NORMAL_HALTON2']], names=['a_norm', 'z_unif'], ss=4, n=50, seed=11),
             dict(decl=[['b', 'UNIFORMSYM_HALTON5'], ['c', 'UNIFORM_MLHS_ANTI'], ['a', 'UNIFORM_HALTON2']],
                  names=['a', 'b', 'c'], ss=3, n=10, seed=12)]
    for _ in range(ctx.n(14, 120)):
        m = rng.choice([2, 2, 3])
        ks = [rng.choice(halton)]
        while len(ks) < m:
            k = rng.choice(keys if rng.random() < 0.5 else halton)
            if k not in ks:
                ks.append(k)
        rng.shuffle(ks)
        stems = rng.sample(['alpha', 'beta', 'gamma', 'omega', 'b_time', 'z_unif', 'a_norm', 'err', 'xi', 'draw1', 'draw2'], m)
        names_sorted = sorted(stems)
        ins = list(names_sorted)
        while ins == names_sorted:
            rng.shuffle(ins)                    # insertion order of the dict != sorted order
        decl = [[nm, k] for nm, k in zip(ins, ks)]
        if rng.random() < 0.75:
            names = names_sorted                # what biogeme itself passes
        else:
            names = list(ins)
            while names == ins:
                rng.shuffle(names)
        cases.append(dict(decl=decl, names=names, ss=rng.choice([1, 2, 3, 5]), n=2 * rng.randint(1, 25),
                          seed=rng.randrange(1, 2 ** 31)))
    return cases


def check_table(ctx, rep, ref, cat, c, r):
    recs = {x['key']: x for x in cat}
    decl = dict((nm, k) for nm, k in c['decl'])
    call = (f"np.random.seed({c['seed']}); Database('c11', DataFrame with {c['ss']} rows).generate_draws("
            + '{' + ', '.join(f"'{nm}': '{k}'" for nm, k in c['decl']) + '}' + f", {c['names']}, {c['n']})")
    if not r.get('ok'):
        rep('C11/table/exception', f'generate_draws raised {r.get("exc")}: {r.get("msg")}', {'table': c}, 'a table', r, call)
        return
    if r['shape'] != [c['ss'], c['n'], len(c['names'])] or 'columns' not in r:
        rep('C11/table/shape', f'generate_draws returned shape {r["shape"]}', {'table': c}, [c['ss'], c['n'], len(c['names'])],
            r['shape'], call)
        return
    for i, nm in enumerate(c['names']):
        key = decl[nm]
        rec = recs[key]

        def rep2(k, what, wit, expected=None, observed=None, how=None, nm=nm, key=key, i=i):
            k2 = k if k.startswith('C11/quantile/') else k.replace('C11/', 'C11/table/', 1)
            rep(k2, f'Database.generate_draws: column {i} (variable "{nm}", declared {key}) does not hold a {key} series -- ' + what,
                {'table': c, 'variable': nm, 'declared': key, 'column': i}, expected, observed,
                call + f'[:, :, {i}]')

        r2 = {'ok': True, 'descr': rec['descr'], 'shape': [c['ss'], c['n']], 'rows': r['columns'][i],
              'rec': {'uniform': [], 'shuffle': [], 'wichura': [], 'shuffle_ok': True}}
        oracle_type_case(ctx, rep2, ref, rec, {'key': key, 'ss': c['ss'], 'n': c['n'], 'seed': c['seed']}, r2, {})


def stream_table(ctx, rep, ref, cat):
    st = ctx.stream('table', 'Database.generate_draws with 2-3 draw variables of different native types (at least one Halton type) '
                    'whose dict insertion order differs from the order of `names` (sorted, or another order): each column is '
                    'checked against the type declared for ITS name -- shape, support, antithetic mirror, exact Halton values of '
                    'the advertised base/skip (quantiles of them for NORMAL_HALTON), MLHS strata; non-trivial = all')
    cases = gen_tables(ctx, cat)
    res = run_impl(ctx, 'table', cases, per=max(1, len(cases) // 8 + 1))
    for c, r in zip(cases, res):
        st.record(c)
        check_table(ctx, rep, ref, cat, c, r)


# =====================================================================================
# stream: get_latin_hypercube_draws called directly with given uniform numbers
# =====================================================================================
def mlhs_us(c):
    """the uniform numbers passed to get_latin_hypercube_draws for case c (None: drawn by the function itself);
    20-bit numbers of (0,1): i + u is exact in binary64"""
    import random
    if c['us_kind'] == 'rng':
        return None
    g = random.Random(c['us_seed'])
    N = c['ss'] * c['n']
    if c['us_kind'] == 'edges':
        return [[g.choice([1, 2 ** 20 - 1, 2 ** 19]), 2 ** 20] for _ in range(N)]     # ends and middle of the stratum
    return [[g.randrange(1, 2 ** 20), 2 ** 20] for _ in range(N)]


def check_mlhs_call(rep, st, batch, owner, c, r):
    N = c['ss'] * c['n']
    small = dict(c)
    us = mlhs_us(c)
    how = (f"np.random.seed({c['seed']}); draws.get_latin_hypercube_draws({c['ss']}, {c['n']}, symmetric={c['symmetric']}"
           + (f", uniform_numbers=<{c['us_kind']} 20-bit numbers, random.Random({c['us_seed']})>)" if us is not None else ")"))
    key = 'C11/mlhs/direct' + ('-sym' if c['symmetric'] else '')
    if not r.get('ok'):
        rep(key + '-exception', f'get_latin_hypercube_draws raised {r.get("exc")}', small, 'an array', r, how)
        return
    if r['shape'] != [c['ss'], c['n']] or r['rows'] is None:
        rep(key + '-shape', f'get_latin_hypercube_draws returned shape {r["shape"]}', small, [c['ss'], c['n']], r['shape'], how)
        return
    flat = [x for row in r['rows'] for x in row]
    if not all(finite(x) for x in flat):
        rep(key + '-nonfinite', 'non-finite draw', small, None, None, how)
        return
    ok, msg = strata_ok(flat, N, c['symmetric'])
    if not ok:
        rep(key + '-strata', f'get_latin_hypercube_draws does not put one point in each of {N} strata: {msg}',
            small, 'one point per stratum', msg, how)
    want_uniform = 0 if us is not None else 1
    if len(r['shuffle']) != 1 or not r['shuffle_ok'] or len(r['shuffle'][0]) != N or r['n_uniform'] != want_uniform:
        st.disagree(small, f'one np.random.shuffle of all numbers, {want_uniform} call(s) of np.random.uniform',
                    f'{len(r["shuffle"])} shuffles, {r["n_uniform"]} uniform calls')
        return
    if N > 12000 or batch is None:
        return
    tol = sym_tol(MLHS_TOL) if c['symmetric'] else MLHS_TOL
    if us is not None:
        usq = '[' + ';\n '.join('[' + '; '.join(f'(P {v} 20)' for v, _ in ch) + ']' for ch in chunks(us)) + ']'
    else:
        got_us = (r.get('uniform') or [[]])[0]
        if len(got_us) != N or not all_finite(got_us):
            st.disagree(small, f'{N} finite uniform numbers drawn', f'{len(got_us)} numbers observed')
            return
        usq = '[' + ';\n '.join(coq_qlist(ch) for ch in chunks(got_us)) + ']'
    batch.add(owner, f'chk_mlhs {usq} {coq_nlist(r["shuffle"][0])} {coq_bool(c["symmetric"])} {coq_frac(tol)} '
                     f'{c["ss"]} {c["n"]} {coq_qrows(r["rows"])}', 3 * N + 50)


def stream_mlhs(ctx, rep):
    st = ctx.stream('mlhs', '')
    rng = ctx.sub_rng('mlhs')
    cases = []
    for _ in range(ctx.n(30, 300)):
        ss = rng.choice([1, 2, 3, 5, 7, 20])
        n = rng.choice([1, 2, 3, 4, 10, 32, 64, 100])
        if ss * n > ctx.n(700, 2000):
            n = max(1, ctx.n(700, 2000) // ss)
        kind = rng.choice(['given', 'given', 'given', 'edges', 'rng'])
        cases.append(dict(ss=ss, n=n, symmetric=rng.random() < 0.4, us_kind=kind, us_seed=rng.randrange(1, 2 ** 31),
                          seed=rng.randrange(1, 2 ** 31)))
    # size thresholds: more than 100000 points, with and without user numbers (oracle only, no Coq)
    for kind in ([rng.choice(['given', 'rng'])] if ctx.quick else ['given', 'rng', 'given', 'rng']):
        ss = rng.choice([250, 400, 500, 1000])
        n = 100000 // ss + rng.randint(1, 40)
        cases.append(dict(ss=ss, n=n, symmetric=rng.random() < 0.4, us_kind=kind, us_seed=rng.randrange(1, 2 ** 31),
                          seed=rng.randrange(1, 2 ** 31)))
    res = run_impl(ctx, 'mlhs', [dict(c, us=mlhs_us(c)) for c in cases])
    batch = Batch(ctx, 'mlhs')
    for i, (c, r) in enumerate(zip(cases, res)):
        st.record(c, nontrivial=c['ss'] * c['n'] >= 2)
        check_mlhs_call(rep, st, batch, i, c, r)
    out, errs = batch.run()
    for e in errs:
        ctx.stream_broken('mlhs', 'model evaluation failed: ' + e)
    for i, v in out.items():
        if v is False:
            st.disagree(cases[i], 'mlhs (Coq)',
                        {'first_row': res[i]['rows'][0][:6]})
    if st.disagreements and not any(b['name'] == 'C11/mlhs' for b in ctx.broken):
        ctx.stream_broken('mlhs', f'{len(st.disagreements)} disagreements, first: {json.dumps(st.disagreements[0])[:600]}')


# =====================================================================================
# stream: Database.generate_draws (shape enforcement only)
# =====================================================================================
def stream_database(ctx, rep, cat):
    st = ctx.stream('shape', '')
    keys = [r['key'] for r in cat]
    anti = [r['key'] for r in cat if r['antithetic']]
    cases = [dict(keys=keys, ss=3, n=10, seed=5), dict(keys=keys[::-1], ss=1, n=2, seed=6)]
    cases += [dict(keys=[k], ss=3, n=5, seed=7, odd=True) for k in anti]
    res = run_impl(ctx, 'database', cases, per=6)
    for c, r in zip(cases, res):
        st.record({'database': True, **c})
        how = f"Database('c11', DataFrame with {c['ss']} rows).generate_draws({{v_i: key_i}}, names, {c['n']})"
        if c.get('odd'):
            # an odd number of draws cannot be delivered by an antithetic type: it must be refused, not mis-shaped
            if r.get('ok'):
                rep(f'C11/shape/database-odd-{c["keys"][0]}', f'generate_draws accepted {c["n"]} draws for {c["keys"][0]}',
                    c, 'BiogemeError', r, how)
            continue
        if not r.get('ok'):
            rep('C11/shape/database-exception', f'generate_draws raised {r.get("exc")}: {r.get("msg")}', c, 'a table', r, how)
        elif r['shape'] != [c['ss'], c['n'], len(c['keys'])] or not r['same_as_direct']:
            rep('C11/shape/database', 'generate_draws table is not the stack of the generators\' arrays', c,
                [c['ss'], c['n'], len(c['keys'])], r, how)


# =====================================================================================
# stream: the normal quantile transform
# =====================================================================================
def ulp_neighbours(x, k):
    out = [x]
    a = b = x
    for _ in range(k):
        a = math.nextafter(a, -math.inf)
        b = math.nextafter(b, math.inf)
        out += [a, b]
    return out


def quantile_grid(ctx):
    rng = ctx.sub_rng('quantile')
    us = []
    e25 = math.exp(-25.0)
    for b in (0.075, 0.45, 0.5, 0.55, 0.925, 0.425, 0.575, e25, 1 - e25, 0.25, 0.75, 0.05, 0.95,
              0.5 - 0.425, 0.5 + 0.425, math.exp(-2.56), 1 - math.exp(-2.56)):
        us += ulp_neighbours(b, 4)
    us += [5e-324, 2.2250738585072014e-308, 1e-308, 1e-300, 1e-200, 1e-100, 1e-50, 1e-20, 1e-16, 2.0 ** -53, 2.0 ** -52,
           1 - 2.0 ** -53, 1 - 2.0 ** -52, 1 - 1e-10, 1e-10, 0.001, 0.999, 0.01, 0.99, 0.1, 0.9, 0.3, 0.7]
    nlog = ctx.n(6000, 100000)
    for i in range(nlog):
        u = 10.0 ** (-300.0 + 299.7 * i / (nlog - 1))        # 1e-300 .. 0.5
        us.append(u)
        if u > 1e-16:
            us.append(1.0 - u)
    nlin = ctx.n(3000, 50000)
    us += [(i + 0.5) / nlin for i in range(nlin)]
    us += [rng.random() for _ in range(ctx.n(3000, 50000))]
    us += [10.0 ** rng.uniform(-320, 0) for _ in range(ctx.n(1000, 20000))]
    return [u for u in us if 0.0 < u < 1.0]


def stream_quantile(ctx, rep, ref, consts, w):
    st = ctx.stream('quantile', 'get_normal_wichura_draws(uniform_numbers=u): branch boundaries +-4 ulp, log-spaced tails 1e-300..0.5 '
                    'and their mirror images, linear and random grids, denormals; vs AS241/PPND16 as published (<= 8 ulp) and '
                    '|Phi(z)-u| <= 32 (1+z^2) 2^-53 min(u,1-u) by erfc; non-trivial = all (0 < u < 1)')
    # coefficients in the source = coefficients as published
    diff = []
    for c in 'abcdef':
        for i in range(8):
            if c in 'bdf' and i == 0:
                continue
            if consts.get(f'{c}{i}') != float(ref.K[c][i]):
                diff.append((f'{c}{i}', consts.get(f'{c}{i}'), ref.K[c][i]))
    for nm, pub in (('split2', ref.split2), ('const1', ref.const1), ('const2', ref.const2)):
        if consts.get(nm) != pub:
            diff.append((nm, consts.get(nm), pub))
    if diff:
        ctx.tie_broken('as241:coefficients', f'constants of get_normal_wichura_draws differ from AS241 as published: {diff[:4]}')
    us = quantile_grid(ctx)
    B = 4000
    parts = [us[i:i + B] for i in range(0, len(us), B)]
    res = run_impl(ctx, 'quantile', [{'us': [u.hex() for u in p]} for p in parts], per=max(1, len(parts) // 16 + 1))
    observed = []      # (u, z) for the branch stream
    for p, r in zip(parts, res):
        if not r.get('ok'):
            rep('C11/quantile/exception', f'get_normal_wichura_draws raised {r.get("exc")}: {r.get("msg")}',
                {'us_head': p[:5]}, 'quantiles', r)
            continue
        zs = [float.fromhex(h) for h in r['z']]
        for u, z in zip(p, zs):
            st.record({'u': u}, nontrivial=True, sample_cap=3)
            k = classify_quantile(ref, u, z)
            observed.append((u, z))
            if k:
                e, t = phi_error(u, z) if finite(z) else (float('inf'), 0.0)
                known = rep(k, f'get_normal_wichura_draws(uniform_numbers=[{u!r}]) = {z!r}: not the standard normal quantile '
                            f'(AS241: {ref.ppnd16(u)!r}; |Phi(z)-u|/min(u,1-u) = {e:.3g})', {'u': u, 'u_hex': u.hex()},
                            ref.ppnd16(u), z, f'draws.get_normal_wichura_draws(1, 1, uniform_numbers=np.array([{u!r}]))')
                if not k.startswith('C11/quantile/central-formula-below') and not k.startswith('C11/quantile/tail-formula-on'):
                    st.disagree({'u': u}, ref.ppnd16(u), z, k)
    if st.disagreements:
        ctx.stream_broken('quantile', f'{len(st.disagreements)} disagreements with AS241 outside the known witness class, '
                          f'first: {json.dumps(st.disagreements[0])[:400]}')
    stream_branches(ctx, ref, observed)


def stream_branches(ctx, ref, observed):
    """tie of the generated branch model: which formula the implementation applied (recognised from its output) vs
    impl_region wichura u evaluated in Coq on the exact u."""
    st = ctx.stream('branches', 'which of the three AS241 formulas reproduces the returned value (unambiguous points only) vs '
                    'impl_region of the generated `wichura` record, in Coq; non-trivial = all')
    rng = ctx.sub_rng('branches')
    pts = []
    step = max(1, len(observed) // ctx.n(1500, 12000))
    near = [0.075, 0.45, 0.5, 0.925, 0.55, 0.425]
    for i, (u, z) in enumerate(observed):
        if i % step and not any(abs(u - b) < 1e-12 for b in near):
            continue
        m = [reg for reg in 'CLH' if ref.matches(reg, u, z)]
        if len(m) != 1:
            continue
        pts.append((u, {'C': 0, 'L': 1, 'H': 2}[m[0]]))
    batch = Batch(ctx, 'branches', budget=400)
    for i, (u, code) in enumerate(pts):
        st.record({'u': u, 'formula': code})
        batch.add(i, f'chk_region {coq_q(u)} {code}', 1)
    out, errs = batch.run()
    for e in errs:
        ctx.stream_broken('branches', 'model evaluation failed: ' + e)
    for i, v in out.items():
        if v is False:
            st.disagree({'u': pts[i][0]}, 'impl_region wichura u (Coq)', {'formula_observed': 'CLH'[pts[i][1]]})
    if st.disagreements:
        ctx.stream_broken('branches', f'{len(st.disagreements)} disagreements, first: {json.dumps(st.disagreements[0])[:400]}')


# =====================================================================================
# driver
# =====================================================================================
ASSUME = [
    'numpy.random.uniform returns numbers of [0,1) and numpy.random.shuffle applies a permutation: both are arbitrary INPUTS of '
    'the model (theorems hold for every outcome); their statistical quality and seeding are outside C11',
    'AS241/PPND16 as published is taken as the specification of "accurate to near machine precision" (its published accuracy '
    'is not re-proved); the implementation is held to it by a dense sweep and to Phi(z) = u by math.erfc (partial, sampled)',
    'real-number model: Halton / MLHS / mirror / 2u-1 are proved over exact rationals; binary64 rounding of the implementation '
    'is bounded per stream by a stated tolerance (0 for base 2, (digits+3) ulp for other bases, 3 ulp MLHS, 1 ulp per 2x-1 or 1-x)',
]


def run(ctx):
    import time
    _t = time.time()
    def lap(nm):
        nonlocal _t
        ctx.notes.setdefault("timing", {})[nm] = round(time.time() - _t, 1)
        _t = time.time()
    ctx.assumptions += ASSUME
    ctx.trusted += [
        'tie A: the C11 extractor in lib/props/C11.py (ast, fail-closed) for native_draws.native_random_number_generators, its helper '
        'bodies, draws.get_antithetic and the branch conditions of draws.get_normal_wichura_draws; validated on each run by the '
        'streams (generated records vs behaviour, in Coq)',
        'RNG observation by wrapping np.random.uniform / np.random.shuffle / draws.get_normal_wichura_draws in the runner',
        'math.erfc, math.log, math.sqrt of the C library for the quantile reference; Python fractions for the oracles',
    ]
    cat = w = consts = None
    try:
        cat, w, consts = gen_all(ctx)
    except Untranslatable as e:
        ctx.tie_broken('py2v:DrawCatalogue', str(e))
    lap('gen')
    ctx.build()
    lap('build')
    rep = Reporter(ctx)
    ref = AS241()
    extracted = cat is not None

    def guard(name, fn, *a, **k):
        # a mutated library must yield data, never a harness crash: an exception inside a stream is reported as that
        # stream no longer checking (rc 1), with the traceback
        try:
            fn(*a, **k)
        except Exception:  # noqa
            import traceback
            ctx.stream_broken(name, 'the harness could not process what the implementation returned:\n'
                              + traceback.format_exc()[-1500:])

    if cat is None:
        # the table cannot be read any more: fall back on the live dictionary for the oracles
        cat = fallback_catalogue(ctx)
    rsel = ctx.sub_rng('large')
    mlhs_keys = [r['key'] for r in cat if r['family'] == 'FMLHS']
    if ctx.quick:   # one Latin-hypercube type and one other type with more than 100000 generated points
        large = {rsel.choice(mlhs_keys), rsel.choice([r['key'] for r in cat if r['family'] != 'FMLHS'])}
    else:
        large = {r['key'] for r in cat}
    sizes = list(SIZES)
    if not ctx.quick:
        rng = ctx.sub_rng('sizes')
        sizes += [(rng.choice([1, 2, 4, 9, 17, 33]), 2 * rng.randrange(1, 120)) for _ in range(10)]
    guard('shape', stream_types, ctx, rep, ref, cat, sizes, coq=extracted, boundary=ctx.n(3, 12), large=large)
    lap('types')
    guard('shape', stream_database, ctx, rep, cat)
    lap('database')
    guard('halton', stream_halton, ctx, rep)
    guard('halton', stream_histories, ctx, rep, ref, cat, coq=extracted)
    guard('table', stream_table, ctx, rep, ref, cat)
    lap('halton')
    guard('mlhs', stream_mlhs, ctx, rep)
    lap('mlhs')
    if consts is None:
        try:
            _, consts = Extractor().wichura()
        except Exception:
            consts = {}
    guard('quantile', stream_quantile, ctx, rep, ref, consts, w)
    lap('quantile')
    if ctx.broken and not ctx.violations:
        guard('shape', search_more, ctx, rep, ref, cat)


def fallback_catalogue(ctx):
    keys = ['UNIFORM', 'UNIFORM_ANTI', 'UNIFORM_HALTON2', 'UNIFORM_HALTON3', 'UNIFORM_HALTON5', 'UNIFORM_MLHS',
            'UNIFORM_MLHS_ANTI', 'UNIFORMSYM', 'UNIFORMSYM_ANTI', 'UNIFORMSYM_HALTON2', 'UNIFORMSYM_HALTON3',
            'UNIFORMSYM_HALTON5', 'UNIFORMSYM_MLHS', 'UNIFORMSYM_MLHS_ANTI', 'NORMAL', 'NORMAL_ANTI', 'NORMAL_HALTON2',
            'NORMAL_HALTON3', 'NORMAL_HALTON5', 'NORMAL_MLHS', 'NORMAL_MLHS_ANTI']
    out = []
    for k in keys:
        fam = 'FHalton' if 'HALTON' in k else 'FMLHS' if 'MLHS' in k else 'FUniform'
        out.append(dict(key=k, descr='', helper='', family=fam, base=int(k[-1]) if fam == 'FHalton' else 0,
                        skip=10 if fam == 'FHalton' else 0, symmetric=k.startswith('UNIFORMSYM'), shuffled=False,
                        normal=k.startswith('NORMAL'), antithetic=k.endswith('_ANTI'), mirror='MNone', axis=1,
                        half=k.endswith('_ANTI')))
    return out


def search_more(ctx, rep, ref, cat):
    """Something no longer checks and no failing input has been seen yet: more oracle evaluations (no Coq),
    other sizes and seeds."""
    rng = ctx.sub_rng('search')
    sizes = [(1, 2), (2, 2), (1, 4), (2, 6), (5, 20), (11, 30), (3, 100), (31, 8)]
    sizes += [(rng.randrange(1, 40), 2 * rng.randrange(1, 60)) for _ in range(ctx.n(6, 40))]
    stream_types(ctx, rep, ref, cat, sizes, coq=False, tag='search', boundary=8)


def replay(ctx, path):
    import shutil
    try:
        return _replay(ctx, path)
    finally:
        shutil.rmtree(ctx.scratch, ignore_errors=True)


def _replay(ctx, path):
    w = json.load(open(path))
    wit = w.get('witness') or {}
    key = w.get('key', '')
    ref = AS241()
    rep = Reporter(ctx)
    try:
        cat, _, _ = extract()
    except Untranslatable:
        cat = fallback_catalogue(ctx)
    if 'history' in wit:
        steps = wit['history']
        h = run_impl(ctx, 'history', [{'steps': steps}])[0]
        st = ctx.stream('halton', 'replay')
        check_history(ctx, rep, ref, cat, st, Batch(ctx, 'replay'), 0, steps, h)
        bad = list(ctx.violations)
        print(json.dumps({'history': [describe_step(s) for s in steps], 'still_fails': bool(bad),
                          'violations': [v['key'] for v in bad]}))
        return 1 if bad else 0
    if 'table' in wit:
        c = wit['table']
        r = run_impl(ctx, 'table', [c])[0]
        check_table(ctx, rep, ref, cat, c, r)
        bad = list(ctx.violations)
        print(json.dumps({'table': c, 'still_fails': bool(bad), 'violations': [v['key'] for v in bad]}))
        return 1 if bad else 0
    if 'us_kind' in wit:
        c = {k: wit[k] for k in ('ss', 'n', 'symmetric', 'us_kind', 'us_seed', 'seed')}
        r = run_impl(ctx, 'mlhs', [dict(c, us=mlhs_us(c))])[0]
        check_mlhs_call(rep, ctx.stream('mlhs', 'replay'), None, 0, c, r)
        bad = list(ctx.violations)
        print(json.dumps({'witness': c, 'still_fails': bool(bad), 'violations': [v['key'] for v in bad]}))
        return 1 if bad else 0
    if 'u' in wit and 'key' not in wit:
        r = run_impl(ctx, 'quantile', [{'us': [float(wit['u']).hex()]}])[0]
        z = float.fromhex(r['z'][0]) if r.get('ok') else float('nan')
        k = classify_quantile(ref, float(wit['u']), z) if r.get('ok') else 'exception'
        print(json.dumps({'witness': wit, 'observed': z, 'as241': ref.ppnd16(float(wit['u'])), 'class': k, 'still_fails': bool(k)}))
        return 1 if k else 0
    if 'key' in wit and 'sample_size' in wit:
        recs = {r['key']: (i, r) for i, r in enumerate(cat)}
        if wit['key'] not in recs:
            print('replay: unknown draw type', wit['key'])
            return 2
        ss, n = wit['sample_size'], wit['number_of_draws']
        cases = [{'key': r['key'], 'k': i, 'ss': ss, 'n': n, 'seed': wit.get('seed', 1)} for i, r in enumerate(cat)]
        res = run_impl(ctx, 'types', cases)
        peers = {c['key']: r for c, r in zip(cases, res)}
        i, rec = recs[wit['key']]
        oracle_type_case(ctx, rep, ref, rec, cases[i], res[i], peers)
        if 'other' in wit and wit['other'] in recs:
            j, rec2 = recs[wit['other']]
            oracle_type_case(ctx, rep, ref, rec2, cases[j], res[j], peers)
        bad = [v for v in ctx.violations]
        print(json.dumps({'witness': wit, 'still_fails': bool(bad), 'violations': [v['key'] for v in bad],
                          'known_findings': [k['key'] for k in ctx.known_hits]}))
        return 1 if bad else 0
    if 'base' in wit and 'skip' in wit:
        c = {k: wit[k] for k in ('ss', 'n', 'base', 'skip', 'symmetric', 'shuffled', 'seed')}
        r = run_impl(ctx, 'halton', [c])[0]
        bad = True
        if r.get('ok') and r.get('rows') is not None and not c['shuffled']:
            flat = [x for row in r['rows'] for x in row]
            tol = halton_tol(c['base'], len(flat) + c['skip'] + 1)
            tol = sym_tol(tol) if c['symmetric'] else tol
            want = [radical_inverse(c['base'], j + c['skip'] + 1) for j in range(len(flat))]
            want = [2 * x - 1 for x in want] if c['symmetric'] else want
            bad = r['shape'] != [c['ss'], c['n']] or any(abs(F(a) - b) > tol for a, b in zip(flat, want))
        print(json.dumps({'witness': c, 'still_fails': bad}))
        return 1 if bad else 0
    print('replay: this file names an obligation/stream or an unsupported witness; re-run ./check C11')
    return 2
