"""placeholder (replaced below)"""


def gen_pack(ctx):
    pass


def stream_pack(ctx):
    pass
