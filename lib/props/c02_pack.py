"""C02, tie A: Gen/Pack.v is regenerated on every run from the small pure pieces that package the outputs of a
derivative calculation:

    idmanager.expressions_names_indices              -> expressions_names_indices
    function_output.convert_to_dict                  -> convert_to_dict
    BiogemeDisaggregateFunctionOutput.unique_entry   -> unique_entry
    calculator.calculate_function_and_derivatives    -> engine_flags, select   (what follows getResults())
    Expression.get_value_and_derivatives             -> gvd_refuses, gvd_flags
    BIOGEME.calculate_likelihood_and_derivatives     -> clad_literal_ids, clad_scale
    Named*FunctionOutput.__init__                    -> named_vector, named_matrix (+ which fields use which)

A specialised, fail-closed extractor: the statement skeleton of each function is pattern-matched (anything else raises
Untranslatable = broken tie) and every expression in it (tests, indices, operators, operands, keyword wiring) is
translated by the typed mini-translator below, so a semantic edit of the source changes the generated definition and
breaks a proof of Proofs/PackP.v.

Stream `pack`: the generated functions are evaluated by vm_compute on symbolic tokens / integers and compared with what
the Python wrappers return for engine results replaced by tagged arrays."""
import ast
import json

from py2v import Untranslatable
from common import REPO, coq_string, coq_list, coq_bool, parse_bools


def U(n):
    return ast.unparse(n)


def need(c, msg):
    if not c:
        raise Untranslatable(msg)


# ----------------------------------------------------------------------------------------- types
# ('Z',) ('bool',) ('R',) ('string',) ('none',) ('tok', name) ('list', T) ('opt', T) ('dict', T) ('pair', A, B) ('vec',) ('mat',)
def ty(t):
    k = t[0]
    if k in ('Z', 'bool', 'R', 'string', 'vec', 'mat'):
        return k
    if k == 'tok':
        return t[1]
    if k == 'list':
        return f'(list {ty(t[1])})'
    if k == 'opt':
        return f'(option {ty(t[1])})'
    if k == 'dict':
        return f'(list (string * {ty(t[1])}))'
    if k == 'pair':
        return f'({ty(t[1])} * {ty(t[2])})'
    raise Untranslatable(f'no Gallina type for {t}')


class Mini:
    """typed translator of the expression subset used by the packaging code"""

    def __init__(self, what, defaults=None, calls=None):
        self.what = what
        self.defaults = defaults or {}
        self.calls = calls or {}
        self.fresh = 0

    def fail(self, node, msg):
        raise Untranslatable(f'{self.what}:{getattr(node, "lineno", "?")}: {msg}: {U(node)[:100]!r}')

    def default(self, t, node):
        if t[0] == 'opt':
            return 'None'
        if t[0] == 'R':
            return '0%R'
        if t[0] == 'Z':
            return '0%Z'
        if t[0] in ('list', 'dict', 'vec', 'mat'):
            return '[]'
        if t in self.defaults:
            return self.defaults[t]
        self.fail(node, f'no default value for {t}')

    def dotted(self, n):
        if isinstance(n, ast.Name):
            return n.id
        if isinstance(n, ast.Attribute):
            b = self.dotted(n.value)
            return None if b is None else b + '.' + n.attr
        return None

    def is_none_test(self, n):
        """(X, positive?) for `X is not None` / `X is None`"""
        if isinstance(n, ast.Compare) and len(n.ops) == 1 and isinstance(n.comparators[0], ast.Constant) \
                and n.comparators[0].value is None and isinstance(n.ops[0], (ast.Is, ast.IsNot)):
            return n.left, isinstance(n.ops[0], ast.IsNot)
        return None

    def expr(self, n, env):
        if isinstance(n, ast.Constant):
            v = n.value
            if isinstance(v, bool):
                return ('true' if v else 'false'), ('bool',)
            if isinstance(v, int):
                return (f'{v}%Z' if v >= 0 else f'({v})%Z'), ('Z',)
            if v is None:
                return 'None', ('none',)
            self.fail(n, 'unsupported constant')
        d = self.dotted(n)
        if d is not None and isinstance(n, (ast.Name, ast.Attribute)):
            if d in env:
                return env[d]
            self.fail(n, f'unknown name {d}')
        if isinstance(n, ast.UnaryOp) and isinstance(n.op, ast.Not):
            c, t = self.expr(n.operand, env)
            need(t == ('bool',), f'{self.what}: `not` on {t}')
            return f'(negb {c})', ('bool',)
        if isinstance(n, ast.BoolOp):
            parts = []
            for v in n.values:
                c, t = self.expr(v, env)
                if t != ('bool',):
                    self.fail(v, f'truth value of {t}')
                parts.append(c)
            return '(' + (' && ' if isinstance(n.op, ast.And) else ' || ').join(parts) + ')', ('bool',)
        if isinstance(n, ast.Compare):
            if len(n.ops) != 1:
                self.fail(n, 'chained comparison')
            nt = self.is_none_test(n)
            if nt is not None:
                c, t = self.expr(nt[0], env)
                if t[0] != 'opt':
                    self.fail(n, f'`is None` on {t}')
                return (f'(isSome {c})' if nt[1] else f'(negb (isSome {c}))'), ('bool',)
            a, ta = self.expr(n.left, env)
            b, tb = self.expr(n.comparators[0], env)
            op = type(n.ops[0])
            if ta == ('Z',) and tb == ('Z',):
                tbl = {ast.Eq: '=?', ast.Lt: '<?', ast.LtE: '<=?', ast.Gt: '>?', ast.GtE: '>=?'}
                if op is ast.NotEq:
                    return f'(negb ({a} =? {b})%Z)', ('bool',)
                if op not in tbl:
                    self.fail(n, 'unsupported comparison')
                return f'({a} {tbl[op]} {b})%Z', ('bool',)
            if ta == ('R',) and tb in (('R',), ('Z',)) and op in (ast.Eq, ast.NotEq):
                bb = b if tb == ('R',) else f'(IZR {b})'
                return (f'(Reqb {a} {bb})' if op is ast.Eq else f'(negb (Reqb {a} {bb}))'), ('bool',)
            self.fail(n, f'comparison of {ta} and {tb}')
        if isinstance(n, ast.IfExp):
            # flow typing: `E(X) if X is not None else None` / `None if X is None else E(X)`
            nt = self.is_none_test(n.test)
            if nt is not None:
                xs, positive = nt
                some_branch, none_branch = (n.body, n.orelse) if positive else (n.orelse, n.body)
                if isinstance(none_branch, ast.Constant) and none_branch.value is None:
                    xd = self.dotted(xs)
                    cx, tx = self.expr(xs, env)
                    if tx[0] != 'opt' or xd is None:
                        self.fail(n, f'`is None` on {tx}')
                    self.fresh += 1
                    v = f'some_{self.fresh}'
                    env2 = dict(env)
                    env2[xd] = (v, tx[1])
                    cb, tb = self.expr(some_branch, env2)
                    return f'(match {cx} with Some {v} => Some {cb} | None => None end)', ('opt', tb)
            c, tc = self.expr(n.test, env)
            if tc != ('bool',):
                self.fail(n.test, f'truth value of {tc}')
            a, ta = self.expr(n.body, env)
            b, tb = self.expr(n.orelse, env)
            if ta == tb:
                return f'(if {c} then {a} else {b})', ta
            if tb == ('none',) and ta[0] != 'opt':
                return f'(if {c} then Some {a} else None)', ('opt', ta)
            if ta == ('none',) and tb[0] != 'opt':
                return f'(if {c} then None else Some {b})', ('opt', tb)
            if tb == ('none',) and ta[0] == 'opt':
                return f'(if {c} then {a} else None)', ta
            if ta == ('none',) and tb[0] == 'opt':
                return f'(if {c} then None else {b})', tb
            self.fail(n, f'branches of types {ta} and {tb}')
        if isinstance(n, ast.Subscript):
            a, ta = self.expr(n.value, env)
            i, ti = self.expr(n.slice, env)
            if ta[0] != 'list' or ti != ('Z',):
                self.fail(n, f'subscript {ta}[{ti}]')
            return f'(py_index {self.default(ta[1], n)} {a} {i})', ta[1]
        if isinstance(n, ast.BinOp) and isinstance(n.op, ast.Div):
            a, ta = self.expr(n.left, env)
            b, tb = self.expr(n.right, env)
            if tb != ('R',):
                self.fail(n, f'division by {tb}')
            if ta == ('R',):
                return f'({a} / {b})%R', ('R',)
            if ta == ('vec',):
                return f'(vdiv {a} {b})', ta
            if ta == ('mat',):
                return f'(mdiv {a} {b})', ta
            self.fail(n, f'division of {ta}')
        if isinstance(n, ast.Call):
            f = self.dotted(n.func)
            if f in self.calls:
                return self.calls[f](self, n, env)
            if f == 'len' and len(n.args) == 1 and not n.keywords:
                a, ta = self.expr(n.args[0], env)
                if ta[0] not in ('list', 'dict', 'vec', 'mat'):
                    self.fail(n, f'len of {ta}')
                return f'(Z.of_nat (List.length {a}))', ('Z',)
            if f == 'float' and len(n.args) == 1 and not n.keywords:
                a, ta = self.expr(n.args[0], env)
                if ta == ('Z',):
                    return f'(IZR {a})', ('R',)
                if ta == ('R',) or ta[0] == 'tok':
                    return a, ta          # float() of a numpy double is the same number
                self.fail(n, f'float of {ta}')
            if f == 'np.asarray' and len(n.args) == 1 and not n.keywords:
                return self.expr(n.args[0], env)
            if f == 'sorted' and len(n.args) == 1 and not n.keywords:
                a, ta = self.expr(n.args[0], env)
                if ta != ('list', ('string',)):
                    self.fail(n, f'sorted of {ta}')
                return f'(sorted_names {a})', ta
            if f == 'enumerate' and len(n.args) == 1 and not n.keywords:
                a, ta = self.expr(n.args[0], env)
                if ta[0] != 'list':
                    self.fail(n, f'enumerate of {ta}')
                return f'(enumerate {a})', ('list', ('pair', ('Z',), ta[1]))
            if f == 'any' and len(n.args) == 1 and isinstance(n.args[0], ast.GeneratorExp) and not n.keywords:
                g = n.args[0]
                if len(g.generators) != 1 or g.generators[0].ifs or not isinstance(g.generators[0].target, ast.Name):
                    self.fail(n, 'unsupported generator')
                it, tit = self.expr(g.generators[0].iter, env)
                if tit[0] != 'list':
                    self.fail(n, f'any over {tit}')
                v = g.generators[0].target.id
                env2 = dict(env)
                env2[v] = (v, tit[1])
                c, tc = self.expr(g.elt, env2)
                if tc != ('bool',):
                    self.fail(n, f'any of {tc}')
                return f'(existsb (fun {v} => {c}) {it})', ('bool',)
            if isinstance(n.func, ast.Attribute) and n.func.attr in ('values', 'items') and not n.args and not n.keywords:
                a, ta = self.expr(n.func.value, env)
                if ta[0] != 'dict':
                    self.fail(n, f'.{n.func.attr}() of {ta}')
                if n.func.attr == 'values':
                    return f'(dict_values {a})', ('list', ta[1])
                return f'(dict_items {a})', ('list', ('pair', ('string',), ta[1]))
            self.fail(n, f'call to {f}')
        if isinstance(n, (ast.ListComp, ast.DictComp)):
            if len(n.generators) != 1 or n.generators[0].ifs:
                self.fail(n, 'unsupported comprehension')
            g = n.generators[0]
            it, tit = self.expr(g.iter, env)
            if tit[0] != 'list':
                self.fail(n, f'comprehension over {tit}')
            env2 = dict(env)
            if isinstance(g.target, ast.Name):
                pat = g.target.id
                env2[pat] = (pat, tit[1])
            elif isinstance(g.target, ast.Tuple) and tit[1][0] == 'pair' and len(g.target.elts) == 2 \
                    and all(isinstance(e, ast.Name) for e in g.target.elts):
                a_, b_ = g.target.elts[0].id, g.target.elts[1].id
                pat = f"'({a_}, {b_})"
                env2[a_] = (a_, tit[1][1])
                env2[b_] = (b_, tit[1][2])
            else:
                self.fail(n, 'unsupported comprehension target')
            if isinstance(n, ast.ListComp):
                c, tc = self.expr(n.elt, env2)
                return f'(List.map (fun {pat} => {c}) {it})', ('list', tc)
            k, tk = self.expr(n.key, env2)
            v, tv = self.expr(n.value, env2)
            if tk != ('string',):
                self.fail(n, f'dict key of type {tk}')
            return f'(List.map (fun {pat} => ({k}, {v})) {it})', ('dict', tv)
        self.fail(n, f'unsupported expression {type(n).__name__}')


# ----------------------------------------------------------------------------------------- helpers on the source
def parse(rel):
    try:
        return ast.parse((REPO / rel).read_text())
    except Exception as e:  # noqa
        raise Untranslatable(f'{rel}: cannot read / parse: {e}')


def find(tree, qual, rel):
    body = tree.body
    node = None
    for p in qual.split('.'):
        node = next((n for n in body if isinstance(n, (ast.FunctionDef, ast.ClassDef)) and n.name == p), None)
        need(node is not None, f'{rel}: {qual} not found')
        body = node.body
    return node


def stmts(fd):
    """body without docstrings / logging / pass"""
    out = []
    for s in fd.body:
        if isinstance(s, ast.Expr) and isinstance(s.value, ast.Constant) and isinstance(s.value.value, str):
            continue
        if isinstance(s, ast.Pass):
            continue
        if isinstance(s, ast.Expr) and isinstance(s.value, ast.Call) and (U(s.value.func).startswith('logger.')):
            continue
        out.append(s)
    return out


def argnames(fd):
    need(not fd.args.vararg and not fd.args.kwarg and not fd.args.kwonlyargs, f'{fd.name}: unexpected signature')
    return [a.arg for a in fd.args.args]


def kwargs_of(call, names, what):
    need(isinstance(call, ast.Call) and not call.args, f'{what}: positional arguments')
    kw = {k.arg: k.value for k in call.keywords}
    need(sorted(kw) == sorted(names), f'{what}: keywords {sorted(kw)} (expected {sorted(names)})')
    return kw


def raises(body, exc):
    return bool(body) and isinstance(body[-1], ast.Raise) and body[-1].exc is not None and exc in U(body[-1].exc) \
        and all(isinstance(s, (ast.Assign, ast.Raise)) or (isinstance(s, ast.Expr) and U(s.value).startswith('logger.')) for s in body)


# ----------------------------------------------------------------------------------------- the extractors
def gen_names_indices():
    rel = 'src/biogeme/expressions/idmanager.py'
    fd = find(parse(rel), 'expressions_names_indices', rel)
    need(argnames(fd) == ['dict_of_elements'], 'expressions_names_indices: signature changed')
    b = stmts(fd)
    need(len(b) == 4, f'expressions_names_indices: {len(b)} statements, expected 4')
    m = Mini('expressions_names_indices')
    env = {'dict_of_elements': ('dict_of_elements', ('list', ('string',)))}    # iterating / sorting a dict = its keys
    need(isinstance(b[0], ast.Assign) and U(b[0].targets[0]) == 'indices' and isinstance(b[0].value, ast.Dict) and not b[0].value.keys,
         'expressions_names_indices: `indices` does not start empty')
    need(isinstance(b[1], ast.Assign) and U(b[1].targets[0]) == 'names', 'expressions_names_indices: `names` assignment changed')
    names_c, names_t = m.expr(b[1].value, env)
    need(names_t == ('list', ('string',)), 'expressions_names_indices: names is not a list of strings')
    env['names'] = ('names', names_t)
    lp = b[2]
    need(isinstance(lp, ast.For) and not lp.orelse and isinstance(lp.target, ast.Tuple) and len(lp.target.elts) == 2
         and all(isinstance(e, ast.Name) for e in lp.target.elts) and len(lp.body) == 1, 'expressions_names_indices: loop changed')
    it_c, it_t = m.expr(lp.iter, env)
    need(it_t[0] == 'list' and it_t[1][0] == 'pair', 'expressions_names_indices: loop does not iterate over pairs')
    a_, b_ = lp.target.elts[0].id, lp.target.elts[1].id
    env2 = dict(env)
    env2[a_] = (a_, it_t[1][1])
    env2[b_] = (b_, it_t[1][2])
    st = lp.body[0]
    need(isinstance(st, ast.Assign) and isinstance(st.targets[0], ast.Subscript) and U(st.targets[0].value) == 'indices',
         'expressions_names_indices: loop body is not indices[..] = ..')
    k_c, k_t = m.expr(st.targets[0].slice, env2)
    v_c, v_t = m.expr(st.value, env2)
    need(k_t == ('string',) and v_t == ('Z',), f'expressions_names_indices: indices[{k_t}] = {v_t}')
    rt = b[3]
    need(isinstance(rt, ast.Return) and isinstance(rt.value, ast.Call) and U(rt.value.func) == 'ElementsTuple', 'expressions_names_indices: return changed')
    kw = kwargs_of(rt.value, ['expressions', 'indices', 'names'], 'ElementsTuple')
    env['indices'] = ('indices', ('dict', ('Z',)))
    need(U(kw['expressions']) == 'dict_of_elements', 'expressions_names_indices: expressions field changed')
    ri_c, ri_t = m.expr(kw['indices'], env)
    rn_c, rn_t = m.expr(kw['names'], env)
    need(ri_t == ('dict', ('Z',)) and rn_t == ('list', ('string',)), 'expressions_names_indices: result types changed')
    return (f'(* from {rel}:{fd.lineno} expressions_names_indices (a dict is given by the list of its keys) *)\n'
            'Definition expressions_names_indices (dict_of_elements : list string) : list (string * Z) * list string :=\n'
            '  let indices : list (string * Z) := [] in\n'
            f'  let names := {names_c} in\n'
            f"  let indices := fold_left (fun indices '({a_}, {b_}) => dict_set indices {k_c} {v_c}) {it_c} indices in\n"
            f'  ({ri_c}, {rn_c}).\n')


def gen_convert_to_dict():
    rel = 'src/biogeme/function_output.py'
    fd = find(parse(rel), 'convert_to_dict', rel)
    need(argnames(fd) == ['the_sequence', 'the_map'], 'convert_to_dict: signature changed')
    b = stmts(fd)
    need(len(b) == 3 and isinstance(b[0], ast.If) and not b[0].orelse and raises(b[0].body, 'IndexError'), 'convert_to_dict: range check changed')
    m = Mini('convert_to_dict', defaults={('tok', 'A'): 'd'})
    env = {'the_sequence': ('the_sequence', ('list', ('tok', 'A'))), 'the_map': ('the_map', ('dict', ('Z',)))}
    t_c, t_t = m.expr(b[0].test, env)
    need(t_t == ('bool',), 'convert_to_dict: test is not boolean')
    need(isinstance(b[1], ast.Assign) and U(b[1].targets[0]) == 'result' and isinstance(b[2], ast.Return) and U(b[2].value) == 'result',
         'convert_to_dict: result construction changed')
    r_c, r_t = m.expr(b[1].value, env)
    need(r_t == ('dict', ('tok', 'A')), f'convert_to_dict: result has type {r_t}')
    return (f'(* from {rel}:{fd.lineno} convert_to_dict (None = IndexError) *)\n'
            'Definition convert_to_dict {A} (d : A) (the_sequence : list A) (the_map : list (string * Z)) : option (list (string * A)) :=\n'
            f'  if {t_c} then None\n  else let result := {r_c} in Some result.\n')


AGG_FIELDS = ['function', 'gradient', 'hessian', 'bhhh']
DIS_FIELDS = ['functions', 'gradients', 'hessians', 'bhhhs']
TF, TG, TH = ('tok', 'F'), ('tok', 'G'), ('tok', 'H')
DEFAULTS = {TF: 'dF', TG: 'dG', TH: 'dH'}


def gen_unique_entry():
    rel = 'src/biogeme/function_output.py'
    tree = parse(rel)
    ln = find(tree, 'BiogemeDisaggregateFunctionOutput.__len__', rel)
    lb = stmts(ln)
    need(len(lb) == 1 and isinstance(lb[0], ast.Return), '__len__ changed')
    fd = find(tree, 'BiogemeDisaggregateFunctionOutput.unique_entry', rel)
    b = stmts(fd)
    need(len(b) == 2 and isinstance(b[0], ast.If) and not b[0].orelse and len(b[0].body) == 1 and isinstance(b[0].body[0], ast.Return)
         and isinstance(b[1], ast.Return) and U(b[1].value) == 'None', 'unique_entry: shape changed')
    env = {'self.functions': ('functions', ('list', TF)), 'self.gradients': ('gradients', ('opt', ('list', TG))),
           'self.hessians': ('hessians', ('opt', ('list', TH))), 'self.bhhhs': ('bhhhs', ('opt', ('list', TH)))}

    def len_self(mm, n, e):
        need(len(n.args) == 1 and U(n.args[0]) == 'self', 'unique_entry: len of something else than self')
        return mm.expr(lb[0].value, e)
    m = Mini('unique_entry', defaults=DEFAULTS)
    base_len = Mini.expr

    def call_len(mm, n, e):
        if len(n.args) == 1 and U(n.args[0]) == 'self':
            return len_self(mm, n, e)
        a, ta = mm.expr(n.args[0], e)
        need(ta[0] == 'list', 'len of a non-list')
        return f'(Z.of_nat (List.length {a}))', ('Z',)
    m.calls['len'] = call_len
    t_c, t_t = m.expr(b[0].test, env)
    need(t_t == ('bool',), 'unique_entry: test is not boolean')
    call = b[0].body[0].value
    need(isinstance(call, ast.Call) and U(call.func) == 'BiogemeFunctionOutput', 'unique_entry: does not build a BiogemeFunctionOutput')
    kw = kwargs_of(call, AGG_FIELDS, 'unique_entry')
    parts = []
    for fld, want in zip(AGG_FIELDS, (TF, ('opt', TG), ('opt', TH), ('opt', TH))):
        c, t = m.expr(kw[fld], env)
        need(t == want, f'unique_entry: field {fld} has type {t}, expected {want}')
        parts.append(c)
    return (f'(* from {rel}:{fd.lineno} BiogemeDisaggregateFunctionOutput.unique_entry *)\n'
            'Definition unique_entry {F G H} (dF : F) (dG : G) (dH : H) (functions : list F) (gradients : option (list G))\n'
            '    (hessians bhhhs : option (list H)) : option (F * option G * option H * option H) :=\n'
            f'  if {t_c} then Some ({", ".join(parts)}) else None.\n')


def gen_select():
    rel = 'src/biogeme/expressions/calculator.py'
    fd = find(parse(rel), 'calculate_function_and_derivatives', rel)
    need(argnames(fd) == ['the_expression', 'database', 'calculate_gradient', 'calculate_hessian', 'calculate_bhhh', 'aggregation'],
         'calculate_function_and_derivatives: signature changed')
    b = stmts(fd)
    idx = [i for i, s in enumerate(b) if isinstance(s, ast.Assign) and U(s.value) == 'the_cpp.getResults()']
    need(len(idx) == 1, 'calculate_function_and_derivatives: getResults() call not found')
    i0 = idx[0]
    need(U(b[i0].targets[0]).replace('(', '').replace(')', '') == 'f, g, h, b', 'calculate_function_and_derivatives: getResults() unpacked differently')
    # the call that computes
    calc = b[i0 - 1]
    need(isinstance(calc, ast.Expr) and isinstance(calc.value, ast.Call) and U(calc.value.func) == 'the_cpp.calculate', 'the_cpp.calculate(...) not found before getResults()')
    ckw = kwargs_of(calc.value, ['gradient', 'hessian', 'bhhh', 'aggregation'], 'the_cpp.calculate')
    flags = {'calculate_gradient': ('calculate_gradient', ('bool',)), 'calculate_hessian': ('calculate_hessian', ('bool',)),
             'calculate_bhhh': ('calculate_bhhh', ('bool',)), 'aggregation': ('aggregation', ('bool',))}
    m = Mini('calculate_function_and_derivatives', defaults=DEFAULTS)
    fl = []
    for k in ('gradient', 'hessian', 'bhhh', 'aggregation'):
        c, t = m.expr(ckw[k], flags)
        need(t == ('bool',), 'engine flag is not boolean')
        fl.append(c)
    tail = b[i0 + 1:]
    need(len(tail) == 9, f'calculate_function_and_derivatives: {len(tail)} statements after getResults(), expected 9')
    env = dict(flags)
    env.update({'f': ('f', ('list', TF)), 'g': ('g', ('list', TG)), 'h': ('h', ('list', TH)), 'b': ('b', ('list', TH)),
                'database': ('database', ('opt', ('tok', 'unit')))})
    lets = []
    for s, nm, want in zip(tail[:3], ('gres', 'hres', 'bhhhres'), (TG, TH, TH)):
        need(isinstance(s, ast.Assign) and U(s.targets[0]) == nm, f'calculate_function_and_derivatives: expected assignment of {nm}')
        c, t = m.expr(s.value, env)
        need(t == ('opt', ('list', want)), f'{nm} has type {t}')
        env[nm] = (nm, t)
        lets.append(f'  let {nm} := {c} in\n')
    ag = tail[3]
    need(isinstance(ag, ast.If) and not ag.orelse and len(ag.body) == 2 and isinstance(ag.body[0], ast.Assign) and U(ag.body[0].targets[0]) == 'result'
         and isinstance(ag.body[1], ast.Return) and U(ag.body[1].value) == 'BiogemeFunctionOutputSmartOutputProxy(result)', 'aggregated branch changed')
    a_c, a_t = m.expr(ag.test, env)
    need(a_t == ('bool',), 'aggregation test is not boolean')
    call = ag.body[0].value
    need(isinstance(call, ast.Call) and U(call.func) == 'BiogemeFunctionOutput', 'aggregated branch does not build a BiogemeFunctionOutput')
    kw = kwargs_of(call, AGG_FIELDS, 'aggregated BiogemeFunctionOutput')
    aparts = []
    for fld, want in zip(AGG_FIELDS, (TF, ('opt', TG), ('opt', TH), ('opt', TH))):
        c, t = m.expr(kw[fld], env)
        need(t == want, f'aggregated field {fld} has type {t}, expected {want}')
        aparts.append(c)
    ds = tail[4]
    need(isinstance(ds, ast.Assign) and U(ds.targets[0]) == 'disaggregate_result' and isinstance(ds.value, ast.Call)
         and U(ds.value.func) == 'BiogemeDisaggregateFunctionOutput', 'disaggregate record changed')
    kw = kwargs_of(ds.value, DIS_FIELDS, 'BiogemeDisaggregateFunctionOutput')
    dparts = []
    for fld, want in zip(DIS_FIELDS, (('list', TF), ('opt', ('list', TG)), ('opt', ('list', TH)), ('opt', ('list', TH)))):
        c, t = m.expr(kw[fld], env)
        need(t == want, f'disaggregate field {fld} has type {t}, expected {want}')
        dparts.append(c)
    db = tail[5]
    need(isinstance(db, ast.If) and not db.orelse and len(db.body) == 1 and isinstance(db.body[0], ast.Return)
         and U(db.body[0].value) == 'BiogemeDisaggregateFunctionOutputSmartOutputProxy(disaggregate_result)', 'per-observation return changed')
    d_c, d_t = m.expr(db.test, env)
    need(d_t == ('bool',), 'database test is not boolean')
    need(U(tail[6]) == 'result = disaggregate_result.unique_entry()', 'unique_entry call changed')
    need(isinstance(tail[7], ast.If) and U(tail[7].test) == 'result is None' and not tail[7].orelse and raises(tail[7].body, 'BiogemeError'),
         'refusal of several entries without database changed')
    need(U(tail[8]) == 'return BiogemeFunctionOutputSmartOutputProxy(result)', 'final return changed')
    return (f'(* from {rel}:{calc.lineno} calculate_function_and_derivatives: flags handed to the engine *)\n'
            'Definition engine_flags (calculate_gradient calculate_hessian calculate_bhhh aggregation : bool) : bool * bool * bool * bool :=\n'
            f'  ({", ".join(fl)}).\n'
            f'(* from {rel}:{b[i0].lineno} calculate_function_and_derivatives: what is returned from the engine results (f, g, h, b) *)\n'
            'Definition select {F G H} (dF : F) (dG : G) (dH : H) (calculate_gradient calculate_hessian calculate_bhhh aggregation : bool)\n'
            '    (database : option unit) (f : list F) (g : list G) (h b : list H) : pack_result F G H :=\n'
            + ''.join(lets) +
            f'  if {a_c} then RAgg ({", ".join(aparts)})\n'
            f'  else let disaggregate_result := ({", ".join(dparts)}) in\n'
            f'  if {d_c} then RDis disaggregate_result\n'
            "  else let '(fs_, gs_, hs_, bs_) := disaggregate_result in\n"
            '       match unique_entry dF dG dH fs_ gs_ hs_ bs_ with Some result => RAgg result | None => RErr end.\n')


def gen_gvd():
    rel = 'src/biogeme/expressions/base_expressions.py'
    fd = find(parse(rel), 'Expression.get_value_and_derivatives', rel)
    need(argnames(fd) == ['self', 'betas', 'database', 'number_of_draws', 'gradient', 'hessian', 'bhhh', 'aggregation', 'prepare_ids', 'named_results'],
         'get_value_and_derivatives: signature changed')
    b = stmts(fd)
    flags = {k: (k, ('bool',)) for k in ('gradient', 'hessian', 'bhhh', 'aggregation')}
    m = Mini('get_value_and_derivatives')
    refusals = [s for s in b if isinstance(s, ast.If) and not s.orelse and raises(s.body, 'BiogemeError')
                and any(isinstance(x, ast.Name) and x.id in ('gradient', 'hessian', 'bhhh') for x in ast.walk(s.test))]
    need(len(refusals) == 1, f'get_value_and_derivatives: {len(refusals)} refusals on the derivative flags, expected 1')
    r_c, r_t = m.expr(refusals[0].test, flags)
    need(r_t == ('bool',), 'refusal test is not boolean')
    calls = [s for s in b if isinstance(s, ast.Assign) and isinstance(s.value, ast.Call) and U(s.value.func) == 'calculate_function_and_derivatives']
    need(len(calls) == 1 and U(calls[0].targets[0]) == 'results', 'get_value_and_derivatives: call to calculate_function_and_derivatives changed')
    need(b.index(refusals[0]) < b.index(calls[0]), 'get_value_and_derivatives: the refusal comes after the calculation')
    kw = kwargs_of(calls[0].value, ['the_expression', 'database', 'calculate_gradient', 'calculate_hessian', 'calculate_bhhh', 'aggregation'],
                   'calculate_function_and_derivatives')
    need(U(kw['the_expression']) == 'self' and U(kw['database']) == 'database', 'get_value_and_derivatives: expression / database not passed on')
    fl = []
    for k in ('calculate_gradient', 'calculate_hessian', 'calculate_bhhh', 'aggregation'):
        c, t = m.expr(kw[k], flags)
        need(t == ('bool',), 'flag is not boolean')
        fl.append(c)
    # the flags are not reassigned before the call
    for s in b[:b.index(calls[0])]:
        for x in ast.walk(s):
            if isinstance(x, ast.Name) and isinstance(x.ctx, ast.Store) and x.id in flags:
                raise Untranslatable(f'get_value_and_derivatives: flag {x.id} is reassigned')
    # named results: both wrappers receive the free-parameter index map
    nm = [s for s in b if isinstance(s, ast.If) and U(s.test) == 'named_results']
    need(len(nm) == 1 and b.index(nm[0]) > b.index(calls[0]), 'get_value_and_derivatives: named_results branch changed')
    wraps = [x for x in ast.walk(nm[0]) if isinstance(x, ast.Call) and U(x.func) in ('NamedBiogemeFunctionOutput', 'NamedBiogemeDisaggregateFunctionOutput')]
    need(sorted(U(x.func) for x in wraps) == ['NamedBiogemeDisaggregateFunctionOutput', 'NamedBiogemeFunctionOutput'], 'named wrappers changed')
    for x in wraps:
        k2 = kwargs_of(x, ['function_output', 'mapping'], U(x.func))
        need(U(k2['function_output']) == 'results' and U(k2['mapping']) == 'self.id_manager.free_betas.indices',
             'named wrapper does not receive (results, free_betas.indices)')
    rets = [s for s in b if isinstance(s, ast.Return)]
    need(len(rets) == 1 and U(rets[0].value) == 'results' and b[-1] is rets[0], 'get_value_and_derivatives: does not return `results`')
    return (f'(* from {rel}:{refusals[0].lineno} Expression.get_value_and_derivatives: the request refused with BiogemeError *)\n'
            f'Definition gvd_refuses (gradient hessian bhhh : bool) : bool := {r_c}.\n'
            f'(* from {rel}:{calls[0].lineno}: flags handed to calculate_function_and_derivatives *)\n'
            'Definition gvd_flags (gradient hessian bhhh aggregation : bool) : bool * bool * bool * bool :=\n'
            f'  ({", ".join(fl)}).\n')


def gen_clad():
    rel = 'src/biogeme/biogeme.py'
    fd = find(parse(rel), 'BIOGEME.calculate_likelihood_and_derivatives', rel)
    need(argnames(fd) == ['self', 'x', 'scaled', 'hessian', 'bhhh', 'batch'], 'calculate_likelihood_and_derivatives: signature changed')
    b = stmts(fd)
    calls = [s for s in b if isinstance(s, ast.Assign) and isinstance(s.value, ast.Call) and U(s.value.func) == 'self.theC.calculateLikelihoodAndDerivatives']
    need(len(calls) == 1 and U(calls[0].targets[0]).replace('(', '').replace(')', '') == 'f, g, h, bh', 'engine call changed')
    args = calls[0].value.args
    need(len(args) == 8 and not calls[0].value.keywords, 'engine call: number of arguments changed')
    need([U(a) for a in args[:2]] == ['x', 'self.id_manager.fixed_betas_values'] and [U(a) for a in args[3:]] == ['g', 'h', 'bh', 'hessian', 'bhhh'],
         'engine call: arguments changed: ' + ', '.join(U(a) for a in args))
    m = Mini('calculate_likelihood_and_derivatives')
    ids_c, ids_t = m.expr(args[2], {'self.id_manager.free_betas.indices': ('indices', ('dict', ('Z',)))})
    need(ids_t == ('list', ('Z',)), 'literal ids are not a list of integers')
    i0 = b.index(calls[0])
    for s in b[i0 + 1:]:
        for x in ast.walk(s):
            if isinstance(x, ast.Name) and isinstance(x.ctx, ast.Store) and x.id in ('f', 'g', 'h', 'bh', 'scaled'):
                raise Untranslatable(f'calculate_likelihood_and_derivatives: {x.id} is reassigned after the engine call')
    sc = [s for s in b[i0 + 1:] if isinstance(s, ast.If) and U(s.test) == 'scaled']
    need(len(sc) == 1 and not sc[0].orelse and b.index(sc[0]) == len(b) - 3, 'scaling branch changed')
    sb = sc[0].body
    need(len(sb) == 4 and U(sb[0].targets[0]) == 'sample_size' and isinstance(sb[1], ast.If) and not sb[1].orelse and raises(sb[1].body, 'BiogemeError')
         and isinstance(sb[2], ast.Assign) and U(sb[2].targets[0]) == 'result' and U(sb[3]) == 'return BiogemeFunctionOutputSmartOutputProxy(result)',
         'scaling branch: statements changed')
    env = {'f': ('f', ('R',)), 'g': ('g', ('vec',)), 'h': ('h', ('mat',)), 'bh': ('bh', ('mat',))}

    def sample(mm, n, e):
        need(not n.args and not n.keywords, 'get_sample_size with arguments')
        return 'n_obs', ('Z',)
    m.calls['self.database.get_sample_size'] = sample
    ss_c, ss_t = m.expr(sb[0].value, env)
    need(ss_t == ('R',), 'sample size is not converted to float')
    env['sample_size'] = ('sample_size', ('R',))
    z_c, z_t = m.expr(sb[1].test, env)
    need(z_t == ('bool',), 'zero test is not boolean')

    def record(call, what):
        need(isinstance(call, ast.Call) and U(call.func) == 'BiogemeFunctionOutput', f'{what}: does not build a BiogemeFunctionOutput')
        kw = kwargs_of(call, AGG_FIELDS, what)
        parts = []
        for fld, want in zip(AGG_FIELDS, (('R',), ('vec',), ('mat',), ('mat',))):
            c, t = m.expr(kw[fld], env)
            need(t == want, f'{what}: field {fld} has type {t}')
            parts.append(c)
        return ', '.join(parts)
    scaled_rec = record(sb[2].value, 'scaled record')
    need(isinstance(b[-2], ast.Assign) and U(b[-2].targets[0]) == 'result' and U(b[-1]) == 'return BiogemeFunctionOutputSmartOutputProxy(result)',
         'unscaled return changed')
    plain_rec = record(b[-2].value, 'unscaled record')
    return (f'(* from {rel}:{calls[0].lineno} calculate_likelihood_and_derivatives: literal ids handed to the engine *)\n'
            f'Definition clad_literal_ids (indices : list (string * Z)) : list Z := {ids_c}.\n'
            f'(* from {rel}:{sc[0].lineno} calculate_likelihood_and_derivatives: scaling (None = BiogemeError) *)\n'
            'Definition clad_scale (scaled : bool) (n_obs : Z) (f : R) (g : vec) (h bh : mat) : option (R * vec * mat * mat) :=\n'
            f'  if scaled then\n    let sample_size := {ss_c} in\n    if {z_c} then None else Some ({scaled_rec})\n'
            f'  else Some ({plain_rec}).\n')


def gen_named():
    rel = 'src/biogeme/function_output.py'
    tree = parse(rel)
    out = []

    def conv(mm, n, e):
        need(len(n.args) == 2 and not n.keywords, 'convert_to_dict: arguments changed')
        a, ta = mm.expr(n.args[0], e)
        mp, tm = mm.expr(n.args[1], e)
        need(ta[0] == 'list' and tm == ('dict', ('Z',)), f'convert_to_dict({ta}, {tm})')
        return f'(convert_to_dict {mm.default(ta[1], n)} {a} {mp})', ('opt', ('dict', ta[1]))

    def fields(qual, base_env, targets):
        fd = find(tree, qual, rel)
        got = {}
        for s in ast.walk(fd):
            tgt = None
            if isinstance(s, ast.Assign) and len(s.targets) == 1:
                tgt = s.targets[0]
            elif isinstance(s, ast.AnnAssign) and s.value is not None:
                tgt = s.target
            if tgt is not None and U(tgt) in targets:
                need(U(tgt) not in got, f'{qual}: {U(tgt)} assigned twice')
                m = Mini(qual, defaults={('tok', 'A'): 'd'}, calls={'convert_to_dict': conv})
                got[U(tgt)] = m.expr(s.value, base_env)
        need(sorted(got) == sorted(targets), f'{qual}: fields {sorted(got)} (expected {sorted(targets)})')
        return got, fd.lineno
    R_ = ('tok', 'A')
    mapping = {'mapping': ('mapping', ('dict', ('Z',)))}
    env_agg = dict(mapping)
    env_agg.update({'function_output.gradient': ('gradient', ('opt', ('list', R_))), 'function_output.hessian': ('hessian', ('opt', ('list', ('list', R_)))),
                    'function_output.bhhh': ('bhhh', ('opt', ('list', ('list', R_))))})
    g1, l1 = fields('NamedFunctionOutput.__init__', env_agg, ['self.gradient', 'self.hessian'])
    g2, l2 = fields('NamedBiogemeFunctionOutput.__init__', env_agg, ['self.bhhh'])
    # NamedBiogemeFunctionOutput must delegate the first two to its parent
    sup = [U(s) for s in stmts(find(tree, 'NamedBiogemeFunctionOutput.__init__', rel))]
    need(sup and sup[0].replace(' ', '') == 'super().__init__(function_output=function_output,mapping=mapping)', 'NamedBiogemeFunctionOutput does not delegate to NamedFunctionOutput')
    tv = ('opt', ('opt', ('dict', R_)))
    tm = ('opt', ('opt', ('dict', ('opt', ('dict', R_)))))
    need(g1['self.gradient'][1] == tv and g1['self.hessian'][1] == tm and g2['self.bhhh'][1] == tm, 'named aggregated outputs: types changed')
    out.append(f'(* from {rel}:{l1} NamedFunctionOutput / :{l2} NamedBiogemeFunctionOutput (outer None = not asked, inner None = IndexError) *)\n'
               'Definition named_gradient {A} (d : A) (gradient : option (list A)) (mapping : list (string * Z)) := ' + g1['self.gradient'][0] + '.\n'
               'Definition named_hessian {A} (d : A) (hessian : option (list (list A))) (mapping : list (string * Z)) := ' + g1['self.hessian'][0] + '.\n'
               'Definition named_bhhh {A} (d : A) (bhhh : option (list (list A))) (mapping : list (string * Z)) := ' + g2['self.bhhh'][0] + '.\n')
    env_dis = dict(mapping)
    env_dis.update({'function_output.gradients': ('gradients', ('opt', ('list', ('list', R_)))),
                    'function_output.hessians': ('hessians', ('opt', ('list', ('list', ('list', R_))))),
                    'function_output.bhhhs': ('bhhhs', ('opt', ('list', ('list', ('list', R_)))))})
    g3, l3 = fields('NamedBiogemeDisaggregateFunctionOutput.__init__', env_dis, ['self.gradients', 'self.hessians', 'self.bhhhs'])
    out.append(f'(* from {rel}:{l3} NamedBiogemeDisaggregateFunctionOutput *)\n'
               'Definition named_gradients {A} (d : A) (gradients : option (list (list A))) (mapping : list (string * Z)) := ' + g3['self.gradients'][0] + '.\n'
               'Definition named_hessians {A} (d : A) (hessians : option (list (list (list A)))) (mapping : list (string * Z)) := ' + g3['self.hessians'][0] + '.\n'
               'Definition named_bhhhs {A} (d : A) (bhhhs : option (list (list (list A)))) (mapping : list (string * Z)) := ' + g3['self.bhhhs'][0] + '.\n')
    return ''.join(out)


def gen_pack_text():
    return ('From Coq Require Import Reals.\nFrom BV Require Import Model.PyBase Model.IdMgr Model.Pack.\nOpen Scope Z_scope.\n'
            + gen_names_indices() + gen_convert_to_dict() + gen_unique_entry() + gen_select() + gen_gvd() + gen_clad() + gen_named())


def gen_pack(ctx):
    ctx.gen('Pack', gen_pack_text())


# ----------------------------------------------------------------------------------------- stream pack
PACK_HEADER = (
    'From Coq Require Import ZArith List String Bool.\n'
    'From BV Require Import Model.PyBase Model.IdMgr Model.Pack Gen.Pack.\n'
    'Import ListNotations.\nOpen Scope Z_scope.\nOpen Scope string_scope.\n'
    'Fixpoint leqb {A} (eqb : A -> A -> bool) (a b : list A) : bool :=\n'
    '  match a, b with [], [] => true | x :: a\', y :: b\' => eqb x y && leqb eqb a\' b\' | _, _ => false end.\n'
    'Definition oeqb {A} (eqb : A -> A -> bool) (a b : option A) : bool :=\n'
    '  match a, b with Some x, Some y => eqb x y | None, None => true | _, _ => false end.\n'
    'Definition zl := leqb Z.eqb.\nDefinition zll := leqb zl.\nDefinition zlll := leqb zll.\n'
    'Definition seqb (a b : string * Z) : bool := String.eqb (fst a) (fst b) && Z.eqb (snd a) (snd b).\n'
    'Definition deqb := leqb seqb.\n'
    'Definition meqb := leqb (fun a b : string * option (list (string * Z)) => String.eqb (fst a) (fst b) && oeqb deqb (snd a) (snd b)).\n'
    'Definition agg_eqb (a b : Z * option (list Z) * option (list (list Z)) * option (list (list Z))) : bool :=\n'
    "  let '(f1, g1, h1, b1) := a in let '(f2, g2, h2, b2) := b in Z.eqb f1 f2 && oeqb zl g1 g2 && oeqb zll h1 h2 && oeqb zll b1 b2.\n"
    'Definition dis_eqb (a b : list Z * option (list (list Z)) * option (list (list (list Z))) * option (list (list (list Z)))) : bool :=\n'
    "  let '(f1, g1, h1, b1) := a in let '(f2, g2, h2, b2) := b in zl f1 f2 && oeqb zll g1 g2 && oeqb zlll h1 h2 && oeqb zlll b1 b2.\n"
    'Definition res_eqb (a b : pack_result Z (list Z) (list (list Z))) : bool :=\n'
    '  match a, b with RAgg x, RAgg y => agg_eqb x y | RDis x, RDis y => dis_eqb x y | RErr, RErr => true | _, _ => false end.\n'
    'Definition is_some_none {A} (o : option (option A)) : bool := match o with Some None => true | _ => false end.\n'
    'Definition bad_row {A} (o : option (list (option A))) : bool := match o with Some l => existsb (fun x => negb (isSome x)) l | None => false end.\n'
)


def cz(n):
    return f'({n})' if n < 0 else str(n)


def czl(l):
    return '[' + '; '.join(cz(x) for x in l) + ']'


def czll(l):
    return '[' + '; '.join(czl(x) for x in l) + ']'


def czlll(l):
    return '[' + '; '.join(czll(x) for x in l) + ']'


def copt(x, f):
    return 'None' if x is None else f'(Some {f(x)})'


def csl(l):
    return '[' + '; '.join(coq_string(x) for x in l) + ']'


def cdict(items):
    return '[' + '; '.join(f'({coq_string(k)}, {cz(v)})' for k, v in items) + ']'


def cmat(items):
    return '[' + '; '.join(f'({coq_string(k)}, Some {cdict(row)})' for k, row in items) + ']'


def tagged(n, k):
    f = [100 + r for r in range(n)]
    g = [[1000 * (r + 1) + i for i in range(k)] for r in range(n)]
    h = [[[100000 * (r + 1) + 100 * i + j for j in range(k)] for i in range(k)] for r in range(n)]
    b = [[[-x - 1 for x in row] for row in m] for m in h]
    return f, g, h, b


NAME_POOL = ['B_1', 'B_10', 'B_2', 'b', 'B', '_x', 'asc', 'ASC', 'a9', 'Zeta', 'zeta', 'mu', 'MU_1', 'beta', 'Beta', 'b_', 'b0', 'B0', 'aa', 'a', 'A', '0z', 'z0']


def pack_cases(rng, quick):
    cases = []
    for i in range(30 if quick else 300):
        ks = rng.sample(NAME_POOL, rng.randint(0, 8))
        cases.append({'kind': 'names', 'keys': ks})
    for i in range(40 if quick else 400):
        n = rng.randint(0, 6)
        seq = [rng.randint(-50, 50) for _ in range(n)]
        names = sorted(rng.sample(NAME_POOL, rng.randint(0, 7)))
        kind = rng.random()
        if kind < 0.35 and len(names) <= n:
            mp = [[nm, j] for j, nm in enumerate(names)]
        elif kind < 0.6 and n > 0:
            mp = [[nm, rng.randrange(n)] for nm in names]
        elif kind < 0.8:
            mp = [[nm, rng.choice([n, n + 1, -1, -2, 0, max(n - 1, 0)])] for nm in names]
        else:
            mp = [[nm, rng.randint(-2, n + 1)] for nm in names]
        rng.shuffle(mp)
        cases.append({'kind': 'convert', 'seq': seq, 'map': mp})
    for cg in (True, False):
        for ch in (True, False):
            for cb in (True, False):
                for agg in (True, False):
                    for db in (True, False):
                        for n in (1, 2, 3):
                            cases.append({'kind': 'select', 'cg': cg, 'ch': ch, 'cb': cb, 'agg': agg, 'db': db, 'n': n, 'k': rng.choice([1, 2, 3])})
    for n in (0, 1, 2, 3):
        for hg in (True, False):
            for hh in (True, False):
                for hb in (True, False):
                    cases.append({'kind': 'unique', 'n': n, 'k': rng.choice([1, 2]), 'hg': hg, 'hh': hh, 'hb': hb})
    for agg in (True, False):
        for hg in (True, False):
            for hh in (True, False):
                for hb in (True, False):
                    for variant in ('sorted', 'perm', 'bad'):
                        k = rng.choice([1, 2, 3])
                        names = rng.sample(NAME_POOL, k)
                        if variant == 'sorted':
                            mp = [[nm, j] for j, nm in enumerate(sorted(names))]
                        elif variant == 'perm':
                            idx = list(range(k))
                            rng.shuffle(idx)
                            mp = [[nm, j] for nm, j in zip(names, idx)]
                        else:
                            mp = [[nm, j] for j, nm in enumerate(sorted(names))]
                            mp[rng.randrange(k)][1] = rng.choice([k, -1])
                        cases.append({'kind': 'named', 'agg': agg, 'n': rng.choice([1, 2]), 'k': k, 'hg': hg, 'hh': hh, 'hb': hb, 'map': mp, 'keys': names,
                                      'variant': variant})
    cases.append({'kind': 'refuse', 'agg': True})
    cases.append({'kind': 'refuse', 'agg': False})
    return cases


def pack_check_term(c, r):
    """Gallina boolean: does the generated definition agree with what the implementation returned?  None if the implementation's
    answer cannot be encoded (reported as a disagreement)"""
    k = c['kind']
    if 'harness_exc' in r or 'exc' in r:
        return None
    if k == 'names':
        return (f"(let '(ind, nm) := expressions_names_indices {csl(c['keys'])} in deqb ind {cdict(r['indices'])} && leqb String.eqb nm {csl(r['names'])})")
    if k == 'convert':
        obs = 'None' if r.get('index_error') else f'(Some {cdict(r["items"])})'
        return f'(oeqb deqb (convert_to_dict (-1) {czl(c["seq"])} {cdict(c["map"])}) {obs})'
    if k == 'select':
        f, g, h, b = tagged(c['n'], c['k'])
        if r['kind'] == 'agg':
            obs = f'(RAgg ({cz(r["f"])}, {copt(r["g"], czl)}, {copt(r["h"], czll)}, {copt(r["b"], czll)}))'
        elif r['kind'] == 'dis':
            obs = f'(RDis ({czl(r["f"])}, {copt(r["g"], czll)}, {copt(r["h"], czlll)}, {copt(r["b"], czlll)}))'
        elif r['kind'] == 'err':
            obs = 'RErr'
        else:
            return None
        fl = r.get('flags')
        if fl is None:
            return None
        B = coq_bool
        return (f'(res_eqb (select (-1) [] [] {B(c["cg"])} {B(c["ch"])} {B(c["cb"])} {B(c["agg"])} {"(Some tt)" if c["db"] else "None"} '
                f'{czl(f)} {czll(g)} {czlll(h)} {czlll(b)}) {obs} && '
                f"(let '(g1, h1, b1, a1) := engine_flags {B(c['cg'])} {B(c['ch'])} {B(c['cb'])} {B(c['agg'])} in "
                f'Bool.eqb g1 {B(fl[0])} && Bool.eqb h1 {B(fl[1])} && Bool.eqb b1 {B(fl[2])} && Bool.eqb a1 {B(fl[3])}))')
    if k == 'unique':
        f, g, h, b = tagged(c['n'], c['k'])
        obs = 'None' if r.get('none') else f'(Some ({cz(r["f"])}, {copt(r["g"], czl)}, {copt(r["h"], czll)}, {copt(r["b"], czll)}))'
        return (f'(oeqb agg_eqb (unique_entry (-1) [] [] {czl(f)} {copt(g if c["hg"] else None, czll)} {copt(h if c["hh"] else None, czlll)} '
                f'{copt(b if c["hb"] else None, czlll)}) {obs})')
    if k == 'named':
        f, g, h, b = tagged(c['n'], c['k'])
        mp = cdict(c['map'])
        if c['agg']:
            tg = f'(named_gradient (-1) {copt(g[0] if c["hg"] else None, czl)} {mp})'
            th = f'(named_hessian (-1) {copt(h[0] if c["hh"] else None, czll)} {mp})'
            tb = f'(named_bhhh (-1) {copt(b[0] if c["hb"] else None, czll)} {mp})'
            if r.get('index_error'):
                return f'(is_some_none {tg} || is_some_none {th} || is_some_none {tb})'
            og = 'None' if r['g'] is None else f'(Some (Some {cdict(r["g"])}))'
            oh = 'None' if r['h'] is None else f'(Some (Some {cmat(r["h"])}))'
            ob = 'None' if r['b'] is None else f'(Some (Some {cmat(r["b"])}))'
            return f'(oeqb (oeqb deqb) {tg} {og} && oeqb (oeqb meqb) {th} {oh} && oeqb (oeqb meqb) {tb} {ob})'
        tg = f'(named_gradients (-1) {copt(g if c["hg"] else None, czll)} {mp})'
        th = f'(named_hessians (-1) {copt(h if c["hh"] else None, czlll)} {mp})'
        tb = f'(named_bhhhs (-1) {copt(b if c["hb"] else None, czlll)} {mp})'
        if r.get('index_error'):
            return f'(bad_row {tg} || bad_row {th} || bad_row {tb})'

        def lst(x, f):
            return 'None' if x is None else '(Some [' + '; '.join(f'Some {f(y)}' for y in x) + '])'
        return (f'(oeqb (leqb (oeqb deqb)) {tg} {lst(r["g"], cdict)} && oeqb (leqb (oeqb meqb)) {th} {lst(r["h"], cmat)} && '
                f'oeqb (leqb (oeqb meqb)) {tb} {lst(r["b"], cmat)})')
    if k == 'refuse':
        if not all(isinstance(x, bool) for x in r['refused']):
            return None
        model = '[' + '; '.join(f'gvd_refuses {coq_bool(g)} {coq_bool(h)} {coq_bool(b)}' for g in (True, False) for h in (True, False) for b in (True, False)) + ']'
        return f'(leqb Bool.eqb {model} {coq_list([coq_bool(x) for x in r["refused"]])})'
    return None


def stream_pack(ctx):
    st = ctx.stream('pack', 'packaging functions on integer-tagged inputs (engine replaced by a recording stub): expressions_names_indices on 0-8 scrambled '
                    'names, convert_to_dict with valid / permuted / out-of-range maps, calculate_function_and_derivatives over all 32 flag combinations x '
                    '1-3 rows x database or not, unique_entry on 0-3 entries, Named*FunctionOutput with valid / permuted / invalid maps, the 8 refusal '
                    'combinations: the Gallina definitions regenerated from the source (Gen/Pack.v), evaluated by vm_compute, vs the implementation; '
                    'every case is a distinct decision (non-trivial); distinct by case')
    if not (ROCQ_GEN_OK()):
        ctx.stream_broken('pack', 'Gen/Pack.v is missing (the extractor failed): nothing to compare with')
        return
    cases = pack_cases(ctx.sub_rng('pack'), ctx.quick)
    res = ctx.impl('c02_pack.py', {'cases': cases})
    items, idx = [], []
    for i, (c, r) in enumerate(zip(cases, res)):
        st.record(c, nontrivial=True)
        t = pack_check_term(c, r)
        if t is None:
            st.disagree(c, 'an answer of the expected kind', r)
            continue
        items.append(t)
        idx.append(i)
    files = {}
    B = 120
    for j in range(0, len(items), B):
        files[f'pack_{j // B}'] = PACK_HEADER + 'Eval vm_compute in [\n' + ';\n'.join(items[j:j + B]) + '].\n'
    outs = ctx.coq_eval_many(files)
    for name in sorted(files, key=lambda x: int(x.split('_')[1])):
        ok, out = outs[name]
        j0 = int(name.split('_')[1]) * B
        n_here = len(items[j0:j0 + B])
        if not ok:
            ctx.stream_broken('pack', 'model evaluation failed: ' + out[-800:])
            continue
        bs = parse_bools(out)
        if len(bs) != n_here:
            ctx.stream_broken('pack', f'could not parse the model output ({len(bs)} results for {n_here} cases)')
            continue
        for jj, b in enumerate(bs):
            if not b:
                i = idx[j0 + jj]
                st.disagree(cases[i], 'the definition generated from the source (Gen/Pack.v) gives another answer', res[i])
    # property oracles on the same data (independent of the generated model)
    for c, r in zip(cases, res):
        pack_oracle(ctx, c, r)
    if st.disagreements:
        ctx.stream_broken('pack', f'{len(st.disagreements)} disagreements; first: {json.dumps(st.disagreements[0], default=str)[:900]}')


def ROCQ_GEN_OK():
    from common import ROCQ
    return (ROCQ / 'Gen' / 'Pack.v').exists()


def pack_oracle(ctx, c, r):
    """direct statements of the property on the tagged runs"""
    k = c['kind']
    how = 'lib/impl/c02_pack.py with this case on stdin ({"cases": [<witness>]})'
    if 'harness_exc' in r or 'exc' in r:
        ctx.violation(f'C02/pack/{k}/exception', 'a packaging function fails on a well-formed input', c, 'an answer', r, how)
        return
    if k == 'names':
        exp = sorted(set(c['keys']))
        if r['names'] != exp or r['indices'] != [[nm, i] for i, nm in enumerate(exp)]:
            ctx.violation('C02/pack/names', 'expressions_names_indices: names are not the sorted keys / an index is not the rank of its name',
                          c, {'names': exp, 'indices': [[nm, i] for i, nm in enumerate(exp)]}, r, how)
    elif k == 'convert':
        n = len(c['seq'])
        bad = any(i >= n or i < 0 for _, i in c['map'])
        if bad != bool(r.get('index_error')):
            ctx.violation('C02/pack/convert/range', 'convert_to_dict: an index outside the sequence is accepted (or a valid one refused)', c,
                          'IndexError' if bad else 'a dict', r, how)
        elif not bad and r['items'] != [[nm, c['seq'][i]] for nm, i in c['map']]:
            ctx.violation('C02/pack/convert/entry', 'convert_to_dict: a name does not receive the entry at its index', c,
                          [[nm, c['seq'][i]] for nm, i in c['map']], r['items'], how)
    elif k == 'select':
        f, g, h, b = tagged(c['n'], c['k'])
        asked = {'g': c['cg'], 'h': c['ch'], 'b': c['cb']}
        if r.get('flags') != [c['cg'], c['ch'], c['cb'], c['agg']]:
            ctx.violation('C02/pack/select/flags', 'the engine does not receive the flags that were asked', c, [c['cg'], c['ch'], c['cb'], c['agg']], r.get('flags'), how)
        if c['agg'] or (not c['db'] and c['n'] == 1):
            exp = {'kind': 'agg', 'f': f[0], 'g': g[0] if asked['g'] else None, 'h': h[0] if asked['h'] else None, 'b': b[0] if asked['b'] else None}
        elif c['db']:
            exp = {'kind': 'dis', 'f': f, 'g': g if asked['g'] else None, 'h': h if asked['h'] else None, 'b': b if asked['b'] else None}
        else:
            exp = {'kind': 'err'}
        obs = {kk: r.get(kk) for kk in exp}
        if obs != exp:
            ctx.violation('C02/pack/select/' + ('aggregated' if c['agg'] else 'per-observation'),
                          'calculate_function_and_derivatives does not return the first entry (aggregated) / the arrays (per observation) / None for what was not asked',
                          c, exp, obs, how)
    elif k == 'named' and c['variant'] != 'bad' and not r.get('index_error'):
        f, g, h, b = tagged(c['n'], c['k'])
        mp = c['map']
        if c['agg']:
            expg = [[nm, g[0][i]] for nm, i in mp] if c['hg'] else None
            exph = [[nm, [[n2, h[0][i][j]] for n2, j in mp]] for nm, i in mp] if c['hh'] else None
            if r['g'] != expg or r['h'] != exph:
                ctx.violation('C02/pack/named', 'a named output attaches an entry to the wrong name', c, {'g': expg, 'h': exph}, {'g': r['g'], 'h': r['h']}, how)
