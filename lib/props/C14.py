"""C14 -- what is written to disk reads back unchanged and never overwrites earlier output."""
import py2v
from py2v import Untranslatable, simple
from common import coq_string, coq_list, parse_bools, parse_marked

ASSUME = [
    'a directory is modelled as the list of names of its regular files; Path(x).is_file() is membership',
    'open(name, "w") on a name returned by get_new_file_name creates exactly that file (no TOCTOU: '
    'concurrent creation between is_file() and open() is a runtime fact outside the model -- partial)',
]


def gen_files(ctx):
    """tie A: filenames.get_new_file_name"""
    ext = {
        'Path': simple('py_path', ['string'], 'string', 'Path(x): a path is its string'),
        '.is_file()': simple('is_file fs', ['string'], 'bool', 'p.is_file(): membership in the directory model'),
    }
    tr = py2v.load('src/biogeme/filenames.py', externals=ext, formats={('Z', '02d'): 'fmt02d'})
    d1 = tr.function('get_new_file_name', {'name': 'string', 'ext': 'string'}, 'string', partial=True)
    text = (
        'From BV Require Import Model.PyBase.\nOpen Scope Z_scope.\n'
        'Definition py_path (s : string) : string := s.\n'
        'Section WithFS.\nVariable fs : list string.\n' + d1 + 'End WithFS.\n'
    )
    ctx.gen('Files', text)


def cand(name, ext, k):
    return f'{name}.{ext}' if k == 0 else f'{name}~{k - 1:02d}.{ext}'


def gen_name_cases(rng, n):
    cases = []
    bases = ['m', 'model', 'b_1', 'my model', 'a~00', 'x.y']
    exts = ['html', 'pickle', 'tex', 'F12', 'iter', 'log']
    for i in range(n):
        name, ext = rng.choice(bases), rng.choice(exts)
        kind = rng.random()
        files, dirs = set(), []
        if kind < 0.15:
            k = 0
        elif kind < 0.7:
            k = rng.randint(1, 6)
        elif kind < 0.9:
            k = rng.randint(7, 14)
        else:
            k = rng.choice([100, 101, 102, 105])  # beyond two digits: ~100, ~101 ...
        for j in range(k):
            files.add(cand(name, ext, j))
        # decoys after a gap, other bases/extensions, near-miss spellings
        for _ in range(rng.randint(0, 4)):
            files.add(cand(name, ext, k + rng.randint(1, 5)))
        for _ in range(rng.randint(0, 3)):
            files.add(cand(rng.choice(bases), rng.choice(exts), rng.randint(0, 3)))
        if k >= 1 and rng.random() < 0.3:
            files.add(f'{name}~{k - 1}.{ext}')  # unpadded spelling is a different file
        if rng.random() < 0.2:
            d = cand(name, ext, k)  # a directory with the candidate's name is not a file
            if d not in files:
                dirs.append(d)
        files = sorted(files - set(dirs))
        cases.append({'name': name, 'ext': ext, 'files': files, 'dirs': dirs})
    return cases


def coq_case(c, observed):
    fs = coq_list([coq_string(f) for f in c['files']])
    return f'({fs}, {coq_string(c["name"])}, {coq_string(c["ext"])}, {coq_string(observed)})'


def stream_names(ctx):
    st = ctx.stream('names', 'directories with 0-105 taken candidates, gaps, decoys of other bases/extensions, '
                    'unpadded near-misses and same-named directories; non-trivial = at least one candidate taken; '
                    'distinct by (files, dirs, name, ext)')
    cases = gen_name_cases(ctx.sub_rng('names'), ctx.n(150, 3000))
    res = ctx.impl('c14_names.py', cases)
    items = []
    for c, r in zip(cases, res):
        st.record(c, nontrivial=cand(c['name'], c['ext'], 0) in c['files'])
        # property oracle, directly on the implementation
        if not r['ok']:
            ctx.violation('C14/names/exception', 'get_new_file_name raised', c, 'a fresh name', r)
            continue
        if r['name'] in c['files']:  # (a same-named *directory* is not a file: open() would fail, nothing is replaced)
            ctx.violation('C14/names/not-fresh', 'get_new_file_name returned the name of an existing file',
                          c, 'a name that does not exist', r,
                          how='create the listed files in an empty directory and call get_new_file_name(name, ext)')
        if not r['unchanged']:
            ctx.violation('C14/names/side-effect', 'get_new_file_name changed the directory', c, None, r)
        items.append(coq_case(c, r['name']))
    if not items:
        return
    files = {}
    B = 250
    for i in range(0, len(items), B):
        chunk = items[i:i + B]
        files[f'names_{i // B}'] = (
            'From BV Require Import Model.PyBase Gen.Files.\nOpen Scope string_scope.\n'
            'Definition chk (c : list string * string * string * string) : bool :=\n'
            "  let '(fs, name, ext, obs) := c in\n"
            '  match get_new_file_name fs (S (List.length fs)) name ext with Some n => String.eqb n obs | None => false end.\n'
            'Definition mdl (c : list string * string * string * string) : string :=\n'
            "  let '(fs, name, ext, obs) := c in\n"
            '  match get_new_file_name fs (S (List.length fs)) name ext with Some n => "@R" ++ n | None => "@Rnone" end.\n'
            'Definition cases := ' + coq_list(chunk, ';\n') + '.\n'
            'Eval vm_compute in (List.map chk cases).\n'
        )
    outs = ctx.coq_eval_many(files)
    for k in sorted(files, key=lambda s: int(s.split('_')[1])):
        ok, out = outs[k]
        i0 = int(k.split('_')[1]) * B
        if not ok:
            ctx.stream_broken('names', 'model evaluation failed: ' + out[-600:])
            continue
        bs = parse_bools(out)
        n_here = len(items[i0:i0 + B])
        if len(bs) != n_here:
            ctx.stream_broken('names', f'could not parse model output ({len(bs)} results for {n_here} cases)')
            continue
        for j, b in enumerate(bs):
            if not b:
                c = cases[i0 + j]
                st.disagree(c, 'model (generated from source) differs', res[i0 + j])
    if st.disagreements:
        ctx.stream_broken('names', f'{len(st.disagreements)} disagreements, first: {st.disagreements[0]}')


def run(ctx):
    ctx.assumptions += ASSUME
    ctx.trusted += ['tie A translator /verif/lib/py2v (fail-closed) for filenames.get_new_file_name; '
                    'validated on this run by stream names (implementation vs vm_compute of the generated definition)']
    try:
        gen_files(ctx)
    except Untranslatable as e:
        ctx.tie_broken('py2v:Files', str(e))
    ctx.build()
    stream_names(ctx)


def replay(ctx, path):
    import json
    w = json.load(open(path))
    wit = w.get('witness')
    if not wit or 'files' not in wit:
        print('replay: this file names an obligation/stream; re-run ./check C14')
        return 2
    r = ctx.impl('c14_names.py', [wit])[0]
    bad = (not r['ok']) or r['existed'] or r['name'] in wit['files']
    print(json.dumps({'witness': wit, 'observed': r, 'still_fails': bad}))
    return 1 if bad else 0


def gen_all(ctx):
    gen_files(ctx)
